"""Registry of checks: which harness tests decide which property, with per-tier budgets."""

CHECKS = {}

MANIFEST_BASE = {
    "version": 1,
    "setup_cmd": "./check setup",
    "hooks": {
        "guard": "verif",
        "enable": "go build/test -tags verif (the driver passes it on every build of /repo code)",
        "baseline_off_cmd": "cd /repo && go build ./... && go test -vet=off -count=1 -timeout 25m ./...",
        "source_commits": ["1a24631", "b1bce3c", "e841acb", "25e7363"],
        "add_only": True,
    },
    "engines": [
        {"name": "P", "path": "harness/pkg", "kind_free_text": "rapid property tests / state machines compiled into the packages of /repo's working tree through go test -c -modfile -overlay (never writes /repo)"},
        {"name": "E", "path": "harness/e2e", "kind_free_text": "rapid-generated workloads, configurations and fault scripts against the real mosproxy binary built from /repo's working tree, fake upstreams and clients for every transport, decoded with miekg/dns"},
        {"name": "F", "path": "harness/pkg", "kind_free_text": "Go native coverage-guided fuzzing of byte-level entry points with the semantic oracle inside the target (thorough tier only; quick tier replays the committed corpus)"},
        {"name": "kit", "path": "harness/kit", "kind_free_text": "independent DNS model, wire encoder/decoder, generators, in-memory connection, evidence collector (imports nothing from /repo)"},
    ],
    "notes": "All checks are generated-input searches against explicit oracles (reference models, independent decoders, round trips, metamorphic relations, history invariants). VERIF_SEED selects the rapid seed; exit 2 means inconclusive. Known findings: known_findings.json.",
}

NOT_APPLICABLE = {}

CHECKS["C11"] = {
    "title": "Domain sets match by label suffix, independent of load order",
    "level": "exploration",
    "level_text": "Generated entry lists and probe names checked against a reference suffix/exact/regexp matcher written from the statement, plus order/duplicate/file-split independence and monotonicity; tens of thousands (quick) to millions (thorough) of lists with shrinking. Exploration, not proof: absence of a counterexample within the generated space.",
    "level_note": "Trusts Go's regexp package (used by both sides) and the harness's own text-form and suffix model; entries restricted to what a domain file line can carry.",
    "technique": "property-based testing (rapid): model-based oracle + metamorphic relations",
    "parts": [
        # the files of a set: C10's end-to-end test loads generated domain files (several per set, with and without a final
        # newline, CRLF, comments) through the router's own loader; "the result does not depend on the files the entries came from"
        {"engine": "E", "proxy": ["plain"], "tests": [
            {"run": "TestVfC10Rules", "quick": 160, "thorough": 20000, "shards_quick": 8, "shards_thorough": 16, "timeout_thorough": 3400},
        ]},
        {"engine": "P", "pkg": "internal/domain_matcher", "tests": [
            {"run": "TestVfC11Match", "quick": 20000, "thorough": 14117650, "timeout_thorough": 3000, "shards_quick": 4, "shards_thorough": 16,
             "timeout_thorough": 2400},
        ]},
        {"engine": "F", "pkg": "internal/domain_matcher", "tests": [
            {"run": "FuzzVfC11Match", "fuzz": True, "quick": 0, "thorough": 240, "timeout_thorough": 900, "exclusive": True},
        ]},
    ],
    "assumptions": [
        "entries are what a domain file line can carry: no '.', '#', CR, LF or backslash inside a label; first/last octet of a line not trimmed by bytes.TrimSpace; entry names <= 253 octets; no empty expression",
        "regexp entries are lower-case ASCII RE2 expressions built from the documented text form",
        "query names are lower-cased wire names (as the router passes them)",
    ],
}

CHECKS["C02"] = {
    "title": "The wire codec preserves message content",
    "level": "exploration",
    "level_text": "Generated messages over the full accepted domain are pushed through the proxy's decoder and encoder and the output is compared, octet-exact, with the model by four decoders (harness, the proxy itself, miekg/dns, x/net dnsmessage), for compression off and on, with length and pointer-validity checks and idempotence. Exploration by generated search with shrinking; no proof of absence.",
    "level_note": "Trusts the harness wire codec (self-checked on every case against the model and, inside their domains, against miekg and x/net); the reserved Z header bit has no field in the codec and is not compared; incoming pointer chains limited to the 10 hops the decoder accepts.",
    "technique": "property-based testing (rapid): round trip + differential against independent decoders",
    "parts": [
        {"engine": "P", "pkg": "internal/dnsmsg", "tests": [
            {"run": "TestVfC02RoundTrip", "quick": 24000, "thorough": 3453240, "timeout_thorough": 3000, "shards_quick": 8, "shards_thorough": 16,
             "timeout_thorough": 3000},
        ]},
        {"engine": "F", "pkg": "internal/dnsmsg", "tests": [
            {"run": "FuzzVfC02RoundTrip", "fuzz": True, "quick": 0, "thorough": 240, "timeout_thorough": 900, "exclusive": True},
        ]},
    ],
    "assumptions": [
        "messages are built by the harness encoder from a model; names <= 255 octets, labels 1..63 octets, at most one OPT",
        "Z bit (reserved) not compared: the codec's header has no field for it",
        "miekg/dns and x/net are only consulted on messages they reproduce from the input wire data (their own domain)",
    ],
}

CHECKS["C09"] = {
    "title": "Responses respect the transport size limit and truncate well-formedly",
    "level": "exploration",
    "level_text": "Generated responses x limits x compression are packed by the proxy's encoder and the output is parsed by a tolerant harness decoder (which sees lying counts and trailing bytes) and by miekg/dns: size bound, TC iff omission, counts = records present, question and OPT kept, kept answers/authorities an in-order subsequence, nothing omitted when the uncompressed form fits. Exploration with shrinking.",
    "level_note": "OPT RDATA <= 200 octets so that header + question + OPT always fit in 512 octets; responses carry 0-1 question.",
    "technique": "property-based testing (rapid): validity predicate over the output + independent decoders",
    "parts": [
        {"engine": "P", "pkg": "internal/dnsmsg", "tests": [
            {"run": "TestVfC09PackLimit", "quick": 16000, "thorough": 3934430, "timeout_thorough": 3000, "shards_quick": 8, "shards_thorough": 16,
             "timeout_thorough": 3000},
        ]},
        {"engine": "F", "pkg": "internal/dnsmsg", "tests": [
            {"run": "FuzzVfC09PackLimit", "fuzz": True, "quick": 0, "thorough": 240, "timeout_thorough": 900, "exclusive": True},
        ]},
        {"engine": "P", "pkg": "app/router", "tests": [
            {"run": "TestVfC09StreamCeiling", "quick": 4000, "thorough": 600000, "shards_quick": 8, "shards_thorough": 16, "timeout_thorough": 3000},
        ]},
        {"engine": "E", "proxy": ["plain"], "tests": [
            {"run": "TestVfC09Listeners", "quick": 800, "thorough": 720000, "shards_quick": 8, "shards_thorough": 16, "timeout_thorough": 3400},
        ]},
    ],
    "assumptions": [
        "OPT RDATA <= 200 octets, at most one OPT, 0-1 question (what the proxy itself produces and relays)",
    ],
}

CHECKS["C01"] = {
    "title": "Malformed input never crashes, hangs or wedges the proxy",
    "level": "exploration",
    "level_text": "Hostile byte strings (structure-aware corruptions, hand-written constants, random bytes; coverage-guided native fuzzing in the thorough tier) are fed to every decoder entry point with a watchdog, a cap==len input buffer, and an accept=>re-encodable / no-aliasing / differential oracle inside the target; listener- and upstream-level injection against the real binary checks that the process survives and keeps serving. Exploration; absence of a crash outside the explored inputs is not shown.",
    "level_note": "A hang is detected up to the 10 s watchdog; native fuzzing is not seedable and therefore thorough-tier only (quick replays the committed corpus).",
    "technique": "property-based testing (rapid) with structure-aware hostile generators + Go native coverage-guided fuzzing, differential/round-trip oracle in the target",
    "parts": [
        {"engine": "P", "pkg": "internal/dnsmsg", "tests": [
            {"run": "TestVfC01Decoder", "quick": 60000, "thorough": 36923080, "shards_quick": 8, "shards_thorough": 16, "timeout_thorough": 3000},
            {"run": "TestVfC01Names", "quick": 20000, "thorough": 12000000, "timeout_thorough": 3000, "shards_quick": 2, "shards_thorough": 4},
        ]},
        {"engine": "P", "pkg": "internal/dnsutils", "tests": [
            {"run": "TestVfC01Frames", "quick": 10000, "thorough": 12000000, "timeout_thorough": 3000, "shards_quick": 4, "shards_thorough": 16},
        ]},
        {"engine": "E", "proxy": ["plain"], "tests": [
            {"run": "TestVfC01Listeners", "quick": 1600, "thorough": 40000, "shards_quick": 8, "shards_thorough": 16, "timeout_thorough": 3400},
            {"run": "TestVfC01UpstreamReplies", "quick": 64, "thorough": 1600, "shards_quick": 8, "shards_thorough": 16, "timeout_quick": 900, "timeout_thorough": 3400, "shrinktime": "60s"},
        ]},
        {"engine": "F", "pkg": "internal/dnsmsg", "tests": [
            {"run": "FuzzVfC01Unpack", "fuzz": True, "quick": 1, "thorough": 300, "timeout_thorough": 900, "exclusive": True},
        ]},
    ],
    "assumptions": [
        "inputs of 0..65535 octets; decoder-level checks call the exported entry points directly",
    ],
}

CHECKS["C15"] = {
    "title": "Rate limiting is a per-client-subnet token bucket isolating clients",
    "level": "exploration",
    "level_text": "Generated limiter configurations and timed arrival histories in virtual time are checked against a reference token bucket per reference-masked subnet, against the window bound of the statement, and against the metamorphic isolation relation; the listener-level behaviour (REFUSED / 503 / not forwarded / charged to the client's subnet) is checked against the real binary. Exploration with shrinking.",
    "level_note": "Float tolerance band 1e-6 tokens (either answer accepted inside it); masks generated as omitted or in range only.",
    "technique": "property-based testing (rapid): reference model + metamorphic isolation relation over generated histories",
    "parts": [
        {"engine": "P", "pkg": "internal/limiter", "tests": [
            {"run": "TestVfC15Limiter", "quick": 30000, "thorough": 22222220, "shards_quick": 6, "shards_thorough": 16, "timeout_thorough": 3000},
            {"run": "TestVfC15Concurrent", "quick": 400, "thorough": 20000, "shards_quick": 2, "shards_thorough": 8},
            {"run": "TestVfC15Gc", "quick": 1600, "thorough": 80000, "shards_quick": 8, "shards_thorough": 16},
            {"run": "TestVfC15GcVsUse", "quick": 40, "thorough": 2000, "shards_quick": 8, "shards_thorough": 16},
            {"run": "TestVfC15GcKeepsLive", "quick": 0, "thorough": 2, "shards_thorough": 2},
        ]},
        {"engine": "P", "pkg": "app/router", "tests": [
            {"run": "TestVfC15Global", "quick": 96, "thorough": 4000, "shards_quick": 16, "shards_thorough": 16, "timeout_thorough": 3000},
        ]},
        {"engine": "E", "proxy": ["plain"], "tests": [
            {"run": "TestVfC15Listeners", "quick": 96, "thorough": 12860, "shards_quick": 8, "shards_thorough": 16, "timeout_thorough": 3400},
            {"run": "TestVfC15SlowStore", "quick": 4, "thorough": 160, "shards_quick": 4, "shards_thorough": 8, "timeout_thorough": 3400, "shrinktime": "40s"},
            {"run": "TestVfC15PrefetchCharges", "quick": 4, "thorough": 240, "shards_quick": 4, "shards_thorough": 8, "timeout_thorough": 3400, "shrinktime": "40s"},
            # a refused UDP query "is answered REFUSED": on a wildcard listener that answer has to leave from the address that was asked
            {"run": "TestVfC03WildcardUDP", "quick": 120, "thorough": 6000, "shards_quick": 8, "shards_thorough": 16, "timeout_thorough": 3000},
        ]},
    ],
    "assumptions": [
        "a mask field that is no prefix length of its family (0 = omitted, negative, beyond 32 / 128) configures nothing and the default /24 and /48 apply, as the option's documentation (default 24 / 48) and the fallback in setDefault say; limit >= 1 as the configuration's integer type implies",
        "time is the parameter of AllowN (virtual); decisions within 1e-6 tokens of the threshold may go either way",
        "TestVfC15Global runs in real time (the router's limiter reads the clock itself): decisions within 1 token + 10 ms of refill of a threshold are left undecided",
    ],
}

CHECKS["C07"] = {
    "title": "Cached answers go only to the same question and client group, unchanged",
    "level": "exploration",
    "level_text": "Black box: generated query histories that differ from an earlier query in exactly one of name/case/class/type/client group against the real binary with serial-numbered upstream answers (a hit must be legitimate and unchanged; an identical repeat must hit). White box: cache keys equal iff components equal under dirtied pool buffers, client-group lookup against a linear scan for generated range files, and a concurrent store/lookup/eviction hammer on the memory cache under the race detector. Exploration; schedules are sampled.",
    "level_note": "Group labels are printable strings; concurrency is sampled by the OS scheduler under -race.",
    "technique": "property-based testing (rapid): differential vs reference lookup, metamorphic single-component changes, history invariant over serial-numbered answers, randomized concurrent hammer under -race",
    "parts": [
        {"engine": "P", "pkg": "internal/netlist", "tests": [
            {"run": "TestVfC07Netlist", "quick": 20000, "thorough": 30000000, "timeout_thorough": 3000, "shards_quick": 4, "shards_thorough": 16},
        ]},
        {"engine": "P", "pkg": "app/router", "tests": [
            {"run": "TestVfC07IpMarker", "quick": 6000, "thorough": 9000000, "timeout_thorough": 3000, "shards_quick": 2, "shards_thorough": 8},
            {"run": "TestVfC07CacheKey", "quick": 20000, "thorough": 30000000, "timeout_thorough": 3000, "shards_quick": 2, "shards_thorough": 8},
        ]},
        {"engine": "P", "pkg": "internal/cache", "race": True, "tests": [
            {"run": "TestVfC07MemCacheHammer", "quick": 128, "thorough": 6000, "shards_quick": 16, "shards_thorough": 12, "timeout_quick": 300},
        ]},
        {"engine": "E", "proxy": ["plain"], "tests": [
            {"run": "TestVfC07Cache", "quick": 400, "thorough": 128570, "shards_quick": 8, "shards_thorough": 16, "timeout_thorough": 3400},
            {"run": "TestVfC07PrefetchGroup", "quick": 4, "thorough": 160, "shards_quick": 4, "shards_thorough": 8, "timeout_thorough": 3400, "shrinktime": "40s"},
        ]},
    ],
    "assumptions": [
        "client-group labels are printable strings without '#'; ranges in marker files do not overlap (overlap must be rejected at load)",
    ],
}

CHECKS["C08"] = {
    "title": "Cached answers age correctly and expire on time",
    "level": "exploration",
    "level_text": "White box without sleeping: generated responses x configured maxima are stored and the (stored, expire) pair read back must respect the lifetime policy table of the statement (TC/nil never stored, errors never displace a live positive entry); entries back-dated by 0..2^32-2 s must be served with TTLs <= max(1, T - elapsed) and >= 1, OPT untouched. Black box: timed histories over hundreds of independent names against the real binary with harness clocks on both sides. Exploration.",
    "level_note": "No real redis server exists offline; the second-level backend runs against a harness-made RESP3 server; lifetime floor of 1 s is accepted as cache-clock granularity.",
    "technique": "property-based testing (rapid): policy-table oracle on generated responses, back-dated entries instead of a clock hook, timed end-to-end histories",
    "parts": [
        {"engine": "P", "pkg": "app/router", "tests": [
            {"run": "TestVfC08StorePolicy", "quick": 15000, "thorough": 15000000, "timeout_thorough": 3000, "shards_quick": 4, "shards_thorough": 16},
            {"run": "TestVfC08Ageing", "quick": 15000, "thorough": 15000000, "timeout_thorough": 3000, "shards_quick": 4, "shards_thorough": 16},
        ]},
        {"engine": "P", "pkg": "internal/cache", "tests": [
            {"run": "TestVfC08MemExpiry", "quick": 16, "thorough": 640, "shards_quick": 8, "shards_thorough": 16, "timeout_thorough": 3000},
        ]},
        {"engine": "E", "proxy": ["plain"], "tests": [
            {"run": "TestVfC08Timed", "quick": 4, "thorough": 260, "shards_quick": 4, "shards_thorough": 8, "timeout_thorough": 3400, "shrinktime": "30s"},
            {"run": "TestVfC08Redis", "quick": 4, "thorough": 260, "shards_quick": 4, "shards_thorough": 8, "timeout_thorough": 3400, "shrinktime": "30s"},
        ]},
    ],
    "assumptions": [
        "the second-level (redis) backend is exercised against the harness's own RESP3 server (kit/fakeredis.go: HELLO, PING, GET, SET [NX] PX); a real redis server's eviction and cluster behaviour is not explored",
        "a lifetime of 1 s for TTL-0 records is within the statement's cache-clock allowance",
    ],
}

CHECKS["C12"] = {
    "title": "EDNS0 ends at the proxy; ECS reveals only a truncated client prefix",
    "level": "exploration",
    "level_text": "The ECS option encoder is compared with a reference encoder on generated addresses of every form; the end-to-end behaviour (OPT iff the query had one, no option relayed either way, exactly one OPT upstream with the reference ECS bytes only when enabled and the client address is known) is checked on generated queries/replies against the real binary. Exploration.",
    "level_note": "Upstream wire bytes are observed by the harness's fake upstream; at most one OPT per message.",
    "technique": "property-based testing (rapid): reference encoder differential + end-to-end observation of both sides",
    "parts": [
        {"engine": "P", "pkg": "app/router", "tests": [
            {"run": "TestVfC12EcsEncoder", "quick": 50000, "thorough": 60000000, "timeout_thorough": 3000, "shards_quick": 2, "shards_thorough": 8},
        ]},
        {"engine": "E", "proxy": ["plain"], "tests": [
            {"run": "TestVfC12Edns", "quick": 2400, "thorough": 1500000, "shards_quick": 8, "shards_thorough": 16, "timeout_thorough": 3400},
            {"run": "TestVfC12Prefetch", "quick": 16, "thorough": 640, "shards_quick": 8, "shards_thorough": 16, "timeout_thorough": 3000},
            {"run": "TestVfC12Timeout", "quick": 4, "thorough": 160, "shards_quick": 4, "shards_thorough": 8, "timeout_thorough": 3400, "shrinktime": "30s"},
        ]},
    ],
    "assumptions": ["at most one OPT per message (RFC 6891)"],
}

CHECKS["C05"] = {
    "title": "Multiplexed upstream replies reach exactly the exchange that asked",
    "level": "exploration",
    "level_text": "rapid state machine over the pipelined transport (datagram and stream flavours) on an in-memory connection whose schedule the harness owns: generated histories of start/cancel/reply-in-any-order/duplicate/unsolicited/late/close, invariants checked after every step, whole history shrinks; plus >65536-exchange roll-over runs with late replies placed around the ID boundary. Exploration of histories; not all interleavings of the goroutines inside the transport.",
    "level_note": "A reply that is consumed but never handed to its waiter (stall) makes the run inconclusive, not a violation (outside the statement). Goroutine scheduling inside the transport between two harness steps is the OS's.",
    "technique": "model-based stateful property testing (rapid state machine) with a harness-owned schedule; history invariants",
    "parts": [
        {"engine": "P", "pkg": "internal/upstream/transport", "tests": [
            {"run": "TestVfC05Pipeline", "quick": 2400, "thorough": 160000, "shards_quick": 12, "shards_thorough": 16, "args": ["-rapid.steps", "50"], "timeout_thorough": 3400},
            {"run": "TestVfC05Rollover", "quick": 8, "thorough": 960, "timeout_thorough": 3000, "shards_quick": 8, "shards_thorough": 16},
            {"run": "TestVfC05SharedLoad", "quick": 8, "thorough": 640, "timeout_thorough": 3000, "shards_quick": 8, "shards_thorough": 16},
            {"run": "TestVfC05SlowFrame", "quick": 320, "thorough": 32000, "timeout_thorough": 3000, "shards_quick": 8, "shards_thorough": 16},
        ]},
        # the udp upstream as its callers see it (multiplexed UDP leg + TCP leg): a returned message is the reply to the
        # caller's own query under the caller's ID, whichever leg produced it
        {"engine": "P", "pkg": "internal/upstream", "tests": [
            {"run": "TestVfC16Fallback", "quick": 600, "thorough": 60000, "timeout_thorough": 3000, "shards_quick": 8, "shards_thorough": 16},
        ]},
    ],
    "assumptions": ["the server side is the harness's in-memory connection; dials always succeed (faults are C14's domain)"],
}

CHECKS["C06"] = {
    "title": "One-at-a-time upstream connections are reused only when clean",
    "level": "exploration",
    "level_text": "rapid state machine over the non-pipelined (reuse) transport on an in-memory stream connection: explicit cancellations, replies sent whole/chunked/partially/aborted, server closes, idle-timer races; the fake server sends one unique reply per query and checks that it never sees a second query before it finished the previous reply, and every returned message is the reply to the exchange's own query. The TCP leg of UDP upstreams is the same transport. Exploration of histories.",
    "level_note": "The idle-timer race uses small real sleeps around a 30 ms timeout; the oracle is pure safety, so either outcome of the race must satisfy it.",
    "technique": "model-based stateful property testing (rapid state machine) with a harness-owned schedule; history invariants",
    "parts": [
        {"engine": "P", "pkg": "internal/upstream/transport", "tests": [
            {"run": "TestVfC06Reuse", "quick": 2400, "thorough": 100000, "shards_quick": 16, "shards_thorough": 16, "args": ["-rapid.steps", "40"], "timeout_thorough": 3400},
            {"run": "TestVfC06RespTimeout", "quick": 16, "thorough": 320, "shards_quick": 16, "shards_thorough": 16, "shrinktime": "30s"},
        ]},
        {"engine": "P", "pkg": "internal/upstream", "tests": [
            {"run": "TestVfC06FallbackLeg", "quick": 240, "thorough": 24000, "shards_quick": 8, "shards_thorough": 16, "timeout_thorough": 3000},
            # the fallback leg with failing TCP sides: whatever is returned is the reply to the caller's own query
            {"run": "TestVfC16Fallback", "quick": 400, "thorough": 40000, "timeout_thorough": 3000, "shards_quick": 8, "shards_thorough": 16},
        ]},
    ],
    "assumptions": ["the fake server sends exactly one reply per query, echoing the query's ID"],
}

CHECKS["C16"] = {
    "title": "A truncated UDP upstream reply is retried over TCP",
    "level": "fault_enumeration",
    "level_text": "Generated (query, UDP reply with/without TC and any rcode, TCP leg outcome: distinct reply / reply with TC / error rcode / close / silence until the deadline) against a fake server on one UDP+TCP loopback port; token-carrying replies show which leg produced the returned message, and the TCP log shows whether and with which bytes the TCP leg was used. Enumeration of the fault classes x generated inputs; not a proof.",
    "level_note": "Real loopback sockets; a UDP query that never reaches the fake server makes the run inconclusive.",
    "technique": "property-based testing (rapid) over scripted fault outcomes of a fake upstream; token-carrying replies as oracle",
    "parts": [
        {"engine": "P", "pkg": "internal/upstream", "tests": [
            {"run": "TestVfC16Fallback", "quick": 2000, "thorough": 187500, "timeout_thorough": 3000, "shards_quick": 8, "shards_thorough": 16},
            {"run": "TestVfC16TcpSideComesBack", "quick": 160, "thorough": 16000, "timeout_thorough": 3000, "shards_quick": 8, "shards_thorough": 16},
            {"run": "TestVfC16Burst", "quick": 120, "thorough": 8000, "timeout_thorough": 3000, "shards_quick": 8, "shards_thorough": 16},
        ]},
    ],
    "assumptions": ["the upstream is created with NewUpstream(\"udp://127.0.0.1:port\") as the router does"],
}

CHECKS["C17"] = {
    "title": "Peers are reached and authenticated exactly as configured",
    "level": "exploration",
    "level_text": "Addressing: generated scheme x host form x port x dial_addr combinations; the (network, address) the socket Control callback sees on the first dial (QUIC: the datagram arriving on a harness socket bound to the expected address) must equal a reference table, and SNI / HTTP Host must still derive from the URL host when dial_addr redirects the connection. Authentication: generated certificate situations (valid, wrong name, unknown CA, expired, self-signed, absent) x TLS options against the real binary for upstream and listener kinds. Exploration.",
    "level_note": "Domain names resolve through a harness DNS server installed as net.DefaultResolver in the test process; 'system roots by default' is only testable in the negative direction offline.",
    "technique": "property-based testing (rapid): reference table differential for dial targets; generated certificate matrix end to end",
    "parts": [
        {"engine": "P", "pkg": "internal/upstream", "tests": [
            {"run": "TestVfC17DialTarget", "quick": 4000, "thorough": 6000000, "timeout_thorough": 3000, "shards_quick": 4, "shards_thorough": 16},
            {"run": "TestVfC17QuicTarget", "quick": 60, "thorough": 600, "shards_quick": 1, "shards_thorough": 1, "exclusive": True},
            {"run": "TestVfC17ServerName", "quick": 200, "thorough": 120000, "timeout_thorough": 3000, "shards_quick": 2, "shards_thorough": 4},
            # the TCP leg of a udp upstream is a second dial of the same upstream: it has to go to the dial_addr override as well
            {"run": "TestVfC16Fallback", "quick": 600, "thorough": 60000, "timeout_thorough": 3000, "shards_quick": 8, "shards_thorough": 16},
        ]},
        {"engine": "E", "proxy": ["plain"], "tests": [
            {"run": "TestVfC17UpstreamAuth", "quick": 160, "thorough": 120000, "timeout_thorough": 3000, "shards_quick": 8, "shards_thorough": 16, "shrinktime": "15s"},
            {"run": "TestVfC17ClientCert", "quick": 120, "thorough": 90000, "timeout_thorough": 3000, "shards_quick": 4, "shards_thorough": 8, "shrinktime": "15s"},
        ]},
    ],
    "assumptions": ["IPv6 zones are not generated; ports 853/443 on 127.33-35.x.y and ::1 are bound by the harness for the default-port QUIC cases (skipped when busy)"],
}

CHECKS["C03"] = {
    "title": "Every query gets exactly one matching response whatever the upstream does",
    "level": "fault_enumeration",
    "level_text": "Generated batches of (listener kind x decodable query x upstream outcome) run against the real binary (cache off and on) with all eight listener kinds and scripted fake upstreams (reply, error rcode, garbage, truncated frame, accept-then-close, dead port, silence until the deadline, no rule, rule without action); per query everything that comes back is collected and must be exactly one well-formed response with the stated header fields, question and reference rcode, within the deadline. Enumeration of fault classes x generated inputs; no proof.",
    "level_note": "UDP loss on loopback is handled by one solo retry before a missing response counts; the 8 s bound is 6 s + 2 s slack.",
    "technique": "property-based testing (rapid) with fault injection: generated workloads against the real binary, reference rcode model, exactly-once history invariant",
    "parts": [
        {"engine": "E", "proxy": ["plain"], "tests": [
            {"run": "TestVfC03", "quick": 40, "thorough": 1200, "shards_quick": 8, "shards_thorough": 16, "timeout_quick": 600, "timeout_thorough": 3400, "shrinktime": "40s"},
            {"run": "TestVfC03WildcardUDP", "quick": 160, "thorough": 12000, "shards_quick": 4, "shards_thorough": 16, "timeout_thorough": 3400},
            {"run": "TestVfC03Pipelined", "quick": 160, "thorough": 6000, "shards_quick": 8, "shards_thorough": 16, "timeout_thorough": 3400},
            {"run": "TestVfC03StoreStall", "quick": 4, "thorough": 160, "shards_quick": 4, "shards_thorough": 8, "timeout_thorough": 3400, "shrinktime": "30s"},
            {"run": "TestVfC03IdleThenSilent", "quick": 4, "thorough": 120, "shards_quick": 4, "shards_thorough": 8, "timeout_thorough": 3400, "shrinktime": "40s"},
        ]},
    ],
    "assumptions": ["well-formed fake replies carry the lower-cased question they were asked, as real servers do", "clients keep their transport open until the response or 9 s"],
}

CHECKS["C10"] = {
    "title": "Rules are first-match and a query reaches only the selected upstream",
    "level": "exploration",
    "level_text": "Generated YAML configurations (upstreams, shared domain files, empty sets, rule lists with domain/reverse/reject/forward/no action) are run by the real binary, one process per configuration, and probed with generated queries; a reference first-match model predicts the client rcode, the answering upstream and the exact upstream traffic. Mutated (invalid) configurations must make the process exit non-zero without serving. Exploration.",
    "level_note": "Domain entries are kept simple here (LDH labels, a few regexps); the matcher itself is C11's subject. reverse is only generated together with a domain condition.",
    "technique": "property-based testing (rapid): generated configurations against the real binary, reference model of rule evaluation, upstream traffic log as oracle",
    "parts": [
        {"engine": "E", "proxy": ["plain"], "tests": [
            {"run": "TestVfC10Rules", "quick": 160, "thorough": 50000, "shards_quick": 8, "shards_thorough": 16, "timeout_thorough": 3400},
            {"run": "TestVfC10BadConfig", "quick": 80, "thorough": 48000, "timeout_thorough": 3000, "shards_quick": 4, "shards_thorough": 8},
        ]},
    ],
    "assumptions": ["cache off in generated configurations, so a forward decision means exactly one upstream query", "reverse without a domain condition is not generated (the statement does not define it)"],
}

CHECKS["C13"] = {
    "title": "Stream listeners frame correctly under any segmentation and pipelining",
    "level": "exploration",
    "level_text": "Generated pipelines of 1-60 queries with generated segmentation plans (cuts inside prefixes and bodies, single-octet segments, pauses) and generated upstream delays are sent to the tcp, gnet and tls listeners of the real binary; the return stream is parsed strictly: exactly k frames, prefix = body length, every body decodes, IDs form the same multiset, every answer belongs to its query; with a small concurrency limit the upstream is gated so that exactly k-limit REFUSED responses must appear. Exploration; completion orders are sampled by the OS.",
    "level_note": "Segments are separate writes with TCP_NODELAY and optional pauses; the kernel may still coalesce them.",
    "technique": "property-based testing (rapid): generated segmentations and pipelines against the real binary, strict stream parser as oracle",
    "parts": [
        {"engine": "E", "proxy": ["plain"], "tests": [
            {"run": "TestVfC13Framing", "quick": 480, "thorough": 85710, "shards_quick": 8, "shards_thorough": 16, "timeout_thorough": 3400},
            {"run": "TestVfC13CounterAfterRefusals", "quick": 24, "thorough": 800, "shards_quick": 8, "shards_thorough": 16, "timeout_thorough": 3000},
            {"run": "TestVfC13LongLived", "quick": 8, "thorough": 480, "shards_quick": 8, "shards_thorough": 16, "timeout_quick": 300, "timeout_thorough": 3400, "shrinktime": "60s"},
            {"run": "TestVfC13StalledReader", "quick": 8, "thorough": 320, "shards_quick": 8, "shards_thorough": 16, "timeout_thorough": 3400, "shrinktime": "40s"},
            {"run": "TestVfC13SlowSegments", "quick": 16, "thorough": 320, "shards_quick": 8, "shards_thorough": 16, "timeout_quick": 300, "timeout_thorough": 3400, "shrinktime": "60s"},
        ]},
    ],
    "assumptions": ["queries carry padding records in the additional section to vary frame sizes (ignored by the proxy)"],
}

CHECKS["C04"] = {
    "title": "Answers are never mixed up between concurrent queries",
    "level": "exploration",
    "level_text": "Generated concurrent workloads (8-48 clients over 2-6 listener kinds, question pools with repeats, 2-4 upstream kinds with delayed/reordered replies, cache off/large/tiny, short TTLs, GOMAXPROCS variation) run against the race-instrumented binary with the release-time poison hook; every response is checked against the keyed answer of its own question, and no poison octets may appear in any response or upstream query. Schedules are sampled by the OS - this is exploration of interleavings, made denser by drawn delays and by the hook which removes the dependence on when a recycled buffer is reused.",
    "level_note": "Interleavings the OS never produces are not explored; a handful of lost UDP datagrams on a busy loopback is tolerated (<0.5%).",
    "technique": "randomized concurrent workload generation (rapid) against the real binary under the race detector + poison hook; keyed-answer oracle",
    "parts": [
        {"engine": "E", "proxy": ["plain", "race"], "tests": [
            {"run": "TestVfC04Mixups", "quick": 6, "thorough": 400, "shards_quick": 6, "shards_thorough": 8, "timeout_quick": 900, "timeout_thorough": 3500, "shrinktime": "90s"},
            {"run": "TestVfC04SharedConn", "quick": 2000, "thorough": 400000, "shards_quick": 4, "shards_thorough": 16, "timeout_thorough": 3400},
            # the same workload with failing upstream legs, clients that hang up and cancelled exchanges (C20's registration of
            # it has more cases): the keyed-answer oracle is this property's, and error paths are where objects get shared
            {"run": "TestVfC20Workload", "quick": 2, "thorough": 48, "shards_quick": 2, "shards_thorough": 8, "timeout_quick": 900, "timeout_thorough": 3500, "shrinktime": "90s"},
        ]},
    ],
    "assumptions": ["fake upstream answers are a keyed function of the question only, so cached and fresh answers coincide"],
}

CHECKS["C20"] = {
    "title": "Recycled memory is exclusively owned",
    "level": "exploration",
    "level_text": "Cancellation-rich generated workloads (expiring request contexts, killed upstream connections, clients disconnecting mid-pipeline, eviction pressure) against the -race -tags verif binary: zero data race reports, zero canary lines (double release / write after release detected by the quarantine), no poison octets in anything the proxy emits; plus the memory-cache hammer and the transport-level cancellation hammer under -race. This is schedule sampling - the weakest fit for generated-input search - strengthened by the hook, which turns any unsynchronised access to a released pool buffer into a race regardless of timing.",
    "level_note": "Only buffers of internal/pool are poisoned; sync.Pool-recycled messages and records are covered by the race detector alone. Freedom from races on unsampled schedules is not shown.",
    "technique": "randomized concurrent workload generation (rapid) under the Go race detector with release-time poisoning/quarantine instrumentation (build tag verif)",
    "parts": [
        {"engine": "E", "proxy": ["plain", "race"], "tests": [
            {"run": "TestVfC20Workload", "quick": 4, "thorough": 96, "shards_quick": 4, "shards_thorough": 8, "timeout_quick": 900, "timeout_thorough": 3500, "shrinktime": "90s"},
            {"run": "TestVfC03WildcardUDP", "quick": 120, "thorough": 6000, "shards_quick": 4, "shards_thorough": 16, "timeout_thorough": 3400},
        ]},
        {"engine": "P", "pkg": "internal/cache", "race": True, "tests": [
            {"run": "TestVfC07MemCacheHammer", "quick": 80, "thorough": 3000, "shards_quick": 4, "shards_thorough": 8, "timeout_quick": 300},
        ]},
        {"engine": "P", "pkg": "internal/upstream", "race": True, "tests": [
            {"run": "TestVfC20TransportHammer", "quick": 64, "thorough": 7660, "timeout_thorough": 3000, "shards_quick": 8, "shards_thorough": 16, "shrinktime": "10s"},
        ]},
    ],
    "assumptions": ["build tag verif enables the add-only hook in internal/pool (one call site in ReleaseBuf)"],
}

CHECKS["C19"] = {
    "title": "Prefetch is single-flight and never delays a cache hit",
    "level": "exploration",
    "level_text": "Timed histories over dozens of independent names per run against the real binary: entries are primed per client group, a generated burst of concurrent hits is placed inside the refresh window, and the fake upstream holds the refresh reply until every response of the burst has been collected - so whether a hit waited for the refresh is decided by the order of events, not by a latency threshold. Checked: all hits answered from the old entry while the refresh is held, at most one refresh in flight per client group, successful refresh visible to later hits, failed/negative refresh leaves the old entry usable until its expiry and not 2 s beyond. Exploration; burst timing is sampled.",
    "level_note": "The cache clock has one-second granularity: bursts are placed where more than 1.3 s of lifetime remain, and 'still served' is only required until 1.3 s before the nominal expiry.",
    "technique": "property-based testing (rapid): generated timed histories against the real binary with a gating fake upstream; event-order oracle",
    "parts": [
        {"engine": "E", "proxy": ["plain"], "tests": [
            {"run": "TestVfC19Prefetch", "quick": 4, "thorough": 170, "shards_quick": 4, "shards_thorough": 8, "timeout_thorough": 3400, "shrinktime": "30s"},
            {"run": "TestVfC19StoreRace", "quick": 2, "thorough": 60, "shards_quick": 2, "shards_thorough": 8, "timeout_thorough": 3400, "shrinktime": "40s"},
            {"run": "TestVfC19SlowRefresh", "quick": 2, "thorough": 48, "shards_quick": 2, "shards_thorough": 8, "timeout_thorough": 3400, "shrinktime": "60s"},
        ]},
        {"engine": "P", "pkg": "app/router", "tests": [
            {"run": "TestVfC19ReserveHammer", "quick": 24, "thorough": 36920, "timeout_thorough": 3000, "shards_quick": 4, "shards_thorough": 8, "shrinktime": "5s", "exclusive": True},
        ]},
    ],
    "assumptions": ["client groups are selected through UDP source addresses and an ip_marker file", "a burst hit that gets no response is re-sent once on its own before it counts (UDP loss on loopback)"],
}

CHECKS["C14"] = {
    "title": "Upstream exchanges end by their deadline and survive stale connections",
    "level": "fault_enumeration",
    "level_text": "Scripted faulty servers on real loopback sockets for every transport (udp, tcp, tcp+pipeline, tls, tls+pipeline, https, h3, quic): generated fault placements on fresh or pooled connections (silence, half prefix, half body then stall/FIN, garbage, wrong ID, FIN, RST, HTTP 500, closed port, handshake that never completes) with 150-600 ms deadlines must return by deadline + 2 s; pooled connections killed by the server while idle must be survived with a bounded number of dials; a server that kills every connection must yield an error with bounded dials; all waiters of a killed multiplexed connection must return within 1.5 s. Enumeration of fault classes x placements; timing is the OS's.",
    "level_note": "The 2 s slack is far below the 5-6 s I/O deadlines in the code, so a path that forgot the context is unmistakable.",
    "technique": "property-based fault injection (rapid) against scripted fake servers; bounded-time and bounded-dial oracles",
    "parts": [
        {"engine": "P", "pkg": "internal/upstream/transport", "tests": [
            # also part of C05: here for its "exchanges keep succeeding while a connection that ran out of wire IDs waits for its last replies" oracle
            {"run": "TestVfC05Rollover", "quick": 4, "thorough": 160, "shards_quick": 4, "shards_thorough": 16, "timeout_thorough": 3000},
            # also part of C06: here for the pooled connection that is stale silently (open, takes the query, never answers) - the
            # time-out on it is a failure of a reused connection, and the retry on a new one is answered at once
            {"run": "TestVfC06RespTimeout", "quick": 16, "thorough": 320, "shards_quick": 16, "shards_thorough": 16, "shrinktime": "30s"},
        ]},
        {"engine": "P", "pkg": "internal/upstream", "tests": [
            {"run": "TestVfC14Faults", "quick": 320, "thorough": 37890, "shards_quick": 16, "shards_thorough": 16, "timeout_thorough": 3400},
            {"run": "TestVfC14Stale", "quick": 160, "thorough": 24000, "timeout_thorough": 3000, "shards_quick": 8, "shards_thorough": 16},
            {"run": "TestVfC14MassWake", "quick": 64, "thorough": 72000, "timeout_thorough": 3000, "shards_quick": 4, "shards_thorough": 8},
            {"run": "TestVfC14WriteStall", "quick": 48, "thorough": 1600, "shards_quick": 8, "shards_thorough": 16, "timeout_thorough": 3000},
            {"run": "TestVfC14Saturated", "quick": 96, "thorough": 3200, "shards_quick": 8, "shards_thorough": 16},
            {"run": "TestVfC14UdpServerRestart", "quick": 48, "thorough": 3200, "shards_quick": 8, "shards_thorough": 16, "timeout_thorough": 3400},
            {"run": "TestVfC14LocalSocketBroken", "quick": 160, "thorough": 16000, "shards_quick": 8, "shards_thorough": 16, "timeout_thorough": 3400},
        ]},
    ],
    "assumptions": ["fake servers listen on 127.0.0.1 with certificates from the harness CA"],
}

CHECKS["C18"] = {
    "title": "Shutdown and failed start-up are orderly",
    "level": "exploration",
    "level_text": "Upstream level (every kind incl. the TCP fallback of UDP upstreams, under the race detector): generated schedules of warm, in-flight (held replies, delayed accepts/handshakes) and later exchanges around a concurrent double Close; every Close returns within 2 s, every exchange returns within 3 s of the Close although it has no deadline of its own, the fake server sees all its connections closed within 2 s and the process holds no additional sockets afterwards. Router level: generated configurations in which component i fails to start must exit with status 1 and a fatal log line (never a panic), releasing every address; SIGTERM under traffic with held upstream replies must exit 0 within 8 s. Exploration; schedules are sampled.",
    "level_note": "The 8 s bound at router level is the 6 s request deadline (which the fasthttp listener's graceful shutdown may wait out) plus 2 s.",
    "technique": "property-based testing (rapid): generated close schedules against counting fake servers under -race, socket-inode invariant; generated failing configurations against the real binary",
    "parts": [
        # Close() against exchanges that are emptying a pool of dead connections (map iteration vs deletion shows as a
        # race report or a fatal error of the runtime)
        {"engine": "P", "pkg": "internal/upstream/transport", "race": True, "tests": [
            {"run": "TestVfC18CloseVsDeadPool", "quick": 160, "thorough": 2400, "shards_quick": 8, "shards_thorough": 16, "timeout_thorough": 3000, "shrinktime": "10s"},
        ]},
        {"engine": "P", "pkg": "internal/upstream", "race": True, "tests": [
            {"run": "TestVfC18UpstreamClose", "quick": 240, "thorough": 66670, "shards_quick": 8, "shards_thorough": 16, "timeout_thorough": 3400, "shrinktime": "10s"},
        ]},
        {"engine": "P", "pkg": "internal/upstream/transport", "tests": [
            {"run": "TestVfC05Rollover", "quick": 8, "thorough": 160, "timeout_thorough": 3000, "shards_quick": 8, "shards_thorough": 16},
            {"run": "TestVfC18ReuseIdleRace", "quick": 320, "thorough": 32000, "shards_quick": 8, "shards_thorough": 16, "timeout_thorough": 3400, "shrinktime": "10s"},
        ]},
        {"engine": "P", "pkg": "app/router", "tests": [
            {"run": "TestVfC18RunReleases", "quick": 240, "thorough": 6000, "shards_quick": 8, "shards_thorough": 16, "shrinktime": "10s"},
        ]},
        {"engine": "E", "proxy": ["plain"], "tests": [
            {"run": "TestVfC18Startup", "quick": 120, "thorough": 39130, "timeout_thorough": 3000, "shards_quick": 4, "shards_thorough": 8},
            {"run": "TestVfC18Shutdown", "quick": 8, "thorough": 1220, "timeout_thorough": 3000, "shards_quick": 4, "shards_thorough": 8, "shrinktime": "20s"},
        ]},
    ],
    "assumptions": ["exchanges started around Close use contexts without deadline, so 'returned' cannot be due to their own timeout"],
}
