"""Registry of checks: which harness tests decide which property, with per-tier budgets."""

CHECKS = {}

MANIFEST_BASE = {
    "version": 1,
    "setup_cmd": "./check setup",
    "hooks": {
        "guard": "verif",
        "enable": "go build/test -tags verif (the driver passes it on every build of /repo code)",
        "baseline_off_cmd": "cd /repo && go build ./... && go test -vet=off -count=1 -timeout 25m ./...",
        "source_commits": [],
        "add_only": True,
    },
    "engines": [
        {"name": "P", "path": "harness/pkg", "kind_free_text": "rapid property tests / state machines compiled into the packages of /repo's working tree through go test -c -modfile -overlay (never writes /repo)"},
        {"name": "E", "path": "harness/e2e", "kind_free_text": "rapid-generated workloads, configurations and fault scripts against the real mosproxy binary built from /repo's working tree, fake upstreams and clients for every transport, decoded with miekg/dns"},
        {"name": "F", "path": "harness/pkg", "kind_free_text": "Go native coverage-guided fuzzing of byte-level entry points with the semantic oracle inside the target (thorough tier only; quick tier replays the committed corpus)"},
        {"name": "kit", "path": "harness/kit", "kind_free_text": "independent DNS model, wire encoder/decoder, generators, in-memory connection, evidence collector (imports nothing from /repo)"},
    ],
    "notes": "All checks are generated-input searches against explicit oracles (reference models, independent decoders, round trips, metamorphic relations, history invariants). VERIF_SEED selects the rapid seed; exit 2 means inconclusive. Known findings: known_findings.json.",
}

NOT_APPLICABLE = {}

CHECKS["C11"] = {
    "title": "Domain sets match by label suffix, independent of load order",
    "level": "exploration",
    "level_text": "Generated entry lists and probe names checked against a reference suffix/exact/regexp matcher written from the statement, plus order/duplicate/file-split independence and monotonicity; tens of thousands (quick) to millions (thorough) of lists with shrinking. Exploration, not proof: absence of a counterexample within the generated space.",
    "level_note": "Trusts Go's regexp package (used by both sides) and the harness's own text-form and suffix model; entries restricted to what a domain file line can carry.",
    "technique": "property-based testing (rapid): model-based oracle + metamorphic relations",
    "parts": [
        {"engine": "P", "pkg": "internal/domain_matcher", "tests": [
            {"run": "TestVfC11Match", "quick": 20000, "thorough": 1600000, "shards_quick": 4, "shards_thorough": 16,
             "timeout_thorough": 2400},
        ]},
    ],
    "assumptions": [
        "entries are what a domain file line can carry: no '.', '#', CR, LF or backslash inside a label; first/last octet of a line not trimmed by bytes.TrimSpace; entry names <= 253 octets; no empty expression",
        "regexp entries are lower-case ASCII RE2 expressions built from the documented text form",
        "query names are lower-cased wire names (as the router passes them)",
    ],
}
