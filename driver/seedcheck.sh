#!/bin/bash
# driver/seedcheck.sh <ID> [check-id]  : verify a sub-agent's seeded change and run the quick check against it.
# Reads /tmp/seed-out/<ID>/patch.diff and the demo left in /tmp/seed/<ID>; never touches /repo's working tree.
set -u
ID=$1; CID=${2:-$1}
OUT=/tmp/seed-out/$ID; SRC=/tmp/seed/$ID
W=/tmp/vf-mut/seed-$ID
rm -rf $W; git -C /repo worktree prune; git -C /repo worktree add -q --detach $W HEAD || exit 2
DEMO=$(git -C $SRC status --short | grep '^??' | grep -E 'zz_|demo' | awk '{print $2}' | head -1)
echo "demo file: $DEMO"
res() { echo "RESULT $ID $1"; }
cd $W
git apply $OUT/patch.diff || { res "patch does not apply"; git -C /repo worktree remove --force $W; exit 2; }
go build ./... || { res "does not build"; git -C /repo worktree remove --force $W; exit 2; }
SUITE=ok
for i in 1 2; do
  if go test -count=1 ./... > /tmp/seed-out/$ID.suite.log 2>&1; then SUITE=ok; break; else SUITE=fail; fi
done
if [ $SUITE = fail ] && [ "$(grep -E "^--- FAIL" /tmp/seed-out/$ID.suite.log | grep -v Test_ReuseConnTransport | wc -l)" = 0 ]; then SUITE=ok-except-known-flaky; fi; echo "existing suite with change: $SUITE"; grep -E "^(FAIL|---)" /tmp/seed-out/$ID.suite.log | head -5
DEMO_WITH=na; DEMO_WITHOUT=na
if [ -n "$DEMO" ] && [ -f "$SRC/$DEMO" ]; then
  mkdir -p $(dirname $W/$DEMO); cp $SRC/$DEMO $W/$DEMO
  PKG=./$(dirname $DEMO)
  if go test -count=1 -run 'Demo|ZZ' $PKG > /tmp/seed-out/$ID.demo_with.log 2>&1; then DEMO_WITH=pass; else DEMO_WITH=fail; fi
  git apply -R $OUT/patch.diff
  if go test -count=1 -run 'Demo|ZZ' $PKG > /tmp/seed-out/$ID.demo_without.log 2>&1; then DEMO_WITHOUT=pass; else DEMO_WITHOUT=fail; fi
  git apply $OUT/patch.diff
  rm -f $W/$DEMO
fi
echo "demo with change: $DEMO_WITH ; without: $DEMO_WITHOUT"
cd /verif
VERIF_REPO=$W ./check $CID > /tmp/seed-out/$ID.check.log 2>&1; RC=$?
grep -E "VIOLATION|exit [0-9]" /tmp/seed-out/$ID.check.log | cut -c1-200 | head -4
git -C /repo worktree remove --force $W
res "suite=$SUITE demo_with=$DEMO_WITH demo_without=$DEMO_WITHOUT check_rc=$RC demo=$DEMO"
