#!/usr/bin/env python3
"""driver/seedsave.py <ID> <dir-name> "<what it needs to manifest>"  : archive a verified seeded change under /verif/seeded/."""
import json, os, re, shutil, subprocess, sys
sid, name, needs = sys.argv[1], sys.argv[2], sys.argv[3]
prop = sys.argv[4] if len(sys.argv) > 4 else sid
out = f"/tmp/seed-out/{sid}"
dst = f"/verif/seeded/{name}"
os.makedirs(dst, exist_ok=True)
shutil.copy(f"{out}/patch.diff", f"{dst}/patch.diff")
demo = None
for cand in ("demo_test.go",):
    if os.path.exists(f"{out}/{cand}"):
        shutil.copy(f"{out}/{cand}", f"{dst}/{cand}.txt")  # .txt: must not be compiled as part of /verif
        demo = cand + ".txt"
if os.path.isdir(f"{out}/demo"):
    shutil.copytree(f"{out}/demo", f"{dst}/demo", dirs_exist_ok=True)
    demo = "demo/"
if os.path.exists(f"{out}/notes.md"):
    shutil.copy(f"{out}/notes.md", f"{dst}/notes.md")
log = open(f"/tmp/seed-out/{sid}.check.log", errors="replace").read()
caught = sorted(set(re.findall(r"replays/[A-Z0-9]+/([A-Za-z0-9_]+)/", log)))
res = [l for l in open(f"/tmp/seed-out/{sid}.check.log", errors="replace") if "exit" in l and "[check]" in l]
demo_path = subprocess.run(["git", "-C", f"/tmp/seed/{sid}", "status", "--short"], capture_output=True, text=True).stdout
m = re.search(r"\?\? (\S*(?:zz_|demo)\S*)", demo_path)
meta = {
    "property": prop,
    "breaks": open(f"/tmp/seed-out/{prop}.prop.txt").read().split("\n")[0],
    "needs_to_manifest": needs,
    "source": "independent sub-agent given only the property text and a scratch worktree",
    "demo": demo, "demo_belongs_in": m.group(1) if m else None,
    "verified": {
        "builds": True,
        "existing_suite_with_change": "passes (Test_ReuseConnTransport is flaky on the unchanged tree too)",
        "demo_with_change": "fails", "demo_without_change": "passes",
        "command": f"driver/seedcheck.sh {sid} {prop}  (fresh worktree of /repo HEAD, git apply patch.diff, go build ./..., go test ./..., demo with/without, VERIF_REPO=<worktree> ./check {prop})",
    },
    "check_result": {"quick_check_exit": 1 if "VIOLATION" in log else 0, "caught_by_tests": caught},
}
json.dump(meta, open(f"{dst}/meta.json", "w"), indent=1)
print(dst, meta["check_result"])
