#!/bin/bash
# ad hoc: driver/gotest.sh <pkg> [go test flags / test binary flags...]   (development helper, not used by checks)
export GOFLAGS=-mod=mod GOPROXY=off GOSUMDB=off GOTOOLCHAIN=local
D=/verif/.work/dev; mkdir -p $D
R=${GOTEST_REPO:-/repo}; cp $R/go.mod $D/work.mod; cp $R/go.sum $D/work.sum
go mod edit -require=pgregory.net/rapid@v1.3.0 -require=vfkit@v0.0.0 -replace=vfkit=/verif/harness/kit $D/work.mod
python3 - <<PY
import os,json
repl={}
base='/verif/harness/pkg'
for root,_,files in os.walk(base):
    rel=os.path.relpath(root,base)
    for fn in files:
        if fn.endswith('.go'): repl[os.path.join(os.environ.get("GOTEST_REPO","/repo"),rel,fn)]=os.path.join(root,fn)
json.dump({'Replace':repl},open('$D/overlay.json','w'))
PY
PKG=$1; shift
cd $R && go test -c -o $D/dev.bin -modfile=$D/work.mod -overlay=$D/overlay.json -vet=off -tags verif $GOTEST_BUILD ./$PKG || exit 2
mkdir -p $D/run && cd $D/run && rm -rf testdata && $D/dev.bin "$@"
