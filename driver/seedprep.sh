#!/bin/bash
# driver/seedprep.sh <ID> <prop> : prepare a scratch worktree /tmp/seed/<ID> of /repo HEAD, /tmp/seed-out/<ID>/ and the
# property text /tmp/seed-out/<prop>.prop.txt (all a seeding sub-agent gets).
set -eu
ID=$1; PROP=${2:-$1}
mkdir -p /tmp/seed /tmp/seed-out/$ID
git -C /repo worktree prune
[ -d /tmp/seed/$ID ] || git -C /repo worktree add -q --detach /tmp/seed/$ID HEAD
python3 - "$PROP" <<'PY'
import json, sys
for l in open('/verif/properties.jsonl'):
    d = json.loads(l)
    if d['id'] == sys.argv[1]:
        t = f"{d['id']} - {d['title']}\n\nStatement: {d['statement']}\n\nQuantified over: {d['quantifier']}\n\nWhy the unit tests cannot settle it: {d['why_tests_cant']}\n\nAnchored in: {json.dumps(d['anchors'])}\n"
        open(f"/tmp/seed-out/{d['id']}.prop.txt", 'w').write(t)
PY
echo "prepared /tmp/seed/$ID for $PROP"
