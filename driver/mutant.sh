#!/bin/bash
# driver/mutant.sh <name> <check-id> <file> <python-expr-on-s>   : sensitivity experiment on a scratch worktree
# Creates /tmp/vf-mut/<name> (git worktree of /repo HEAD), applies the edit, runs the quick check, removes the worktree.
set -u
NAME=$1; CID=$2; FILE=$3; EDIT=$4
D=/tmp/vf-mut/$NAME
rm -rf $D; git -C /repo worktree prune; git -C /repo worktree add -q --detach $D HEAD || exit 2
python3 - "$D/$FILE" "$EDIT" <<'PY'
import sys
p, edit = sys.argv[1], sys.argv[2]
s = open(p).read()
old = s
exec(edit)
if s == old:
    print("MUTANT DID NOT CHANGE THE FILE"); sys.exit(3)
open(p, 'w').write(s)
PY
rc=$?
if [ $rc -ne 0 ]; then git -C /repo worktree remove --force $D; exit 2; fi
(cd $D && go build ./... ) || { echo "MUTANT DOES NOT COMPILE"; git -C /repo worktree remove --force $D; exit 2; }
VERIF_REPO=$D /verif/check $CID ${5:-} ${6:-} 2>&1 | grep -E "VIOLATION|exit [0-9]|INCONCLUSIVE" | cut -c1-300 | head -5
git -C /repo worktree remove --force $D
