#!/bin/bash
# driver/seedaudit.sh [pattern] : re-run the quick check of its property against every archived seeded change
# (seeded/<name>/patch.diff applied to a scratch worktree of /repo HEAD) and print one line per seed.
# A seed counts as caught only if a VIOLATION is reported that is not rapid's "flaky test, can not reproduce".
cd "$(dirname "$0")/.."
PAT=${1:-.}
for d in seeded/*/; do
  name=$(basename $d)
  echo "$name" | grep -Eq "$PAT" || continue
  prop=$(python3 -c "import json;print(json.load(open('$d/meta.json'))['property'])")
  was=$(python3 -c "import json;print(json.load(open('$d/meta.json'))['check_result']['quick_check_exit'])")
  W=/tmp/vf-mut/audit-$$-$name
  git -C /repo worktree prune
  git -C /repo worktree add -q --detach $W HEAD || { echo "AUDIT $name worktree-failed"; continue; }
  if ! (cd $W && git apply $OLDPWD/$d/patch.diff 2>/dev/null); then
    echo "AUDIT $name prop=$prop was=$was now=patch-does-not-apply"
    git -C /repo worktree remove --force $W; continue
  fi
  if ! (cd $W && go build ./... >/dev/null 2>&1); then
    echo "AUDIT $name prop=$prop was=$was now=does-not-build"
    git -C /repo worktree remove --force $W; continue
  fi
  log=/tmp/vf-mut/audit-$name.log
  VERIF_REPO=$W ./check $prop > $log 2>&1; rc=$?
  tests=$(grep -o "replays/[A-Z0-9]*/[A-Za-z0-9_]*/" $log | cut -d/ -f3 | sort -u | tr '\n' ',')
  flaky=0; solid=0
  for r in $(grep -o "replay=[^ ]*" $log | cut -d= -f2 | sort -u); do
    l=$(echo $r | sed -E 's/-Test[A-Za-z0-9_]*-[0-9]+-[0-9]+\.fail$/.log/')
    if [ -f "$l" ] && grep -q "flaky test, can not reproduce" "$l"; then flaky=$((flaky+1)); else solid=$((solid+1)); fi
  done
  echo "AUDIT $name prop=$prop was=$was now=$rc tests=$tests solid=$solid flaky=$flaky"
  git -C /repo worktree remove --force $W
done
