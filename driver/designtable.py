#!/usr/bin/env python3
"""driver/designtable.py : rewrite the 'tests as built' table of DESIGN.md from driver/checks.py."""
import os, re, sys
sys.path.insert(0, os.path.dirname(os.path.abspath(__file__)))
from checks import CHECKS
rows = ["| id | test | engine | package | quick cases | thorough cases |", "|---|---|---|---|---|---|"]
for cid in sorted(CHECKS):
    for part in CHECKS[cid]["parts"]:
        eng = part["engine"]
        if eng == "P":
            label, pkg = ("P -race" if part.get("race") else "P"), part["pkg"]
        elif eng == "E":
            label, pkg = ("E race-built proxy" if "race" in part.get("proxy", []) else "E"), "harness/e2e"
        else:
            label, pkg = "F", part.get("pkg", "")
        for t in part["tests"]:
            rows.append(f"| {cid} | {t['run']} | {label} | {pkg} | {t['quick']} | {t['thorough']} |")
path = os.path.join(os.path.dirname(os.path.abspath(__file__)), "..", "DESIGN.md")
s = open(path).read()
m = re.search(r"\| id \| test \| engine \| package \| quick cases \| thorough cases \|\n(?:\|.*\n)+", s)
s = s[:m.start()] + "\n".join(rows) + "\n" + s[m.end():]
open(path, "w").write(s)
print(len(rows) - 2, "tests")
