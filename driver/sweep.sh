#!/bin/bash
# driver/sweep.sh <tier> <seeds...> : run every check at several seeds, print one line per run (robustness sweep).
TIER=$1; shift
for s in "$@"; do
  for c in C01 C02 C03 C04 C05 C06 C07 C08 C09 C10 C11 C12 C13 C14 C15 C16 C17 C18 C19 C20; do
    t0=$(date +%s)
    VERIF_SEED=$s ./check $c --tier $TIER > sweep-$c-$s.log 2>&1; rc=$?
    echo "seed=$s $c rc=$rc $(( $(date +%s) - t0 ))s $(grep -c VIOLATION sweep-$c-$s.log) violations"
    if [ $rc -ne 0 ]; then grep -E "VIOLATION|INCONCLUSIVE|verdict=(violation|inconclusive)" sweep-$c-$s.log | head -5; fi
  done
done
