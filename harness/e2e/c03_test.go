package vfe2e

// C03 - every query gets exactly one matching response whatever the upstream does.
// One rapid case is a batch of generated (listener, query, upstream outcome) triples that are all in
// flight together (so the 6 s of a silent upstream are paid once per batch).

import (
	"bytes"
	"crypto/tls"
	"fmt"
	"os"
	"sort"
	"strings"
	"sync"
	"testing"
	"time"

	"pgregory.net/rapid"
	"vfkit"
)

type c03Case struct {
	listener    string
	outcome     string // reply, rcode, garbage, truncgarbage, closer, dead, silence, unrouted, noaction
	rcode       uint16 // for rcode outcome
	query       []byte
	model       *vfkit.Msg
	token       int
	unsupported bool
	expectRcode int
	res         *AskResult
	took        time.Duration
	lateFIN     bool // DoQ: the client ends its side of the stream only after it has read the response
}

type c03Env struct {
	proxy   map[bool]*Proxy // cache on/off
	ip      map[bool]string
	scripts sync.Map // token -> *c03Case
	ups     []*FakeUpstream
}

func c03Handler(env *c03Env) Handler {
	return func(q *UpQuery) UpAction {
		if q.Msg.Err != nil || len(q.Msg.Q) != 1 {
			return UpAction{}
		}
		tok := -1
		for _, l := range q.Msg.Q[0].Name {
			var n int
			if _, err := fmt.Sscanf(strings.ToLower(string(l)), "t%d", &n); err == nil {
				tok = n
			}
		}
		v, ok := env.scripts.Load(tok)
		if !ok {
			return UpAction{}
		}
		c := v.(*c03Case)
		switch c.outcome {
		case "reply":
			return UpAction{Reply: EncodeMsg(KeyedAnswer(q.Msg, "c03", uint32(tok), 60, 0))}
		case "rcode":
			m := KeyedAnswer(q.Msg, "c03", uint32(tok), 60, c.rcode)
			if c.rcode != 0 {
				m.An = nil
			}
			return UpAction{Reply: EncodeMsg(m)}
		case "garbage":
			g := append([]byte{q.Raw[0], q.Raw[1]}, []byte{0x81, 0x80, 0xff, 0xff, 0xff, 0xff, 0, 0, 0, 0, 0xc0, 0x0c}...)
			return UpAction{Reply: g}
		case "truncgarbage":
			r := EncodeMsg(KeyedAnswer(q.Msg, "c03", uint32(tok), 60, 0))
			return UpAction{Reply: r[:len(r)-3]}
		case "closer":
			return UpAction{CloseBefore: true}
		case "wrongq":
			// a well-formed reply with the right ID - to another question (a confused or hostile upstream)
			m := KeyedAnswer(q.Msg, "c03", uint32(tok), 60, 0)
			other := append(vfkit.Name{[]byte("not-what-you-asked")}, q.Msg.Q[0].Name...)
			m.Q[0].Name = other
			for i := range m.An {
				m.An[i].Owner = other
			}
			return UpAction{Reply: EncodeMsg(m)}
		case "oddhdr":
			// the right answer under a header that does not mirror the forwarded query: RD cleared, another opcode, AA/AD set
			m := KeyedAnswer(q.Msg, "c03", uint32(tok), 60, 0)
			m.Bits &^= vfkit.BitRD
			m.Bits |= vfkit.BitAA | vfkit.BitAD
			if tok%2 == 0 {
				m.Bits |= uint16(2+tok%3) << 11
			}
			return UpAction{Reply: EncodeMsg(m)}
		case "noq":
			m := KeyedAnswer(q.Msg, "c03", uint32(tok), 60, 0)
			m.Q = nil
			return UpAction{Reply: EncodeMsg(m)}
		}
		return UpAction{} // silence
	}
}

var c03Suffix = map[string][]string{
	"reply": {"ok", "test"}, "rcode": {"ok", "test"}, "garbage": {"ok", "test"}, "silence": {"ok", "test"}, "wrongq": {"ok", "test"}, "noq": {"ok", "test"}, "oddhdr": {"ok", "test"},
	"truncgarbage": {"tcpup", "test"}, "closer": {"tcpup", "test"}, "dead": {"dead", "test"},
	"unrouted": {"nowhere", "example"}, "noaction": {"noaction", "test"},
}

func c03Setup(t *testing.T) *c03Env {
	env := &c03Env{proxy: map[bool]*Proxy{}, ip: map[bool]string{}}
	block := NextIPBlock()
	upUDP, err := StartUpstream("udp", "udp", block+"2", 0, nil, c03Handler(env))
	if err != nil {
		t.Fatal(err)
	}
	upTCP, err := StartUpstream("tcp", "tcp", block+"3", 0, nil, c03Handler(env))
	if err != nil {
		t.Fatal(err)
	}
	env.ups = []*FakeUpstream{upUDP, upTCP}
	files := map[string]string{"ok.txt": "domain:ok.test\n", "tcpup.txt": "tcpup.test\n", "dead.txt": "full:never.used\ndomain:dead.test\n", "noaction.txt": "domain:noaction.test\n"}
	for i, cacheOn := range []bool{false, true} {
		pip := block + itoa(10+i)
		cfg := &Config{Servers: StdServers(pip, AllListenerKinds, ""),
			Upstreams:  []UpstreamCfg{{Tag: "udp", Addr: upUDP.Addr()}, {Tag: "tcp", Addr: upTCP.Addr()}, {Tag: "dead", Addr: "tcp://" + block + "4:9"}},
			DomainSets: []DomainSet{{Tag: "ok", Files: []string{"$DIR/ok.txt"}}, {Tag: "tcpup", Files: []string{"$DIR/tcpup.txt"}}, {Tag: "dead", Files: []string{"$DIR/dead.txt"}}, {Tag: "noaction", Files: []string{"$DIR/noaction.txt"}}},
			Rules:      []Rule{{Domain: "ok", Forward: "udp"}, {Domain: "tcpup", Forward: "tcp"}, {Domain: "dead", Forward: "dead"}, {Domain: "noaction"}},
		}
		if cacheOn {
			cfg.Cache = &CacheCfg{MemSize: 4 << 20}
		}
		p, err := StartProxy(cfg.YAML(), files, ProxyOpts{})
		if err != nil {
			// log level error hides the readiness line: fall back to probing
			t.Fatal(err)
		}
		env.proxy[cacheOn], env.ip[cacheOn] = p, pip
	}
	return env
}

func c03GenQuery(t *rapid.T, tok int, outcome string) (*vfkit.Msg, bool) {
	pool := vfkit.GenLabelPool(t, 3)
	var name vfkit.Name
	for i := rapid.IntRange(0, 2).Draw(t, "extraLabels"); i > 0; i-- {
		l := pool[rapid.IntRange(0, len(pool)-1).Draw(t, "l")]
		if len(l) > 40 {
			l = l[:40]
		}
		name = append(name, l)
	}
	if rapid.IntRange(0, 9).Draw(t, "longName") == 0 {
		for name.WireLen() < 200 {
			name = append(vfkit.Name{[]byte("padpadpadpadpadpadpadpadpadpadpadpadpadpadpadpadpad")}, name...)
		}
	}
	tl := []byte(fmt.Sprintf("t%d", tok))
	name = append(name, tl)
	for _, s := range c03Suffix[outcome] {
		name = append(name, []byte(s))
	}
	for name.WireLen() > 255 {
		name = name[1:]
	}
	// mixed case
	mask := rapid.Uint64().Draw(t, "caseMask")
	k := uint(0)
	nn := make(vfkit.Name, len(name))
	for i, l := range name {
		c := append([]byte(nil), l...)
		for j := range c {
			if 'a' <= c[j] && c[j] <= 'z' && mask&(1<<(k%64)) != 0 {
				c[j] -= 32
			}
			k++
		}
		nn[i] = c
	}
	m := &vfkit.Msg{ID: 0, Bits: vfkit.BitRD}
	unsupported := false
	switch rapid.IntRange(0, 9).Draw(t, "shape") {
	case 7: // RD=0
		m.Bits &^= vfkit.BitRD
		unsupported = true
	case 8: // other opcode
		m.Bits |= uint16(rapid.IntRange(1, 15).Draw(t, "opcode")) << 11
		unsupported = true
	case 9: // question count != 1
		unsupported = true
		if rapid.Bool().Draw(t, "zeroQ") {
			nn = nil
		}
	}
	// arbitrary other header bits (not QR): AA TC RA Z AD CD rcode
	m.Bits |= rapid.Uint16().Draw(t, "otherBits") & (vfkit.BitAA | vfkit.BitTC | vfkit.BitRA | vfkit.BitAD | vfkit.BitCD | 0xF)
	qt := rapid.SampledFrom([]uint16{1, 28, 15, 16, 255, 65280, 6, 41}).Draw(t, "qtype")
	qc := vfkit.GenClass(t)
	if nn != nil {
		m.Q = []vfkit.Question{{Name: nn, Type: qt, Class: qc}}
		if unsupported && m.Bits&vfkit.BitRD != 0 && m.Opcode() == 0 {
			// question count 2 or 3
			for i := rapid.IntRange(1, 2).Draw(t, "moreQ"); i > 0; i-- {
				m.Q = append(m.Q, vfkit.Question{Name: vfkit.Name{[]byte("second"), []byte("question")}, Type: 1, Class: 1})
			}
		}
	}
	names := vfkit.NameSet{nn, {[]byte("x"), []byte("y")}}
	if rapid.IntRange(0, 3).Draw(t, "extraRecords") == 0 {
		for s := 0; s < 3; s++ {
			for i := rapid.IntRange(0, 2).Draw(t, "n"); i > 0; i-- {
				r := vfkit.GenRR(t, names)
				switch s {
				case 0:
					m.An = append(m.An, r)
				case 1:
					m.Ns = append(m.Ns, r)
				default:
					m.Ar = append(m.Ar, r)
				}
			}
		}
	}
	if rapid.Bool().Draw(t, "opt") {
		m.Ar = append(m.Ar, vfkit.GenOPT(t, 2))
	}
	return m, unsupported
}

func TestVfC03(t *testing.T) {
	st := vfkit.Stats("TestVfC03", "batches of (listener kind in 8, decodable QR=0 query with any opcode/flags/0-3 questions/any type+class/mixed-case names up to 255 octets/extra records/OPT, upstream outcome in {reply, error rcode, garbage, truncated frame, accept-then-close, dead port, silence, no rule, rule without action}) against two proxies (cache off/on), all in flight together, one DoQ client in three ending its side of the stream only after the response; with the cache on up to 8 answered questions per batch are then asked again (other ID, inverted letter case, other header bits, OPT toggled, any listener); oracle per query: exactly one response within 8 s with the query's ID/opcode/RD, QR=1, RA=1, <=1 question equal to the first one, rcode per reference (NOTIMP / REFUSED / upstream's / SERVFAIL); non-trivial = outcome other than a plain reply, or unsupported query")
	defer vfkit.Flush()
	env := c03Setup(t)
	defer func() {
		for _, p := range env.proxy {
			p.Cleanup()
		}
		for _, u := range env.ups {
			u.Close()
		}
	}()
	tok := 0
	rapid.Check(t, func(t *rapid.T) {
		cacheOn := rapid.Bool().Draw(t, "cacheOn")
		withSilence := rapid.IntRange(0, 3).Draw(t, "withSilence") == 0
		n := rapid.IntRange(1, 60).Draw(t, "batch")
		outcomes := []string{"reply", "reply", "rcode", "garbage", "truncgarbage", "closer", "dead", "unrouted", "noaction", "wrongq", "noq", "oddhdr"}
		if withSilence {
			outcomes = append(outcomes, "silence", "silence")
		}
		cases := make([]*c03Case, n)
		usedIDs := map[uint16]bool{}
		for i := range cases {
			tok++
			c := &c03Case{token: tok}
			c.listener = rapid.SampledFrom(AllListenerKinds).Draw(t, "listener")
			c.lateFIN = c.listener == "quic" && rapid.IntRange(0, 2).Draw(t, "doqLateFIN") == 0
			c.outcome = rapid.SampledFrom(outcomes).Draw(t, "outcome")
			c.rcode = uint16(rapid.IntRange(0, 15).Draw(t, "upRcode"))
			c.model, c.unsupported = c03GenQuery(t, tok, c.outcome)
			id := rapid.Uint16().Draw(t, "id")
			for usedIDs[id] {
				id++
			}
			usedIDs[id] = true
			c.model.ID = id
			c.query = EncodeMsg(c.model)
			if len(c.query) > 1200 && c.listener == "udp" {
				c.listener = "tcp"
			}
			switch {
			case c.unsupported:
				c.expectRcode = 4
			case c.outcome == "unrouted" || c.outcome == "noaction":
				c.expectRcode = 5
			case c.outcome == "reply" || c.outcome == "oddhdr":
				c.expectRcode = 0
			case c.outcome == "rcode":
				c.expectRcode = int(c.rcode)
			default:
				c.expectRcode = 2
			}
			env.scripts.Store(tok, c)
			cases[i] = c
		}
		p := env.proxy[cacheOn]
		var wg sync.WaitGroup
		for _, c := range cases {
			wg.Add(1)
			go func(c *c03Case) {
				defer wg.Done()
				a := NewAsker(env.ip[cacheOn], "")
				a.DoQLateFIN = c.lateFIN
				defer a.Close()
				start := time.Now()
				c.res = a.Ask(c.listener, c.query, 9*time.Second, 40*time.Millisecond)
				c.took = time.Since(start)
				if c.listener == "udp" && len(c.res.Resps) == 0 && c.res.Err == nil {
					// possible loopback loss: one solo retry before it counts
					c.res = a.Ask(c.listener, c.query, 9*time.Second, 40*time.Millisecond)
				}
			}(c)
		}
		wg.Wait()
		defer func() {
			for _, c := range cases {
				env.scripts.Delete(c.token)
			}
		}()
		if p.Exited() || p.Crashed() != "" {
			t.Fatalf("proxy died: exit=%v code=%d\n%s", p.Exited(), p.ExitCode, tail(p.Stderr(), 3000))
		}
		for _, c := range cases {
			desc := fmt.Sprintf("listener=%s outcome=%s upRcode=%d unsupported=%v cache=%v query=%s", c.listener, c.outcome, c.rcode, c.unsupported, cacheOn, c.model.String())
			if c.res.Err != nil {
				t.Fatalf("transport error: %v; %s", c.res.Err, desc)
			}
			if len(c.res.Resps) != 1 {
				t.Fatalf("%d responses (status %d, closed %v) after %v, expected exactly one; %s", len(c.res.Resps), c.res.Status, c.res.Closed, c.took, desc)
			}
			if c.took > 8*time.Second+500*time.Millisecond {
				t.Fatalf("response after %v; %s", c.took, desc)
			}
			r := c.res.Resps[0].Msg
			if !r.Clean() {
				t.Fatalf("response is not a well-formed message (%v); %s", r.Err, desc)
			}
			q := c.model
			if r.ID != q.ID || r.Opcode() != q.Opcode() || !r.Has(vfkit.BitQR) || !r.Has(vfkit.BitRA) || r.Has(vfkit.BitRD) != q.Has(vfkit.BitRD) {
				t.Fatalf("response header %04x id %d does not match query header %04x id %d (need same ID/opcode/RD, QR=1, RA=1); %s", r.Bits, r.ID, q.Bits, q.ID, desc)
			}
			if len(r.Q) > 1 {
				t.Fatalf("%d questions in the response; %s", len(r.Q), desc)
			}
			if len(r.Q) == 1 {
				if len(q.Q) == 0 {
					t.Fatalf("response has a question, the query had none; %s", desc)
				}
				if !r.Q[0].Name.EqualFold(q.Q[0].Name) || r.Q[0].Type != q.Q[0].Type || r.Q[0].Class != q.Q[0].Class {
					t.Fatalf("response question %s differs from the query's first question %s; %s", r.Q[0].String(), q.Q[0].String(), desc)
				}
			}
			if (c.outcome == "wrongq" || c.outcome == "noq") && !c.unsupported {
				// what the proxy makes of such a reply is its choice (relay the records under the query's own question, or
				// SERVFAIL) - the header and question oracles above are what matters here
				if r.Rcode() != 0 && r.Rcode() != 2 {
					t.Fatalf("rcode %d after an upstream reply to another question; %s", r.Rcode(), desc)
				}
			} else if r.Rcode() != c.expectRcode {
				t.Fatalf("rcode %d, expected %d; %s", r.Rcode(), c.expectRcode, desc)
			}
			if c.expectRcode == 0 && c.outcome == "reply" && !r.Has(vfkit.BitTC) { // a UDP response may have been truncated to fit (C09)
				rd, _, _, ok := ParseKeyed(r)
				if !ok || string(rd) != string(KeyedRData(q.Q[0].Name, q.Q[0].Type, q.Q[0].Class, "c03")) {
					t.Fatalf("answer is not the upstream's answer to this question; %s", desc)
				}
			}
			nontrivial := c.outcome != "reply" || c.unsupported
			oc := c.outcome
			if c.unsupported {
				oc = "unsupported"
			}
			st.Case(vfkit.Fingerprint(c.query, c.listener, c.outcome), nontrivial, []string{"listener=" + c.listener, "outcome=" + oc}, func() any {
				return map[string]any{"listener": c.listener, "outcome": c.outcome, "unsupported": c.unsupported, "rcode": r.Rcode(), "took_ms": c.took.Milliseconds(), "query": vfkit.Hex(c.query)}
			})
		}
		// Second round (cache on): the questions that were answered are asked again - other ID, the letters' case inverted,
		// other header bits, OPT presence toggled, any listener. Whether the answer now comes from the cache or from the
		// upstream, the response must echo THIS query (ID, opcode, RD, question as sent), not the one that filled the cache.
		if cacheOn {
			again := 0
			for _, c := range cases {
				if again >= 8 {
					break
				}
				if c.outcome != "reply" || c.unsupported || len(c.res.Resps) != 1 || c.res.Resps[0].Msg.Has(vfkit.BitTC) {
					continue
				}
				again++
				q := c.model.Q[0]
				inv := make(vfkit.Name, len(q.Name))
				for i, l := range q.Name {
					b := append([]byte(nil), l...)
					for j := range b {
						switch {
						case 'a' <= b[j] && b[j] <= 'z':
							b[j] -= 32
						case 'A' <= b[j] && b[j] <= 'Z':
							b[j] += 32
						}
					}
					inv[i] = b
				}
				m2 := &vfkit.Msg{ID: c.model.ID ^ 0x5a5a, Bits: vfkit.BitRD | (^c.model.Bits & (vfkit.BitAD | vfkit.BitCD | vfkit.BitAA)), Q: []vfkit.Question{{Name: inv, Type: q.Type, Class: q.Class}}}
				if c.model.Opt() == nil {
					m2.Ar = append(m2.Ar, vfkit.RR{Type: 41, Class: 1232})
				}
				listener := rapid.SampledFrom(AllListenerKinds).Draw(t, "secondListener")
				wire := EncodeMsg(m2)
				if len(wire) > 1200 && listener == "udp" {
					listener = "tcp"
				}
				a := NewAsker(env.ip[cacheOn], "")
				res := a.Ask(listener, wire, 9*time.Second, 40*time.Millisecond)
				if listener == "udp" && len(res.Resps) == 0 && res.Err == nil {
					res = a.Ask(listener, wire, 9*time.Second, 40*time.Millisecond)
				}
				a.Close()
				desc := fmt.Sprintf("second ask (first via %s, now via %s) query=%s first query=%s", c.listener, listener, m2.String(), c.model.String())
				if res.Err != nil || len(res.Resps) != 1 {
					t.Fatalf("%d responses (err %v); %s", len(res.Resps), res.Err, desc)
				}
				r := res.Resps[0].Msg
				if !r.Clean() || r.ID != m2.ID || r.Opcode() != 0 || !r.Has(vfkit.BitQR) || !r.Has(vfkit.BitRA) || !r.Has(vfkit.BitRD) {
					t.Fatalf("response header %04x id %d does not match the second query (id %d, RD=1); %s", r.Bits, r.ID, m2.ID, desc)
				}
				if len(r.Q) != 1 || !r.Q[0].Name.EqualFold(inv) || r.Q[0].Type != q.Type || r.Q[0].Class != q.Class {
					t.Fatalf("response question differs from the second query's question; %s", desc)
				}
				if r.Rcode() != 0 {
					t.Fatalf("rcode %d for a question that was answered a moment ago; %s", r.Rcode(), desc)
				}
				if !r.Has(vfkit.BitTC) {
					rd, _, _, ok := ParseKeyed(r)
					if !ok || string(rd) != string(KeyedRData(q.Name, q.Type, q.Class, "c03")) {
						t.Fatalf("answer is not the answer to this question; %s", desc)
					}
				}
				st.Case(vfkit.Fingerprint(wire, listener, "again"), true, []string{"listener=" + listener, "outcome=asked-again"}, func() any {
					return map[string]any{"listener": listener, "outcome": "asked-again", "query": vfkit.Hex(wire)}
				})
				// and a sibling question - same name, another class or type - which must not be answered with the entry of
				// the first (its response carries its own question and the upstream's answer to it)
				sib := vfkit.Question{Name: inv, Type: q.Type, Class: q.Class}
				if rapid.Bool().Draw(t, "siblingByClass") {
					sib.Class = map[uint16]uint16{1: 3, 3: 1}[q.Class]
					if sib.Class == 0 {
						sib.Class = 1
					}
				} else {
					sib.Type = map[uint16]uint16{1: 28, 28: 1}[q.Type]
					if sib.Type == 0 {
						sib.Type = 1
					}
				}
				if sib.Type != q.Type || sib.Class != q.Class {
					m3 := &vfkit.Msg{ID: c.model.ID ^ 0x3c3c, Bits: vfkit.BitRD, Q: []vfkit.Question{sib}}
					w3 := EncodeMsg(m3)
					l3 := listener
					a3 := NewAsker(env.ip[cacheOn], "")
					res3 := a3.Ask(l3, w3, 9*time.Second, 40*time.Millisecond)
					if l3 == "udp" && len(res3.Resps) == 0 && res3.Err == nil {
						res3 = a3.Ask(l3, w3, 9*time.Second, 40*time.Millisecond)
					}
					a3.Close()
					d3 := fmt.Sprintf("sibling question %s asked via %s after %s was answered", sib.String(), l3, q.String())
					if res3.Err != nil || len(res3.Resps) != 1 {
						t.Fatalf("%d responses (err %v); %s", len(res3.Resps), res3.Err, d3)
					}
					r3 := res3.Resps[0].Msg
					if !r3.Clean() || r3.ID != m3.ID || len(r3.Q) != 1 || !r3.Q[0].Name.EqualFold(inv) || r3.Q[0].Type != sib.Type || r3.Q[0].Class != sib.Class {
						t.Fatalf("the response does not carry the sibling's own ID and question (got id %d question %v); %s", r3.ID, r3.Q, d3)
					}
					if r3.Rcode() == 0 && !r3.Has(vfkit.BitTC) {
						rd, _, _, ok := ParseKeyed(r3)
						if !ok || string(rd) != string(KeyedRData(sib.Name, sib.Type, sib.Class, "c03")) {
							t.Fatalf("the answer is not the upstream's answer to the sibling question; %s", d3)
						}
					}
				}
			}
		}
	})
}

// TestVfC03Pipelined: the same "exactly one response per query" oracle for queries that share one stream connection and
// arrive together, more of them than the listener's per-connection concurrency limit allows in flight. Which of them are
// over the limit is up to the scheduler, so REFUSED is accepted for any query of a batch that exceeds the limit - but
// every query still gets exactly one response with its own ID and question, while the client keeps the connection open.
func TestVfC03Pipelined(t *testing.T) {
	st := vfkit.Stats("TestVfC03Pipelined", "k in 2..30 queries (one in six padded to 2^8..2^13 octets +-2) written with one Write (or in 2-3 chunks) on one tcp / gnet / tls connection to a proxy with max_concurrent_queries in {1,2,4}, upstream replies delayed 0-400 ms, some upstreams silent or closing; oracle: exactly one response per query ID within 8 s, own question echoed, rcode = the expected one or REFUSED when k exceeds the limit; non-trivial = k > limit")
	defer vfkit.Flush()
	block := NextIPBlock()
	var delays sync.Map // first label -> script
	type script struct {
		delay   time.Duration
		outcome string
	}
	up, err := StartUpstream("udp", "up", block+"2", 0, nil, func(q *UpQuery) UpAction {
		if q.Msg.Err != nil || len(q.Msg.Q) != 1 {
			return UpAction{}
		}
		v, ok := delays.Load(strings.ToLower(string(q.Msg.Q[0].Name[0])))
		if !ok {
			return UpAction{}
		}
		sc := v.(script)
		switch sc.outcome {
		case "silence":
			return UpAction{}
		case "servfail":
			return UpAction{Reply: EncodeMsg(KeyedAnswer(q.Msg, "c03p", 0, 60, 2)), Delay: sc.delay}
		}
		return UpAction{Reply: EncodeMsg(KeyedAnswer(q.Msg, "c03p", 0, 60, 0)), Delay: sc.delay}
	})
	if err != nil {
		t.Fatal(err)
	}
	defer up.Close()
	proxies := map[int]*Proxy{}
	ips := map[int]string{}
	for i, mc := range []int{1, 2, 4} {
		pip := block + itoa(10+i)
		cfg := &Config{Servers: StdServers(pip, []string{"tcp", "gnet", "tls"}, ""), Upstreams: []UpstreamCfg{{Tag: "up", Addr: up.Addr()}}, Rules: []Rule{{Forward: "up"}}}
		for j := range cfg.Servers {
			cfg.Servers[j].Tcp = &TcpCfg{MaxConcurrentQueries: mc}
		}
		p, err := StartProxy(cfg.YAML(), nil, ProxyOpts{})
		if err != nil {
			t.Fatal(err)
		}
		defer p.Cleanup()
		proxies[mc], ips[mc] = p, pip
	}
	caseNo := 0
	rapid.Check(t, func(t *rapid.T) {
		caseNo++
		listener := rapid.SampledFrom([]string{"tcp", "gnet", "tls"}).Draw(t, "listener")
		mc := rapid.SampledFrom([]int{1, 2, 4}).Draw(t, "maxConcurrent")
		k := rapid.IntRange(2, 30).Draw(t, "k")
		withSilence := rapid.IntRange(0, 4).Draw(t, "withSilence") == 0
		type qi struct {
			id      uint16
			name    vfkit.Name
			outcome string
		}
		qs := make([]qi, k)
		var stream []byte
		var bounds []int
		for i := range qs {
			label := fmt.Sprintf("p%dq%dx%d", caseNo, i, os.Getpid())
			oc := rapid.SampledFrom([]string{"reply", "reply", "reply", "servfail"}).Draw(t, "outcome")
			if withSilence && rapid.IntRange(0, 5).Draw(t, "silent") == 0 {
				oc = "silence"
			}
			delays.Store(label, script{delay: time.Duration(rapid.SampledFrom([]int{0, 5, 50, 400}).Draw(t, "delayMs")) * time.Millisecond, outcome: oc})
			defer delays.Delete(label)
			name := vfkit.Name{[]byte(label), []byte("c03p"), []byte("test")}
			qs[i] = qi{id: uint16(caseNo*64 + i), name: name, outcome: oc}
			bounds = append(bounds, len(stream))
			qw := Query(qs[i].id, name, 1, 1, false)
			if rapid.IntRange(0, 5).Draw(t, "edgeSized") == 0 {
				// a query padded (one opaque additional record) to a power of two or an octet or two next to it
				target := 1<<rapid.IntRange(8, 13).Draw(t, "log2") + rapid.IntRange(-2, 2).Draw(t, "offBy")
				if pad := target - len(qw) - 11; pad >= 0 {
					m := &vfkit.Msg{ID: qs[i].id, Bits: vfkit.BitRD, Q: []vfkit.Question{{Name: name, Type: 1, Class: 1}},
						Ar: []vfkit.RR{{Type: 65280, Class: 1, RData: []vfkit.RDPart{{Raw: bytes.Repeat([]byte{6}, pad)}}}}}
					qw = EncodeMsg(m)
				}
			}
			stream = append(stream, frame(qw)...)
		}
		var cuts []int
		for i := rapid.IntRange(0, 2).Draw(t, "chunks"); i > 0; i-- {
			cuts = append(cuts, bounds[rapid.IntRange(0, len(bounds)-1).Draw(t, "cutAtFrame")])
		}
		sort.Ints(cuts)
		var tcfg *tls.Config
		if listener == "tls" {
			tcfg = &tls.Config{InsecureSkipVerify: true}
		}
		c, err := DialStream("", fmt.Sprintf("%s:%d", ips[mc], ListenerPorts[listener]), tcfg, 3*time.Second)
		if err != nil {
			t.Fatalf("dial %s: %v", listener, err)
		}
		defer c.Close()
		start := time.Now()
		if err := c.WriteSegments(stream, cuts, time.Millisecond); err != nil {
			t.Fatalf("write: %v", err)
		}
		frames, rest, closed := c.ReadFrames(k, 8500*time.Millisecond)
		took := time.Since(start)
		desc := fmt.Sprintf("listener=%s max_concurrent=%d k=%d chunks at %v", listener, mc, k, cuts)
		if len(frames) != k {
			answered := map[uint16]bool{}
			for _, f := range frames {
				answered[f.Msg.ID] = true
			}
			var missing []string
			for _, q := range qs {
				if !answered[q.id] {
					missing = append(missing, fmt.Sprintf("%d(%s)", q.id, q.outcome))
				}
			}
			t.Fatalf("%d responses for %d pipelined queries after %v (connection closed by the proxy: %v, stray octets %d); unanswered: %v; %s\n%s", len(frames), k, took.Round(time.Millisecond), closed, len(rest), missing, desc, tail(proxies[mc].Stderr(), 600))
		}
		byID := map[uint16]qi{}
		for _, q := range qs {
			byID[q.id] = q
		}
		seen := map[uint16]bool{}
		for _, f := range frames {
			q, ok := byID[f.Msg.ID]
			if !f.Msg.Clean() || !ok || seen[f.Msg.ID] {
				t.Fatalf("response %s is malformed, unasked or a duplicate; %s", f.Msg.Msg.String(), desc)
			}
			seen[f.Msg.ID] = true
			if len(f.Msg.Q) != 1 || !f.Msg.Q[0].Name.EqualFold(q.name) || !f.Msg.Has(vfkit.BitQR) || !f.Msg.Has(vfkit.BitRA) || !f.Msg.Has(vfkit.BitRD) {
				t.Fatalf("response to ID %d does not echo its query (question/QR/RA/RD); %s", q.id, desc)
			}
			want := map[string]int{"reply": 0, "servfail": 2, "silence": 2}[q.outcome]
			if rc := f.Msg.Rcode(); rc != want && !(rc == 5 && k > mc) {
				t.Fatalf("ID %d (%s): rcode %d, expected %d (or REFUSED only when k exceeds the limit); %s", q.id, q.outcome, rc, want, desc)
			}
		}
		if cr := proxies[mc].Crashed(); cr != "" {
			t.Fatalf("proxy crashed: %s", cr)
		}
		st.Case(vfkit.Fingerprint(stream, listener, mc), k > mc, []string{"listener=" + listener, fmt.Sprintf("limit=%d", mc)}, func() any {
			return map[string]any{"listener": listener, "k": k, "max_concurrent": mc, "took_ms": took.Milliseconds()}
		})
	})
}
