package vfe2e

// C15 (listener level) - a flooding client subnet is limited, other subnets are not affected,
// refused queries get REFUSED / 503 and are not forwarded, connection costs are charged to the client.

import (
	"crypto/tls"
	"fmt"
	"os"
	"sync"
	"sync/atomic"
	"testing"
	"time"

	"pgregory.net/rapid"
	"vfkit"
)

var c15Seq atomic.Uint32

func TestVfC15Listeners(t *testing.T) {
	st := vfkit.Stats("TestVfC15Listeners", "scenarios: a flooding client subnet (UDP queries / 90 pipelined queries on one tcp, tls or gnet connection (max_concurrent_queries 40) followed, a refill later, by sequential queries on that same connection / TCP, TLS or QUIC connection storms / HTTP requests with a client-address header incl. IPv6 /48s) next to a slow client of another subnet that stays within its own budget and a client in the listener's own /24; limiter {limit 50/s, burst 50, masks omitted}, with and without a (never exhausted) global limit; oracles: the slow and the bystander clients are never refused, admitted queries of the flooding subnet <= burst + rate x window, refused UDP/TCP queries get REFUSED with their ID, HTTP 503, and never reach the upstream; non-trivial = the flood was actually refused at least once")
	defer vfkit.Flush()
	block := NextIPBlock()
	up, err := StartUpstream("udp", "up", block+"2", 0, nil, func(q *UpQuery) UpAction {
		return UpAction{Reply: EncodeMsg(KeyedAnswer(q.Msg, "c15", uint32(q.Seq), 1, 0))}
	})
	if err != nil {
		t.Fatal(err)
	}
	defer up.Close()
	const limit, burst = 50, 50
	// two proxies: without a global limit, and with one that is never exhausted here (1e6/s) - the presence of the shared
	// limiter must not change any per-client decision
	var pips [2]string
	var ps [2]*Proxy
	for i, global := range []int{0, 1000000} {
		pips[i] = block + itoa(10+i)
		cfg := &Config{Servers: StdServers(pips[i], []string{"udp", "tcp", "gnet", "tls", "http", "quic"}, "X-Real-IP"), Upstreams: []UpstreamCfg{{Tag: "up", Addr: up.Addr()}}, Rules: []Rule{{Forward: "up"}},
			Limiter: &LimiterCfg{GlobalLimit: global, Client: &ClientLimiterCfg{Limit: limit, Burst: burst}}}
		for j := range cfg.Servers {
			switch cfg.Servers[j].Protocol {
			case "tcp", "tls", "gnet":
				cfg.Servers[j].Tcp = &TcpCfg{MaxConcurrentQueries: 40}
			}
		}
		px, err := StartProxy(cfg.YAML(), nil, ProxyOpts{})
		if err != nil {
			t.Fatal(err)
		}
		defer px.Cleanup()
		ps[i] = px
	}
	insecure := &tls.Config{InsecureSkipVerify: true}
	var lastOwnSubnetUse time.Time
	rapid.Check(t, func(t *rapid.T) {
		n := c15Seq.Add(1)
		pid := uint32(os.Getpid())
		withGlobal := rapid.IntRange(0, 1).Draw(t, "withGlobalLimit")
		pip, p := pips[withGlobal], ps[withGlobal]
		// fresh subnets for this case
		subA := fmt.Sprintf("127.%d.%d.", 30+(n/250)%20, n%250)
		subB := fmt.Sprintf("127.%d.%d.", 50+(n/250)%10, n%250)
		kind := rapid.SampledFrom([]string{"udp", "tcp-queries", "tls-queries", "gnet-queries", "tcp-conns", "gnet-conns", "tls-conns", "quic-conns", "http-conns", "http-v4", "http-v6"}).Draw(t, "flood")
		hostA := rapid.IntRange(1, 120).Draw(t, "hostA")
		label := fmt.Sprintf("c%dp%d", n, pid)
		mkName := func(who string, i int) vfkit.Name {
			return vfkit.Name{[]byte(fmt.Sprintf("%s%d", who, i)), []byte(label), []byte("test")}
		}
		var slowRefused, byRefused atomic.Int32
		var wg sync.WaitGroup
		// slow client of subnet B: 3 UDP queries, total cost 12 < burst
		wg.Add(1)
		go func() {
			defer wg.Done()
			a := NewAsker(pip, subB+"7")
			defer a.Close()
			for i := 0; i < 3; i++ {
				res := a.Ask("udp", Query(uint16(100+i), mkName("slow", i), 1, 1, false), 2*time.Second, 0)
				if len(res.Resps) == 1 && res.Resps[0].Msg.Rcode() == 5 {
					slowRefused.Add(1)
				}
				time.Sleep(100 * time.Millisecond)
			}
		}()
		// the flood
		start := time.Now()
		admitted, refused, other := 0, 0, 0
		costPerAdmitted := 1 // what one admitted query of the flood costs at least (connection costs are counted where every query has its own connection)
		var refusedNames []vfkit.Name
		N := 3 * burst
		switch kind {
		case "udp":
			c, err := NewUDPClient(subA+itoa(hostA), fmt.Sprintf("%s:%d", pip, ListenerPorts["udp"]))
			if err != nil {
				t.Fatalf("udp client: %v", err)
			}
			for i := 0; i < N; i++ {
				// different hosts of the same /24 share the bucket
				c.Send(Query(uint16(1000+i), mkName("flood", i), 1, 1, false))
			}
			deadline := time.Now().Add(1500 * time.Millisecond)
			for c.Count() < N && time.Now().Before(deadline) {
				time.Sleep(5 * time.Millisecond)
			}
			for _, r := range c.All() {
				switch {
				case r.Msg.Err != nil:
					other++
				case r.Msg.Rcode() == 5:
					refused++
					if r.Msg.ID < 1000 || int(r.Msg.ID) >= 1000+N {
						t.Fatalf("REFUSED response carries ID %d that was not sent", r.Msg.ID)
					}
					refusedNames = append(refusedNames, mkName("flood", int(r.Msg.ID)-1000))
				case r.Msg.Rcode() == 0:
					admitted++
				default:
					other++
				}
			}
			c.Close()
		case "tcp-queries", "tls-queries", "gnet-queries":
			lk := map[string]string{"tcp-queries": "tcp", "tls-queries": "tls", "gnet-queries": "gnet"}[kind]
			var tc *tls.Config
			if lk == "tls" {
				tc = insecure
			}
			c, err := DialStream(subA+itoa(hostA), fmt.Sprintf("%s:%d", pip, ListenerPorts[lk]), tc, 2*time.Second)
			if err != nil {
				t.Fatalf("dial: %v", err)
			}
			var stream []byte
			N = 90
			for i := 0; i < N; i++ {
				stream = append(stream, frame(Query(uint16(1000+i), mkName("flood", i), 1, 1, false))...)
			}
			c.C.Write(stream)
			frames, _, _ := c.ReadFrames(N, 2*time.Second)
			if len(frames) == N {
				// The same connection once the bucket has refilled (50/s: full again after a second): the client is within
				// its budget and nothing is in flight, so it is served - being refused earlier must leave nothing behind.
				time.Sleep(1300 * time.Millisecond)
				for i := 0; i < 4; i++ {
					c.C.Write(frame(Query(uint16(3000+i), mkName("later", i), 1, 1, false)))
					fr, _, closed := c.ReadFrames(1, 2*time.Second)
					if len(fr) != 1 || fr[0].Msg.ID != uint16(3000+i) || fr[0].Msg.Rcode() != 0 {
						rc := -1
						if len(fr) == 1 {
							rc = fr[0].Msg.Rcode()
						}
						t.Fatalf("%s: 1.3 s after a refused flood on this connection (bucket refilled, nothing in flight) query %d on the same connection got rcode %d (responses %d, closed %v): the earlier refusals left the connection or the bucket in debt", lk, i, rc, len(fr), closed)
					}
				}
			}
			c.Close()
			for _, f := range frames {
				switch f.Msg.Rcode() {
				case 5:
					refused++
					refusedNames = append(refusedNames, mkName("flood", int(f.Msg.ID)-1000))
				case 0:
					admitted++
				default:
					other++
				}
			}
			if len(frames) != N {
				t.Fatalf("%d responses for %d pipelined queries on a rate limited connection (refused queries must be answered REFUSED)", len(frames), N)
			}
		case "tcp-conns", "gnet-conns", "tls-conns":
			lk := map[string]string{"tcp-conns": "tcp", "gnet-conns": "gnet", "tls-conns": "tls"}[kind]
			var tc *tls.Config
			if lk == "tls" {
				tc = insecure
			}
			N = 40
			for i := 0; i < N; i++ {
				c, err := DialStream(subA+itoa(1+(hostA+i)%250), fmt.Sprintf("%s:%d", pip, ListenerPorts[lk]), tc, time.Second)
				if err != nil {
					refused++
					continue
				}
				c.C.Write(frame(Query(uint16(1000+i), mkName("flood", i), 1, 1, false)))
				fr, _, _ := c.ReadFrames(1, 300*time.Millisecond)
				c.Close()
				if len(fr) == 1 && fr[0].Msg.Rcode() == 0 {
					admitted++
				} else {
					refused++
					refusedNames = append(refusedNames, mkName("flood", i))
				}
			}
		case "quic-conns":
			// A storm of QUIC connections from subnet A for ~400 ms; meanwhile a client in the listener's own
			// /24 opens two TLS connections (cost 2 x (15+2+3) = 40 <= burst) - its bucket must be untouched.
			if d := time.Until(lastOwnSubnetUse.Add(1200 * time.Millisecond)); d > 0 {
				time.Sleep(d) // let the own-subnet bucket refill completely (50/s) from earlier cases
			}
			stop := time.Now().Add(400 * time.Millisecond)
			var fwg sync.WaitGroup
			var mu sync.Mutex
			for w := 0; w < 3; w++ {
				fwg.Add(1)
				go func(w int) {
					defer fwg.Done()
					for i := 0; time.Now().Before(stop); i++ {
						c, err := DialDoQ(subA+itoa(1+(hostA+i+40*w)%250), fmt.Sprintf("%s:%d", pip, ListenerPorts["quic"]), insecure, time.Second)
						if err != nil {
							mu.Lock()
							refused++
							mu.Unlock()
							continue
						}
						data, _, err := c.Exchange(frame(Query(uint16(1000+i), mkName(fmt.Sprintf("flood%d-", w), i), 1, 1, false)), true, 300*time.Millisecond)
						c.Close()
						mu.Lock()
						if err == nil && len(data) > 2 && vfkit.Decode(data[2:]).Rcode() == 0 {
							admitted++
						} else {
							refused++
						}
						mu.Unlock()
					}
				}(w)
			}
			time.Sleep(120 * time.Millisecond)
			for i := 0; i < 2; i++ {
				c, err := DialStream(block+"202", fmt.Sprintf("%s:%d", pip, ListenerPorts["tls"]), insecure, time.Second)
				ok := false
				if err == nil {
					c.C.Write(frame(Query(uint16(50+i), mkName("own", i), 1, 1, false)))
					fr, _, _ := c.ReadFrames(1, 500*time.Millisecond)
					ok = len(fr) == 1 && fr[0].Msg.Rcode() == 0
					c.Close()
				}
				if !ok {
					byRefused.Add(1)
				}
				time.Sleep(60 * time.Millisecond)
			}
			fwg.Wait()
			lastOwnSubnetUse = time.Now()
		case "http-conns":
			// a fresh connection per request: the connection (3) is charged to the peer's subnet, the query (2) to the
			// subnet named in the header - here the same one
			N = 40
			costPerAdmitted = 5
			for i := 0; i < N; i++ {
				src := subA + itoa(1+(hostA+i)%250)
				c := NewDoHClient("http", src, fmt.Sprintf("%s:%d", pip, ListenerPorts["http"]), nil)
				// the header names the peer itself (a listener with client_addr_header takes the client from the header only;
				// without the header the client counts as unknown and is not limited per query)
				r, err := c.Do("POST", Query(uint16(1000+i), mkName("flood", i), 1, 1, false), map[string]string{"X-Real-IP": src})
				c.Close()
				switch {
				case err != nil || r.Status == 503:
					refused++
				case r.Status == 200 && r.Msg.Rcode() == 0:
					admitted++
				default:
					other++
				}
			}
		case "http-v4", "http-v6":
			a := NewAsker(pip, "")
			N = 70
			for i := 0; i < N; i++ {
				addr := fmt.Sprintf("198.51.%d.%d", n%250, 1+i%250) // one /24
				if kind == "http-v6" {
					addr = fmt.Sprintf("2001:db8:%x:%x::%x", n%65000, i%7, i+1) // one /48, several /64s
				}
				a.Header = map[string]string{"X-Real-IP": addr}
				res := a.Ask("http", Query(uint16(1000+i), mkName("flood", i), 1, 1, false), 2*time.Second, 0)
				if i%20 == 19 {
					// a second client behind the same HTTP peer, identified by the header, in another subnet and
					// well within its own budget: it must never be refused because of the flooding client
					other := fmt.Sprintf("203.0.%d.%d", n%250, 1+i%250)
					if kind == "http-v6" {
						other = fmt.Sprintf("2001:db9:%x::%x", n%65000, i+1)
					}
					a.Header = map[string]string{"X-Real-IP": other}
					r2 := a.Ask("http", Query(uint16(3000+i), mkName("quiet", i), 1, 1, false), 2*time.Second, 0)
					if r2.Status == 503 {
						slowRefused.Add(1)
					}
				}
				switch {
				case res.Status == 503:
					refused++
					refusedNames = append(refusedNames, mkName("flood", i))
				case res.Status == 200 && len(res.Resps) == 1 && res.Resps[0].Msg.Rcode() == 0:
					admitted++
				default:
					t.Fatalf("HTTP flood: status %d err %v (a refused request must get 503, an admitted one 200)", res.Status, res.Err)
				}
			}
			a.Close()
		}
		window := time.Since(start).Seconds()
		// bystander in the listener's own /24
		by := NewAsker(pip, block+"201")
		res := by.Ask("udp", Query(7, mkName("bystander", 0), 1, 1, false), 2*time.Second, 0)
		by.Close()
		if len(res.Resps) == 1 && res.Resps[0].Msg.Rcode() == 5 {
			byRefused.Add(1)
		}
		wg.Wait()
		desc := fmt.Sprintf("flood=%s from %s0/24: admitted=%d refused=%d other=%d in %.3fs", kind, subA, admitted, refused, other, window)
		if slowRefused.Load() > 0 {
			t.Fatalf("a client within its own budget (the slow UDP client of %s0/24, or the quiet header-identified HTTP client of another subnet) was refused %d times while another subnet flooded (burst %d); %s", subB, slowRefused.Load(), burst, desc)
		}
		if byRefused.Load() > 0 {
			t.Fatalf("a client in the listener's own /24 (%s201) was refused although only subnet %s0/24 sent traffic: connection costs are not charged to the client's subnet; %s", block, subA, desc)
		}
		if float64(admitted*costPerAdmitted) > float64(burst)+float64(limit)*window+2+float64(costPerAdmitted) {
			t.Fatalf("flooding subnet got %d queries (cost %d each) admitted in %.3fs, more than burst %d + rate %d x window; %s", admitted, costPerAdmitted, window, burst, limit, desc)
		}
		// refused queries are never forwarded
		time.Sleep(2 * time.Millisecond)
		forwarded := map[string]bool{}
		for _, q := range up.Queries() {
			if q.Msg.Err == nil && len(q.Msg.Q) == 1 {
				forwarded[string(q.Msg.Q[0].Name.Wire())] = true
			}
		}
		if kind == "udp" || kind == "tcp-queries" || kind == "http-v4" || kind == "http-v6" {
			for _, nme := range refusedNames {
				if forwarded[string(nme.Lower().Wire())] {
					t.Fatalf("refused query %s was forwarded to the upstream; %s", nme, desc)
				}
			}
		}
		if cr := p.Crashed(); cr != "" {
			t.Fatalf("proxy crashed: %s", cr)
		}
		st.Case(vfkit.Fingerprint(kind, n, pid), refused > 0, []string{"flood=" + kind}, func() any {
			return map[string]any{"flood": kind, "admitted": admitted, "refused": refused, "window_s": window}
		})
	})
}
