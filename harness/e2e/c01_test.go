package vfe2e

// C01 (listener and upstream level) - hostile bytes at every listener and in upstream replies never kill
// or wedge the process; a valid query afterwards is still answered.

import (
	"bytes"
	"crypto/tls"
	"encoding/base64"
	"encoding/binary"
	"fmt"
	"io"
	"net"
	"os"
	"errors"
	"strings"
	"sync"
	"testing"
	"time"

	"pgregory.net/rapid"
	"vfkit"
)

func c01Canary(t *rapid.T, a *Asker, p *Proxy, kind string, id uint16, what string) {
	name := vfkit.Name{[]byte(fmt.Sprintf("canary%d", id)), []byte("ok"), []byte("test")}
	res := a.Ask(kind, Query(id, name, 1, 1, false), 2*time.Second, 0)
	if kind == "udp" && len(res.Resps) == 0 {
		res = a.Ask(kind, Query(id, name, 1, 1, false), 2*time.Second, 0)
	}
	if p.Exited() || p.Crashed() != "" {
		t.Fatalf("the proxy died after %s: exit=%v code=%d\n%s", what, p.Exited(), p.ExitCode, tail(p.Stderr(), 3000))
	}
	if res.Err != nil || len(res.Resps) != 1 || res.Resps[0].Msg.Rcode() != 0 || res.Resps[0].Msg.ID != id {
		t.Fatalf("a valid query on listener %s after %s was not answered within 2 s (err=%v responses=%d status=%d)\n%s", kind, what, res.Err, len(res.Resps), res.Status, tail(p.Stderr(), 1500))
	}
}

func TestVfC01Listeners(t *testing.T) {
	st := vfkit.Stats("TestVfC01Listeners", "hostile inputs per listener kind: UDP datagrams (hostile generator, 0-4096 octets), TCP/gnet/DoT frames with truthful/zero/short/long/64 KiB/2^k +-2 declared lengths, partial frame then FIN or RST, DoH GET (missing dns=, bad base64, padding, 90 KiB, wrong Accept, query strings of drawn segments incl. empty ones and repeated or valueless dns keys) and POST (empty, garbage, > 65535, wrong content type, other methods), DoQ streams (no FIN, garbage, oversized prefix, half prefix, prefixes of 2^k +-2 with nothing / a little / that much behind them), hand-written HTTP/1.1 (POST without length, chunked, lying Content-Length, pipelined, HTTP/1.0, TLS or h2 preface on the plain port), octets below the DNS framing (garbage instead of / inside the TLS handshake, a hostile HTTP/2 header block, non-QUIC and half-QUIC datagrams on the DoQ port), each followed by a valid canary query; oracle: process alive without panic, whatever comes back is nothing / close / HTTP 4xx-5xx / a well-formed DNS message, a complete HTTP request is answered or hung up on within 12 s, and the canary is answered within 2 s; non-trivial = input that is not a valid query")
	defer vfkit.Flush()
	block := NextIPBlock()
	up, err := StartUpstream("udp", "up", block+"2", 0, nil, func(q *UpQuery) UpAction {
		return UpAction{Reply: EncodeMsg(KeyedAnswer(q.Msg, "c01", uint32(q.Seq), 60, 0))}
	})
	if err != nil {
		t.Fatal(err)
	}
	defer up.Close()
	pip := block + "10"
	metricsAddr := pip + ":9153"
	// query logging on and a regexp rule in front: every decodable query's name is also rendered as text
	cfg := &Config{Servers: StdServers(pip, AllListenerKinds, ""), Upstreams: []UpstreamCfg{{Tag: "up", Addr: up.Addr()}},
		DomainSets: []DomainSet{{Tag: "re", Files: []string{"$DIR/re.txt"}}},
		Rules:      []Rule{{Domain: "re", Reject: 3}, {Forward: "up"}},
		Log:        &LogCfg{Queries: true},
		ECS:        &ECSCfg{Enabled: true}, // the client's OPT (and its option list) is looked at
		Extra:      map[string]any{"metrics": map[string]any{"addr": metricsAddr}}}
	const c01Idle = 2 // seconds; the stream listeners must drop a client that stalls in the middle of a frame after this long
	for i := range cfg.Servers {
		switch cfg.Servers[i].Protocol {
		case "tcp", "gnet", "tls":
			cfg.Servers[i].IdleTimeout = c01Idle
		}
	}
	type stalledConn struct {
		c    net.Conn
		at   time.Time
		what string
	}
	var stalled []stalledConn
	p, err := StartProxy(cfg.YAML(), map[string]string{"re.txt": "regexp:^no-such-name-[0-9]+\\.invalid$\n"}, ProxyOpts{})
	if err != nil {
		t.Fatal(err)
	}
	defer p.Cleanup()
	insecure := &tls.Config{InsecureSkipVerify: true}
	// Resource baseline for the leak oracle at the end: goroutines and descriptors of the proxy (its own metrics
	// endpoint) after every listener has served a few valid queries (worker pools and upstream sockets exist by then).
	{
		a := NewAsker(pip, "")
		for round := 0; round < 3; round++ {
			for i, k := range AllListenerKinds {
				a.Ask(k, Query(uint16(60000+i), vfkit.Name{[]byte("warm"), []byte("ok"), []byte("test")}, 1, 1, false), 2*time.Second, 0)
			}
		}
		a.Close()
		time.Sleep(300 * time.Millisecond)
	}
	baseG, baseF, haveBase := ProcStats(metricsAddr)
	nCases := 0
	defer func() {
		// clients that stalled in the middle of a frame and stayed connected: the listener must have hung up on each of
		// them idle_timeout (+ 4 s of slack) after their last octet - a reader without a deadline is one leaked goroutine,
		// descriptor and buffer per hostile connection
		for _, sc := range stalled {
			if t.Failed() {
				break
			}
			limit := sc.at.Add((c01Idle + 4) * time.Second)
			if wait := time.Until(limit); wait > 0 {
				sc.c.SetReadDeadline(limit)
			} else {
				sc.c.SetReadDeadline(time.Now().Add(150 * time.Millisecond))
			}
			_, rerr := io.Copy(io.Discard, sc.c)
			if ne, ok := rerr.(net.Error); ok && ne.Timeout() {
				t.Errorf("the listener still holds a connection %v after %s (idle_timeout %d s): a stalled client is never disconnected", time.Since(sc.at).Round(time.Millisecond), sc.what, c01Idle)
			}
		}
		for _, sc := range stalled {
			sc.c.Close()
		}
		st.Class("stalled-connections-checked", len(stalled))
		if t.Failed() || !haveBase || p.Exited() {
			return
		}
		// Every client of this test has closed its connections. Within 45 s (QUIC idle and handshake time-outs, worker
		// pool idle times) the proxy must be back near its baseline: anything that stays is held per hostile input.
		var g, f int
		deadline := time.Now().Add(45 * time.Second)
		for {
			var ok bool
			g, f, ok = ProcStats(metricsAddr)
			if ok && g <= baseG+12 && f <= baseF+6 {
				st.Class("leak-oracle-evaluated", 1)
				return
			}
			if time.Now().After(deadline) {
				break
			}
			time.Sleep(300 * time.Millisecond)
		}
		t.Errorf("resource leak: after %d hostile inputs and 45 s of quiet the proxy holds %d goroutines (baseline %d) and %d descriptors (baseline %d)\n%s", nCases, g, baseG, f, baseF, tail(p.Stderr(), 1500))
	}()
	id := uint16(0)
	rapid.Check(t, func(t *rapid.T) {
		id += 3
		nCases++
		kind := rapid.SampledFrom(AllListenerKinds).Draw(t, "listener")
		hostile, class := vfkit.GenHostile(t)
		a := NewAsker(pip, "")
		defer a.Close()
		what := ""
		checkDNSOrNothing := func(raw []byte, where string) {
			if len(raw) == 0 {
				return
			}
			d := vfkit.Decode(raw)
			if !d.Clean() {
				t.Fatalf("%s: the proxy answered hostile input with octets that are not a well-formed DNS message: %s (input class %s: %s)", where, vfkit.Hex(raw), class, vfkit.Hex(hostile))
			}
			if len(hostile) >= 2 && d.ID != binary.BigEndian.Uint16(hostile) {
				t.Fatalf("%s: response ID %d does not match the input's ID", where, d.ID)
			}
		}
		// below the DNS framing: octets that arrive before / instead of the TLS or QUIC handshake, or as HTTP/2 frames
		if (kind == "tls" || kind == "https" || kind == "quic") && rapid.IntRange(0, 4).Draw(t, "preProtocol") == 0 {
			switch kind {
			case "quic":
				uc, err := net.Dial("udp", a.addr("quic"))
				if err != nil {
					t.Fatalf("%v", err)
				}
				n := rapid.IntRange(1, 4).Draw(t, "datagrams")
				for i := 0; i < n; i++ {
					d := append([]byte(nil), hostile...)
					switch rapid.IntRange(0, 3).Draw(t, "quicShape") {
					case 0: // long header, version 1, initial
						d = append([]byte{0xc3, 0, 0, 0, 1, 8, 1, 2, 3, 4, 5, 6, 7, 8, 0, 0}, d...)
						d = append(d, make([]byte, 1200)...)
					case 1: // long header, unknown version (version negotiation path)
						d = append([]byte{0xc0, 0xfa, 0xce, 0xb0, 0x0c, 4, 1, 2, 3, 4, 4, 5, 6, 7, 8}, d...)
						d = append(d, make([]byte, 1200)...)
					case 2: // short header (stateless reset path)
						d = append([]byte{0x40}, d...)
					}
					uc.Write(d[:min(len(d), 1400)])
				}
				uc.Close()
				what = fmt.Sprintf("%d non-QUIC / half-QUIC datagrams on the quic listener (class %s)", n, class)
			default:
				rc, err := net.DialTimeout("tcp", a.addr(kind), 2*time.Second)
				if err != nil {
					t.Fatalf("dial %s: %v", kind, err)
				}
				shape := rapid.IntRange(0, 2).Draw(t, "tlsShape")
				switch {
				case shape == 0:
					rc.Write(hostile) // not TLS at all
					what = fmt.Sprintf("%s: raw octets instead of a TLS handshake (class %s)", kind, class)
				case shape == 1:
					rc.Write(append([]byte{0x16, 0x03, 0x01, byte(len(hostile) >> 8), byte(len(hostile)), 0x01}, hostile...)) // handshake record with a hostile ClientHello
					what = fmt.Sprintf("%s: TLS record with a hostile ClientHello (class %s)", kind, class)
				default:
					rc.Close()
					tcfg := &tls.Config{InsecureSkipVerify: true, NextProtos: []string{"h2"}}
					if kind == "tls" {
						tcfg.NextProtos = []string{"dot"}
					}
					tconn, err := tls.DialWithDialer(&net.Dialer{Timeout: 2 * time.Second}, "tcp", a.addr(kind), tcfg)
					if err != nil {
						t.Fatalf("tls dial %s: %v", kind, err)
					}
					rc = tconn
					if kind == "https" {
						// HTTP/2 preface, empty SETTINGS, then a HEADERS frame whose block is the hostile octets
						fr := []byte("PRI * HTTP/2.0\r\n\r\nSM\r\n\r\n")
						fr = append(fr, 0, 0, 0, 4, 0, 0, 0, 0, 0)
						h := hostile[:min(len(hostile), 16000)]
						fr = append(fr, byte(len(h)>>16), byte(len(h)>>8), byte(len(h)), 1, 5, 0, 0, 0, 1)
						fr = append(fr, h...)
						rc.Write(fr)
						what = fmt.Sprintf("https: HTTP/2 HEADERS frame with a hostile header block (class %s)", class)
					} else {
						rc.Write(hostile[:len(hostile)/2]) // half of something, then silence until the server gives up
						what = fmt.Sprintf("tls: unframed octets after the handshake (class %s)", class)
					}
				}
				rc.SetReadDeadline(time.Now().Add(60 * time.Millisecond))
				io.Copy(io.Discard, rc)
				rc.Close()
			}
			c01Canary(t, a, p, kind, id, what)
			st.Case(vfkit.Fingerprint(kind, what, hostile), true, []string{"listener=" + kind, "class=" + class, "below-dns-framing"}, func() any {
				return map[string]any{"listener": kind, "what": what, "input": vfkit.Hex(hostile)}
			})
			return
		}
		switch kind {
		case "udp":
			what = "UDP datagram " + class
			if rapid.IntRange(0, 5).Draw(t, "big") == 0 {
				hostile = append(hostile, bytes.Repeat([]byte{0xC0}, rapid.IntRange(600, 3500).Draw(t, "pad"))...)
			}
			c, err := NewUDPClient("", a.addr("udp"))
			if err != nil {
				t.Fatalf("%v", err)
			}
			c.Send(hostile)
			time.Sleep(3 * time.Millisecond)
			for _, r := range c.All() {
				checkDNSOrNothing(r.Raw, "udp")
			}
			c.Close()
		case "tcp", "gnet", "tls":
			var tc *tls.Config
			if kind == "tls" {
				tc = insecure
			}
			c, err := DialStream("", a.addr(kind), tc, 2*time.Second)
			if err != nil {
				t.Fatalf("dial %s: %v", kind, err)
			}
			decl := len(hostile)
			mode := rapid.SampledFrom([]string{"truthful", "zero", "short", "long", "64k", "partial-fin", "partial-rst", "partial-stall", "two-frames", "edge-decl"}).Draw(t, "frameMode")
			var stream []byte
			switch mode {
			case "zero":
				decl = 0
			case "short":
				if decl > 0 {
					decl = rapid.IntRange(0, decl-1).Draw(t, "decl")
				}
			case "long":
				decl += rapid.IntRange(1, 300).Draw(t, "more")
			case "64k":
				decl = 65535
			case "edge-decl":
				// a declared length at the edge of a read buffer (a power of two, one or two more or less), whatever follows
				decl = min(1<<rapid.IntRange(8, 16).Draw(t, "log2")+rapid.IntRange(-2, 2).Draw(t, "offBy"), 65535)
				if rapid.Bool().Draw(t, "bodyOfThatLength") {
					for len(hostile) < decl {
						hostile = append(hostile, hostile...)
						if len(hostile) == 0 {
							hostile = []byte{0}
						}
					}
					hostile = hostile[:decl]
				}
			}
			stream = append(binary.BigEndian.AppendUint16(nil, uint16(min(decl, 65535))), hostile...)
			if mode == "two-frames" {
				stream = append(stream, frame(Query(id+1, vfkit.Name{[]byte("second"), []byte("ok"), []byte("test")}, 1, 1, false))...)
			}
			if mode == "partial-fin" || mode == "partial-rst" {
				stream = stream[:rapid.IntRange(0, len(stream)).Draw(t, "cutAt")]
			}
			if mode == "partial-stall" {
				if rapid.IntRange(0, 3).Draw(t, "stallInPrefix") == 0 {
					stream = stream[:1]
				} else {
					decl = min(len(hostile)+rapid.IntRange(1, 300).Draw(t, "missing"), 65535)
					stream = append(binary.BigEndian.AppendUint16(nil, uint16(decl)), hostile[:min(len(hostile), decl-1)]...)
				}
			}
			what = fmt.Sprintf("%s frame (%s, declared %d, body %d octets, class %s)", kind, mode, decl, len(hostile), class)
			c.C.Write(stream)
			if mode == "partial-stall" {
				// prefix complete (or half of it), body incomplete, and the client stays connected and silent
				stalled = append(stalled, stalledConn{c.C, time.Now(), what})
			} else if mode == "partial-rst" {
				if tcp, ok := c.C.(*net.TCPConn); ok {
					tcp.SetLinger(0)
				}
				c.Close()
			} else if mode == "partial-fin" {
				if tcp, ok := c.C.(*net.TCPConn); ok {
					tcp.CloseWrite()
				}
				fr, rest, _ := c.ReadFrames(4, 100*time.Millisecond)
				for _, f := range fr {
					checkDNSOrNothing(f.Raw, kind)
				}
				if len(rest) > 0 {
					t.Fatalf("%s: stray octets %x after %s", kind, rest, what)
				}
				c.Close()
			} else {
				fr, rest, _ := c.ReadFrames(4, 60*time.Millisecond)
				for _, f := range fr {
					if !f.Msg.Clean() {
						t.Fatalf("%s: response frame is not a well-formed DNS message after %s: %s", kind, what, vfkit.Hex(f.Raw))
					}
				}
				if len(rest) > 0 {
					t.Fatalf("%s: stray octets %x after %s", kind, rest, what)
				}
				c.Close()
			}
		case "http", "fasthttp", "https":
			mode := map[string]string{"http": "http", "fasthttp": "http", "https": "h2"}[kind]
			c := NewDoHClient(mode, "", a.addr(kind), insecure)
			variant := rapid.SampledFrom([]string{"get-hostile", "get-missing", "get-badb64", "get-padded", "get-huge", "get-wrong-accept", "post-hostile", "post-empty", "post-huge", "post-wrong-ct", "put", "delete", "get-empty-dns", "get-segments", "get-segments"}).Draw(t, "variant")
			what = fmt.Sprintf("%s request %s (class %s)", kind, variant, class)
			var r *Resp
			var err error
			// a request line beyond the listener's header limit (4096 octets): see the note at the time-out oracle below
			bigHeader := false
			do := func(method, qs string, body []byte, hdr map[string]string) (*Resp, error) {
				if len(qs) > 3000 {
					bigHeader = true
				}
				return c.DoRaw(method, qs, body, hdr)
			}
			b64 := base64.RawURLEncoding.EncodeToString(hostile)
			if kind != "https" && rapid.IntRange(0, 3).Draw(t, "rawHTTP") == 0 {
				// hand-written HTTP/1.1 that no well-behaved client library would send
				raws := []string{
					"POST /dns-query HTTP/1.1\r\nHost: x\r\nContent-Type: application/dns-message\r\n\r\n",
					"POST /dns-query HTTP/1.1\r\nHost: x\r\nContent-Type: application/dns-message\r\nTransfer-Encoding: chunked\r\n\r\n" + fmt.Sprintf("%x\r\n%s\r\n0\r\n\r\n", len(hostile), hostile),
					"POST /dns-query HTTP/1.1\r\nHost: x\r\nContent-Type: application/dns-message\r\nTransfer-Encoding: chunked\r\n\r\nffffffffffffffff\r\n",
					"POST /dns-query HTTP/1.1\r\nHost: x\r\nContent-Type: application/dns-message\r\nContent-Length: 5000\r\n\r\n" + string(hostile),
					"POST /dns-query HTTP/1.1\r\nHost: x\r\nContent-Type: application/dns-message\r\nContent-Length: -1\r\n\r\n" + string(hostile),
					"POST /dns-query HTTP/1.0\r\nContent-Type: application/dns-message\r\n\r\n" + string(hostile),
					"GET /dns-query?dns=" + b64 + " HTTP/1.1\r\nAccept: application/dns-message\r\n\r\n",
					"GET /dns-query?dns=" + b64 + " HTTP/1.1\r\nHost: x\r\nAccept: application/dns-message\r\nContent-Length: 3\r\n\r\nabc" + "GET /dns-query?dns=" + b64 + " HTTP/1.1\r\nHost: x\r\n\r\n",
					"GET " + strings.Repeat("/a", 5000) + "?dns=" + b64 + " HTTP/1.1\r\nHost: x\r\n\r\n",
					"\x16\x03\x01\x02\x00\x01\x00\x01\xfc\x03\x03" + string(hostile),
					"PRI * HTTP/2.0\r\n\r\nSM\r\n\r\n" + string(hostile),
				}
				ri := rapid.IntRange(0, len(raws)-1).Draw(t, "rawIdx")
				what = fmt.Sprintf("%s raw HTTP/1.1 request #%d (class %s)", kind, ri, class)
				rc, derr := net.DialTimeout("tcp", a.addr(kind), 2*time.Second)
				if derr != nil {
					t.Fatalf("%s dial: %v", kind, derr)
				}
				rc.Write([]byte(raws[ri]))
				rc.SetReadDeadline(time.Now().Add(150 * time.Millisecond))
				io.Copy(io.Discard, rc)
				rc.Close()
				variant = "raw"
			}
			switch variant {
			case "raw":
				err = fmt.Errorf("raw request: no response oracle beyond the canary")
			case "get-hostile":
				r, err = do("GET", "dns="+b64, nil, map[string]string{"Accept": "application/dns-message"})
			case "get-missing":
				r, err = do("GET", "x=1&&y", nil, map[string]string{"Accept": "application/dns-message"})
			case "get-segments":
				// a query string assembled from drawn segments: empty ones, several dns parameters, other parameters first,
				// a key without value, another spelling of the key
				segs := rapid.SliceOfN(rapid.SampledFrom([]string{"", "", "dns=" + b64, "dns=" + b64, "dns", "dns=", "x=1", "ct=application/dns-message", "=", "dns=%zz", "DNS=" + b64, "dns=" + b64 + "=="}), 1, 5).Draw(t, "segments")
				r, err = do("GET", strings.Join(segs, "&"), nil, map[string]string{"Accept": "application/dns-message"})
				what += fmt.Sprintf(" query string %q", strings.Join(segs, "&"))
			case "get-empty-dns":
				r, err = do("GET", "dns=", nil, map[string]string{"Accept": "application/dns-message"})
			case "get-badb64":
				r, err = do("GET", "dns=***"+b64+"%00", nil, map[string]string{"Accept": "application/dns-message"})
			case "get-padded":
				r, err = do("GET", "dns="+base64.URLEncoding.EncodeToString(append(hostile, 1)), nil, map[string]string{"Accept": "application/dns-message"})
			case "get-huge":
				r, err = do("GET", "dns="+base64.RawURLEncoding.EncodeToString(bytes.Repeat([]byte{0xAB}, 90000)), nil, map[string]string{"Accept": "application/dns-message"})
			case "get-wrong-accept":
				r, err = do("GET", "dns="+b64, nil, map[string]string{"Accept": "text/html"})
			case "post-hostile":
				r, err = do("POST", "", hostile, map[string]string{"Content-Type": "application/dns-message"})
			case "post-empty":
				r, err = do("POST", "", []byte{}, map[string]string{"Content-Type": "application/dns-message"})
			case "post-huge":
				r, err = do("POST", "", bytes.Repeat([]byte{0xCD}, 70000), map[string]string{"Content-Type": "application/dns-message"})
			case "post-wrong-ct":
				r, err = do("POST", "", hostile, map[string]string{"Content-Type": "text/plain"})
			case "put":
				r, err = do("PUT", "", hostile, map[string]string{"Content-Type": "application/dns-message"})
			default:
				r, err = do("DELETE", "dns="+b64, nil, nil)
			}
			c.Close()
			var ne net.Error
			if variant != "raw" && !(kind == "https" && (strings.Contains(variant, "huge") || bigHeader)) && errors.As(err, &ne) && ne.Timeout() {
				// the request was complete and well-formed HTTP: 12 s (twice the proxy's own request deadline) without a
				// response and without the connection being closed is a handler that does not come back. (Not judged for the
				// oversized requests over HTTP/2 - the two "huge" variants and any GET whose query string alone comes near the
				// listener's 4096-octet header limit: there the server rightly kills the connection at once - curl reports
				// "connection died" after 40 ms - and it is the Go HTTP/2 client that keeps re-dialling until its own time-out.)
				t.Fatalf("%s: a complete HTTP request got neither a response nor a close within 12 s: %s (%v)", kind, what, err)
			}
			if err == nil {
				if r.Status == 200 {
					if !r.Msg.Clean() {
						t.Fatalf("%s: HTTP 200 with a body that is not a well-formed DNS message after %s: %s", kind, what, vfkit.Hex(r.Raw))
					}
				} else if r.Status < 400 {
					t.Fatalf("%s: status %d for %s", kind, r.Status, what)
				}
			}
		case "quic":
			c, err := DialDoQ("", a.addr("quic"), insecure, 2*time.Second)
			if err != nil {
				t.Fatalf("doq dial: %v", err)
			}
			variant := rapid.SampledFrom([]string{"framed-fin", "framed-nofin", "raw-garbage", "oversized-prefix", "half-prefix", "empty-fin", "edge-prefix", "edge-prefix"}).Draw(t, "variant")
			what = fmt.Sprintf("DoQ stream %s (class %s)", variant, class)
			var payload []byte
			fin := true
			switch variant {
			case "framed-fin":
				payload = frame(hostile)
			case "framed-nofin":
				payload, fin = frame(hostile), false
			case "raw-garbage":
				payload = hostile
			case "oversized-prefix":
				payload = append([]byte{0xff, 0xff}, hostile...)
			case "half-prefix":
				payload = []byte{0x00}
			case "edge-prefix":
				// a prefix that announces a length at the edge of a read buffer; nothing, a few octets or exactly that much follows
				decl := min(1<<rapid.IntRange(8, 16).Draw(t, "log2")+rapid.IntRange(-2, 2).Draw(t, "offBy"), 65535)
				payload = binary.BigEndian.AppendUint16(nil, uint16(decl))
				switch rapid.IntRange(0, 2).Draw(t, "behindThePrefix") {
				case 1:
					payload = append(payload, hostile[:min(len(hostile), 12)]...)
				case 2:
					body := append([]byte(nil), hostile...)
					for len(body) < decl {
						body = append(body, 0x2a)
					}
					payload = append(payload, body[:decl]...)
				}
				fin = rapid.Bool().Draw(t, "fin")
				what = fmt.Sprintf("DoQ stream with prefix %d and %d octets behind it (fin=%v)", decl, len(payload)-2, fin)
			default:
				payload = nil
			}
			data, _, _ := c.Exchange(payload, fin, 1300*time.Millisecond)
			for len(data) >= 2 {
				l := int(binary.BigEndian.Uint16(data))
				if len(data) < 2+l {
					t.Fatalf("DoQ: truncated frame in the reply to %s", what)
				}
				if d := vfkit.Decode(data[2 : 2+l]); !d.Clean() {
					t.Fatalf("DoQ: reply to %s is not a well-formed DNS message", what)
				}
				data = data[2+l:]
			}
			c.Close()
		}
		c01Canary(t, a, p, kind, id, what)
		valid := false
		if d := vfkit.Decode(hostile); d.Clean() && !d.Has(vfkit.BitQR) {
			valid = true
		}
		st.Case(vfkit.Fingerprint(kind, what, hostile), !valid, []string{"listener=" + kind, "class=" + class}, func() any {
			return map[string]any{"listener": kind, "what": what, "input": vfkit.Hex(hostile)}
		})
	})
}

func TestVfC01UpstreamReplies(t *testing.T) {
	st := vfkit.Stats("TestVfC01UpstreamReplies", "hostile upstream replies on udp / tcp / tcp+pipeline / tls / tls+pipeline / https / h3 / quic upstreams: hostile-generator bodies with the right or a wrong ID, lying frame prefixes, half frames then close, HTTP 500 / 200 with garbage / 70 KiB bodies, followed by a query to a healthy upstream; oracle: the client gets SERVFAIL (or the upstream's message when it happens to decode) within 8 s, the process survives, the next query is answered; non-trivial = reply that does not decode")
	defer vfkit.Flush()
	block := NextIPBlock()
	ca := NewCA("vf c01 ca")
	leaf := ca.Issue(LeafOpts{IPs: []string{block + "2"}})
	var scripts sync.Map
	handler := func(q *UpQuery) UpAction {
		if q.Msg.Err != nil || len(q.Msg.Q) != 1 {
			return UpAction{}
		}
		if v, ok := scripts.Load(string(q.Msg.Q[0].Name[0])); ok {
			return v.(func(*UpQuery) UpAction)(q)
		}
		return UpAction{Reply: EncodeMsg(KeyedAnswer(q.Msg, q.Up.Tag, uint32(q.Seq), 60, 0))}
	}
	kinds := []string{"udp", "tcp", "tcp+pipeline", "tls", "tls+pipeline", "https", "h3", "quic"}
	cfg := &Config{Servers: StdServers(block+"10", []string{"udp", "tcp"}, "")}
	files := map[string]string{"ca.pem": string(ca.CertPEM)}
	for i, k := range kinds {
		u, err := StartUpstream(k, "up"+itoa(i), block+"2", 0, serverTLS(leaf), handler)
		if err != nil {
			t.Fatal(err)
		}
		defer u.Close()
		uc := UpstreamCfg{Tag: u.Tag, Addr: u.Addr()}
		if i >= 3 {
			uc.Tls = &TlsCfg{CA: "$DIR/ca.pem"}
		}
		cfg.Upstreams = append(cfg.Upstreams, uc)
		files["s"+itoa(i)+".txt"] = "k" + itoa(i) + ".test\n"
		cfg.DomainSets = append(cfg.DomainSets, DomainSet{Tag: "s" + itoa(i), Files: []string{"$DIR/s" + itoa(i) + ".txt"}})
		cfg.Rules = append(cfg.Rules, Rule{Domain: "s" + itoa(i), Forward: u.Tag})
	}
	p, err := StartProxy(cfg.YAML(), files, ProxyOpts{})
	if err != nil {
		t.Fatal(err)
	}
	defer p.Cleanup()
	if p.Exited() {
		t.Fatalf("proxy exited: %s", tail(p.Stderr(), 2000))
	}
	// Boundary tier, run once per process before the generated cases: every upstream kind gets a reply of 0, 1, 2, 3 and 11
	// octets (all in flight together, so the slow kinds cost one time-out in total). Oracle as below: SERVFAIL, proxy alive.
	{
		var wg sync.WaitGroup
		var mu sync.Mutex
		var bad []string
		for ki, kind := range kinds {
			for _, n := range []int{0, 1, 2, 3, 11} {
				ki, kind, n := ki, kind, n
				label := fmt.Sprintf("t%dk%dp%d", n, ki, os.Getpid())
				scripts.Store(label, func(q *UpQuery) UpAction {
					b := make([]byte, n)
					copy(b, q.Raw) // the right ID where it fits
					return UpAction{Reply: b}
				})
				wg.Add(1)
				go func() {
					defer wg.Done()
					defer scripts.Delete(label)
					a := NewAsker(block+"10", "")
					defer a.Close()
					res := a.Ask("tcp", Query(uint16(1000+ki*16+n), vfkit.Name{[]byte(label), []byte("k" + itoa(ki)), []byte("test")}, 1, 1, false), 9*time.Second, 0)
					if len(res.Resps) != 1 || !res.Resps[0].Msg.Clean() || res.Resps[0].Msg.Rcode() != 2 {
						mu.Lock()
						bad = append(bad, fmt.Sprintf("upstream %s reply of %d octets: %d responses", kind, n, len(res.Resps)))
						mu.Unlock()
					}
					st.Case(vfkit.Fingerprint(kind, "tiny-sweep", []byte{byte(n)}), true, []string{"upstream=" + kind, "variant=tiny-sweep"}, func() any {
						return map[string]any{"upstream": kind, "variant": "tiny-sweep", "octets": n}
					})
				}()
			}
		}
		// ... and replies that decode but have an unusual shape (built from the query, so ID and QR are right): a bare
		// header, answers without a question, two questions. Whatever the proxy makes of them (the statement leaves the
		// rcode open), it must survive and answer the client once, well-formedly.
		for ki, kind := range kinds {
			for _, shape := range []string{"bare-header", "answers-without-question", "two-questions"} {
				ki, kind, shape := ki, kind, shape
				label := fmt.Sprintf("s%dk%dp%d", len(shape), ki, os.Getpid())
				scripts.Store(label, func(q *UpQuery) UpAction {
					m := KeyedAnswer(q.Msg, "shape", 1, 60, 0)
					switch shape {
					case "bare-header":
						m.Q, m.An = nil, nil
					case "answers-without-question":
						m.Q = nil
					case "two-questions":
						m.Q = append(m.Q, m.Q[0])
					}
					return UpAction{Reply: EncodeMsg(m)}
				})
				wg.Add(1)
				go func() {
					defer wg.Done()
					defer scripts.Delete(label)
					a := NewAsker(block+"10", "")
					defer a.Close()
					res := a.Ask("tcp", Query(uint16(2000+ki*16+len(shape)), vfkit.Name{[]byte(label), []byte("k" + itoa(ki)), []byte("test")}, 1, 1, false), 9*time.Second, 0)
					if len(res.Resps) != 1 || !res.Resps[0].Msg.Clean() {
						mu.Lock()
						bad = append(bad, fmt.Sprintf("upstream %s reply of shape %s: %d responses", kind, shape, len(res.Resps)))
						mu.Unlock()
					}
					st.Case(vfkit.Fingerprint(kind, "shape-sweep", shape), true, []string{"upstream=" + kind, "variant=shape-sweep"}, func() any {
						return map[string]any{"upstream": kind, "variant": "shape-sweep", "shape": shape}
					})
				}()
			}
		}
		// ... and, for the upstreams that speak HTTP, a good reply under response headers that lie or surprise: a
		// Content-Length that is absurd, a little too large, too small or zero, another Content-Type, a Content-Encoding.
		// The length field of this transport is the header; the body is bounded by what arrives, whatever the header says.
		for ki, kind := range kinds {
			if kind != "https" && kind != "h3" {
				continue
			}
			for hi, hdr := range []map[string]string{
				{"Content-Length": "9223372036854775807"}, {"Content-Length": "4611686018427387904"}, {"Content-Length": "1125899906842624"},
				{"Content-Length": "4294967296"}, {"Content-Length": "2147483648"}, {"Content-Length": "65536"}, {"Content-Length": "+1"}, {"Content-Length": "-1"}, {"Content-Length": "0"},
				{"Content-Type": "text/html"}, {"Content-Type": ""}, {"Content-Encoding": "gzip"}, {"Transfer-Encoding": "chunked", "Trailer": "X-Late"},
			} {
				ki, kind, hi, hdr := ki, kind, hi, hdr
				label := fmt.Sprintf("w%dk%dp%d", hi, ki, os.Getpid())
				scripts.Store(label, func(q *UpQuery) UpAction {
					a := UpAction{Reply: EncodeMsg(KeyedAnswer(q.Msg, "hdr", 1, 60, 0)), HTTPHeaders: map[string]string{}}
					for k, v := range hdr {
						switch v {
						case "+1":
							v = itoa(len(a.Reply) + 1)
						case "-1":
							v = itoa(len(a.Reply) - 1)
						}
						a.HTTPHeaders[k] = v
					}
					return a
				})
				wg.Add(1)
				go func() {
					defer wg.Done()
					defer scripts.Delete(label)
					a := NewAsker(block+"10", "")
					defer a.Close()
					res := a.Ask("tcp", Query(uint16(3000+ki*16+hi), vfkit.Name{[]byte(label), []byte("k" + itoa(ki)), []byte("test")}, 1, 1, false), 9*time.Second, 0)
					if len(res.Resps) != 1 || !res.Resps[0].Msg.Clean() {
						mu.Lock()
						bad = append(bad, fmt.Sprintf("upstream %s reply under the response headers %v: %d responses", kind, hdr, len(res.Resps)))
						mu.Unlock()
					}
					st.Case(vfkit.Fingerprint(kind, "http-header-sweep", fmt.Sprint(hdr)), true, []string{"upstream=" + kind, "variant=http-header-sweep"}, func() any {
						return map[string]any{"upstream": kind, "variant": "http-header-sweep", "headers": fmt.Sprint(hdr)}
					})
				}()
			}
		}
		wg.Wait()
		if p.Exited() || p.Crashed() != "" {
			t.Fatalf("the proxy died during the boundary tier (upstream replies of 0..11 octets, decodable replies of unusual shape, HTTP replies under lying response headers)\n%s", tail(p.Stderr(), 3000))
		}
		if len(bad) > 0 {
			t.Fatalf("boundary tier: no single clean response (SERVFAIL for the tiny replies) after %v", bad)
		}
	}
	seq := 0
	rapid.Check(t, func(t *rapid.T) {
		seq++
		ki := rapid.IntRange(0, len(kinds)-1).Draw(t, "upstream")
		kind := kinds[ki]
		body, class := vfkit.GenHostile(t)
		variant := rapid.SampledFrom([]string{"body", "body-right-id", "tiny", "lying-prefix", "half-frame-close", "http-500", "huge", "close"}).Draw(t, "variant")
		if variant == "tiny" {
			// a reply of 0..3 octets: an empty datagram, a zero-length frame, an empty 200 body
			body, class = rapid.SliceOfN(rapid.Byte(), 0, 3).Draw(t, "tinyBody"), "tiny"
		}
		label := fmt.Sprintf("h%dp%d", seq, os.Getpid())
		scripts.Store(label, func(q *UpQuery) UpAction {
			b := append([]byte{}, body...) // never nil: an empty reply is still a reply
			switch variant {
			case "body-right-id":
				if len(b) >= 2 {
					b[0], b[1] = q.Raw[0], q.Raw[1]
				}
				return UpAction{Reply: b}
			case "lying-prefix":
				return UpAction{Reply: b, RawStream: append([]byte{0x7f, 0xff}, b...), CloseAfter: true}
			case "half-frame-close":
				f := frame(EncodeMsg(KeyedAnswer(q.Msg, "x", 1, 60, 0)))
				return UpAction{Reply: b, RawStream: f[:len(f)/2], CloseAfter: true}
			case "http-500":
				return UpAction{Reply: b, HTTPStatus: 500}
			case "huge":
				return UpAction{Reply: bytes.Repeat([]byte{0xEE}, 60000), RawStream: bytes.Repeat([]byte{0xEE}, 70000)}
			case "close":
				return UpAction{CloseBefore: true}
			}
			return UpAction{Reply: b}
		})
		defer scripts.Delete(label)
		a := NewAsker(block+"10", "")
		defer a.Close()
		lk := rapid.SampledFrom([]string{"udp", "tcp"}).Draw(t, "listener")
		name := vfkit.Name{[]byte(label), []byte("k" + itoa(ki)), []byte("test")}
		start := time.Now()
		res := a.Ask(lk, Query(uint16(seq), name, 1, 1, false), 9*time.Second, 0)
		took := time.Since(start)
		what := fmt.Sprintf("upstream %s reply variant %s (class %s)", kind, variant, class)
		if p.Exited() || p.Crashed() != "" {
			t.Fatalf("the proxy died after %s\n%s", what, tail(p.Stderr(), 3000))
		}
		if lk == "udp" && len(res.Resps) == 0 {
			res = a.Ask(lk, Query(uint16(seq), name, 1, 1, false), 9*time.Second, 0)
		}
		if len(res.Resps) != 1 {
			t.Fatalf("%d responses after %s", len(res.Resps), what)
		}
		r := res.Resps[0].Msg
		decodable := false
		if d := vfkit.Decode(body); d.Err == nil && d.Counts == d.Present {
			decodable = true
		}
		if !r.Clean() {
			t.Fatalf("malformed response to the client after %s", what)
		}
		// What did the upstream really deliver as a DNS payload? On the HTTP based kinds the "raw stream" octets are
		// simply the response body, so a lying prefix or half a frame is just another body - which may happen to decode.
		isHTTP := kind == "https" || kind == "h3"
		var delivered []byte
		switch {
		case variant == "body" || variant == "body-right-id" || variant == "tiny" || (variant == "http-500" && !isHTTP):
			delivered = body
		case isHTTP && variant == "lying-prefix":
			delivered = append([]byte{0x7f, 0xff}, body...)
		case isHTTP && variant == "half-frame-close":
			delivered = []byte{0} // placeholder: judged below by "may decode" = unknown -> accept either
		}
		mayDecode := false
		if delivered != nil {
			if d := vfkit.Decode(delivered); d.Err == nil && d.Counts == d.Present {
				mayDecode = true
			}
			if isHTTP && variant == "half-frame-close" {
				mayDecode = true
			}
		}
		_ = decodable
		if r.Rcode() != 2 && !mayDecode {
			t.Fatalf("rcode %d (expected SERVFAIL) after %s", r.Rcode(), what)
		}
		if took > 8500*time.Millisecond {
			t.Fatalf("response only after %v for %s", took, what)
		}
		// healthy path afterwards, same upstream
		ok := a.Ask(lk, Query(uint16(seq)+30000, vfkit.Name{[]byte("fine" + label), []byte("k" + itoa(ki)), []byte("test")}, 1, 1, false), 8*time.Second, 0)
		if len(ok.Resps) != 1 || ok.Resps[0].Msg.Rcode() != 0 {
			t.Fatalf("a query to the healthy upstream %s after %s was not answered (responses=%d)\n%s", kind, what, len(ok.Resps), tail(p.Stderr(), 1200))
		}
		st.Case(vfkit.Fingerprint(kind, variant, body), !decodable || variant != "body", []string{"upstream=" + kind, "variant=" + variant}, func() any {
			return map[string]any{"upstream": kind, "variant": variant, "rcode": r.Rcode(), "took_ms": took.Milliseconds()}
		})
	})
}
