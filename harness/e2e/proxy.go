// Package vfe2e is the black-box (end-to-end) engine: it runs the real mosproxy binary built from
// /repo's working tree on private loopback addresses, plays clients for every listener kind and fake
// upstreams for every upstream kind, and decodes everything with independent code (vfkit, miekg/dns).
package vfe2e

import (
	"bytes"
	"fmt"
	"io"
	"net"
	"net/http"
	"os"
	"os/exec"
	"path/filepath"
	"strings"
	"sync"
	"sync/atomic"
	"syscall"
	"time"
)

type lockedBuf struct {
	mu sync.Mutex
	b  bytes.Buffer
}

func (l *lockedBuf) Write(p []byte) (int, error) {
	l.mu.Lock()
	defer l.mu.Unlock()
	if l.b.Len() < 64<<20 {
		l.b.Write(p)
	}
	return len(p), nil
}

func (l *lockedBuf) String() string {
	l.mu.Lock()
	defer l.mu.Unlock()
	return l.b.String()
}

// Proxy is one running mosproxy process.
type Proxy struct {
	Dir      string
	cmd      *exec.Cmd
	stderr   *lockedBuf
	exited   chan struct{}
	waitErr  error
	ExitCode int
}

var ipSeq atomic.Uint32

// NextIPBlock returns a fresh 127.B.C.0/24 prefix ("127.B.C.") that no other harness process uses:
// the block is claimed by binding (and keeping) a UDP lock socket on 127.B.C.254:49999.
func NextIPBlock() string {
	pid := uint32(os.Getpid())
	var lastErr error
	for try := 0; try < 2000; try++ {
		n := ipSeq.Add(1)
		b := 64 + (pid+n/250)%180
		c := (pid/180*37+n)%250 + 1
		block := fmt.Sprintf("127.%d.%d.", b, c)
		l, err := net.ListenPacket("udp", block+"254:49999")
		if err != nil {
			lastErr = err
			continue
		}
		blockMu.Lock()
		blockLocks[block] = l // held until FreeIPBlock or the process exits
		blockMu.Unlock()
		return block
	}
	// a resource problem of the machine (descriptors, sockets), not a verdict about the proxy
	fmt.Printf("VERIF-INCONCLUSIVE: no free 127.x.y.0/24 block for the harness (last error: %v)\n", lastErr)
	os.Exit(3)
	return ""
}

var (
	blockMu    sync.Mutex
	blockLocks = map[string]net.PacketConn{}
)

// FreeIPBlock gives a block back (tests that take a block per generated case call it when the case is over, so that
// long runs do not use up the address space or the descriptors).
func FreeIPBlock(block string) {
	blockMu.Lock()
	l := blockLocks[block]
	delete(blockLocks, block)
	blockMu.Unlock()
	if l != nil {
		l.Close()
	}
}

type ProxyOpts struct {
	Race       bool
	LogLevel   string // default "info"
	Env        []string
	GoMaxProcs int
	// ExpectBindFailure: the test itself holds an address of the configuration, so "address already in use" at start-up
	// is the outcome under observation. Otherwise such a start-up failure is a left-over of an earlier process on this
	// block (connections in TIME_WAIT on the port of a listener that binds without SO_REUSEADDR) and the start is retried.
	ExpectBindFailure bool
}

// ProxyBin returns the binary to run (built by the driver from /repo's working tree).
func ProxyBin(race bool) string {
	if race {
		if p := os.Getenv("VERIF_PROXY_BIN_RACE"); p != "" {
			return p
		}
	}
	return os.Getenv("VERIF_PROXY_BIN")
}

// StartProxy writes the configuration into a fresh directory and starts the router. It waits until
// the router reports that it is up, or exits, or 15 s pass. The returned Proxy is never nil when err
// is nil; when the process exited during start-up, err is nil too and Exited() reports it (start-up
// failure is an outcome some checks want to observe).
func StartProxy(cfgYAML string, files map[string]string, o ProxyOpts) (*Proxy, error) {
	bin := ProxyBin(o.Race)
	if bin == "" {
		return nil, fmt.Errorf("VERIF_PROXY_BIN is not set")
	}
	base := os.Getenv("VERIF_RUN_DIR")
	if base == "" {
		base = os.TempDir()
	}
	dir, err := os.MkdirTemp(base, "proxy-")
	if err != nil {
		return nil, err
	}
	for name, content := range files {
		if err := os.WriteFile(filepath.Join(dir, name), []byte(content), 0o644); err != nil {
			return nil, err
		}
	}
	cfgYAML = strings.ReplaceAll(cfgYAML, "$DIR", dir)
	cfgPath := filepath.Join(dir, "config.yaml")
	if err := os.WriteFile(cfgPath, []byte(cfgYAML), 0o644); err != nil {
		return nil, err
	}
	lvl := o.LogLevel
	if lvl == "" {
		lvl = "info"
	}
	if v := os.Getenv("VERIF_PROXY_LOGLVL"); v != "" {
		lvl = v
	}
	args := []string{"router", "-c", cfgPath, "--log-lvl", lvl}
	if o.GoMaxProcs > 0 {
		args = append(args, "--gomaxprocs", fmt.Sprint(o.GoMaxProcs))
	}
	for attempt := 0; ; attempt++ {
		p, err := launchProxy(bin, args, dir, o)
		if err != nil || o.ExpectBindFailure || !p.Exited() || attempt >= 35 || !strings.Contains(p.Stderr(), "address already in use") {
			return p, err
		}
		time.Sleep(2 * time.Second)
	}
}

func launchProxy(bin string, args []string, dir string, o ProxyOpts) (*Proxy, error) {
	cmd := exec.Command(bin, args...)
	cmd.Dir = dir
	cmd.Env = append(os.Environ(), "MOSPROXY_JSONLOGGER=1", "GORACE=halt_on_error=0 exitcode=66")
	for _, e := range o.Env {
		cmd.Env = append(cmd.Env, strings.ReplaceAll(e, "$DIR", dir))
	}
	p := &Proxy{Dir: dir, cmd: cmd, stderr: &lockedBuf{}, exited: make(chan struct{})}
	cmd.Stderr = p.stderr
	cmd.Stdout = p.stderr
	cmd.SysProcAttr = &syscall.SysProcAttr{Pdeathsig: syscall.SIGKILL}
	if err := cmd.Start(); err != nil {
		return nil, err
	}
	go func() {
		p.waitErr = cmd.Wait()
		if cmd.ProcessState != nil {
			p.ExitCode = cmd.ProcessState.ExitCode()
		}
		close(p.exited)
	}()
	deadline := time.Now().Add(15 * time.Second)
	for {
		if strings.Contains(p.stderr.String(), "router is up and running") {
			return p, nil
		}
		select {
		case <-p.exited:
			return p, nil
		default:
		}
		if time.Now().After(deadline) {
			p.Kill()
			return nil, fmt.Errorf("proxy did not come up within 15s; stderr:\n%s", tail(p.stderr.String(), 2000))
		}
		time.Sleep(2 * time.Millisecond)
	}
}

func tail(s string, n int) string {
	if len(s) > n {
		return "..." + s[len(s)-n:]
	}
	return s
}

func (p *Proxy) Exited() bool {
	select {
	case <-p.exited:
		return true
	default:
		return false
	}
}

func (p *Proxy) Stderr() string { return p.stderr.String() }

// Terminate sends SIGTERM and waits up to d for the exit. It returns false when the process had to be killed.
func (p *Proxy) Terminate(d time.Duration) bool {
	if p.Exited() {
		return true
	}
	p.cmd.Process.Signal(syscall.SIGTERM)
	select {
	case <-p.exited:
		return true
	case <-time.After(d):
		p.Kill()
		return false
	}
}

// TerminateOrDump is Terminate, but a process that does not exit in time is sent SIGQUIT so that its
// goroutine dump ends up in Stderr() (the replay material of a shutdown hang).
func (p *Proxy) TerminateOrDump(d time.Duration) bool {
	if p.Exited() {
		return true
	}
	p.cmd.Process.Signal(syscall.SIGTERM)
	select {
	case <-p.exited:
		return true
	case <-time.After(d):
		p.cmd.Process.Signal(syscall.SIGQUIT)
		select {
		case <-p.exited:
		case <-time.After(3 * time.Second):
			p.Kill()
		}
		return false
	}
}

// MainStack extracts the stack of the main goroutine from a SIGQUIT dump.
func (p *Proxy) MainStack() string {
	s := p.Stderr()
	i := strings.Index(s, "\ngoroutine 1 ")
	if i < 0 {
		return "(no dump) " + tail(s, 1500)
	}
	e := strings.Index(s[i:], "\n\n")
	if e < 0 || e > 4000 {
		e = min(4000, len(s)-i)
	}
	return s[i : i+e]
}

func (p *Proxy) Kill() {
	if !p.Exited() {
		p.cmd.Process.Kill()
		<-p.exited
	}
}

// Cleanup stops the process and removes its directory.
func (p *Proxy) Cleanup() {
	p.Kill()
	os.RemoveAll(p.Dir)
}

// LogLines returns the log lines containing substr (at most max).
func (p *Proxy) LogLines(substr string, max int) string {
	var out []string
	for _, l := range strings.Split(p.Stderr(), "\n") {
		if strings.Contains(l, substr) {
			out = append(out, l)
			if len(out) >= max {
				break
			}
		}
	}
	return strings.Join(out, "\n")
}

// Crashed reports evidence of a crash in the process output.
func (p *Proxy) Crashed() string {
	s := p.Stderr()
	for _, marker := range []string{"panic:", "fatal error:", "SIGSEGV", "VERIF-CANARY", "unexpected signal"} {
		if i := strings.Index(s, marker); i >= 0 {
			end := i + 1500
			if end > len(s) {
				end = len(s)
			}
			return s[i:end]
		}
	}
	return ""
}

// Races returns the data race reports printed so far.
func (p *Proxy) Races() []string {
	s := p.Stderr()
	var out []string
	for {
		i := strings.Index(s, "WARNING: DATA RACE")
		if i < 0 {
			return out
		}
		s = s[i:]
		j := strings.Index(s[1:], "==================")
		if j < 0 {
			out = append(out, s)
			return out
		}
		out = append(out, s[:j+1])
		s = s[j+1:]
	}
}

// ProcStats reads go_goroutines and process_open_fds from the proxy's own metrics endpoint (addr = host:port of
// metrics.addr). ok is false when the endpoint could not be read.
func ProcStats(addr string) (goroutines, fds int, ok bool) {
	c := &http.Client{Timeout: 2 * time.Second}
	resp, err := c.Get("http://" + addr + "/metrics")
	if err != nil {
		return 0, 0, false
	}
	defer resp.Body.Close()
	b, err := io.ReadAll(resp.Body)
	if err != nil {
		return 0, 0, false
	}
	for _, line := range strings.Split(string(b), "\n") {
		var v float64
		if strings.HasPrefix(line, "go_goroutines ") {
			fmt.Sscanf(line[len("go_goroutines "):], "%g", &v)
			goroutines = int(v)
		}
		if strings.HasPrefix(line, "process_open_fds ") {
			fmt.Sscanf(line[len("process_open_fds "):], "%g", &v)
			fds = int(v)
		}
	}
	return goroutines, fds, goroutines > 0
}
