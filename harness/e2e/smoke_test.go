package vfe2e

import (
	"bytes"
	"testing"
	"time"

	"vfkit"
)

// TestVfSmoke is the harness self-check: one proxy with every listener kind and one upstream of every
// kind; a query through each listener x upstream must come back with the keyed answer.
func TestVfSmoke(t *testing.T) {
	block := NextIPBlock()
	pip := block + "1"
	ca := NewCA("vf smoke ca")
	leaf := ca.Issue(LeafOpts{IPs: []string{block + "2"}, DNSNames: []string{"up.vf.test"}})
	cfg := &Config{Servers: StdServers(pip, AllListenerKinds, "")}
	files := map[string]string{"ca.pem": string(ca.CertPEM)}
	kinds := []string{"udp", "tcp", "tcp+pipeline", "tls", "tls+pipeline", "https", "h3", "quic"}
	var ups []*FakeUpstream
	for i, k := range kinds {
		tag := "up" + itoa(i)
		u, err := StartUpstream(k, tag, block+"2", 0, serverTLS(leaf), func(q *UpQuery) UpAction {
			return UpAction{Reply: EncodeMsg(KeyedAnswer(q.Msg, q.Up.Tag, uint32(q.Seq), 60, 0))}
		})
		if err != nil {
			t.Fatalf("upstream %s: %v", k, err)
		}
		defer u.Close()
		ups = append(ups, u)
		uc := UpstreamCfg{Tag: tag, Addr: u.Addr()}
		if k == "tls" || k == "tls+pipeline" || k == "https" || k == "h3" || k == "quic" {
			uc.Tls = &TlsCfg{CA: "$DIR/ca.pem"}
		}
		cfg.Upstreams = append(cfg.Upstreams, uc)
		files["set"+itoa(i)+".txt"] = "domain:" + tag + ".test\n"
		cfg.DomainSets = append(cfg.DomainSets, DomainSet{Tag: "set" + itoa(i), Files: []string{"$DIR/set" + itoa(i) + ".txt"}})
		cfg.Rules = append(cfg.Rules, Rule{Domain: "set" + itoa(i), Forward: tag})
	}
	p, err := StartProxy(cfg.YAML(), files, ProxyOpts{})
	if err != nil {
		t.Fatal(err)
	}
	defer p.Cleanup()
	if p.Exited() {
		t.Fatalf("proxy exited at start-up: %s", tail(p.Stderr(), 3000))
	}
	a := NewAsker(pip, "")
	defer a.Close()
	id := uint16(100)
	for _, lk := range AllListenerKinds {
		for i, u := range ups {
			id++
			name := vfkit.Name{[]byte("Q" + itoa(int(id))), []byte(u.Tag), []byte("test")}
			res := a.Ask(lk, Query(id, name, 1, 1, false), 7*time.Second, 20*time.Millisecond)
			if res.Err != nil || len(res.Resps) != 1 {
				t.Fatalf("listener %s -> upstream %s (%d): err=%v responses=%d status=%d\n%s", lk, u.Kind, i, res.Err, len(res.Resps), res.Status, tail(p.Stderr(), 1500))
			}
			r := res.Resps[0].Msg
			rd, tag, _, ok := ParseKeyed(r)
			if !ok || tag != u.Tag || !bytes.Equal(rd, KeyedRData(name, 1, 1, u.Tag)) || r.ID != id || r.Rcode() != 0 {
				t.Fatalf("listener %s -> upstream %s: unexpected response %s", lk, u.Kind, r.Msg.String())
			}
		}
	}
	if !p.Terminate(5*time.Second) || p.ExitCode != 0 {
		t.Fatalf("proxy did not exit cleanly on SIGTERM: code %d\n%s", p.ExitCode, tail(p.Stderr(), 1500))
	}
	if c := p.Crashed(); c != "" {
		t.Fatalf("crash output: %s", c)
	}
}
