package vfe2e

import (
	"crypto/tls"

	"vfkit"
)

// The fake upstreams and the harness CA live in the kit (they are shared with the package-level
// harness); these aliases keep the e2e tests short.
type (
	FakeUpstream = vfkit.FakeUpstream
	UpQuery      = vfkit.UpQuery
	UpAction     = vfkit.UpAction
	Handler      = vfkit.Handler
	CA           = vfkit.CA
	Leaf         = vfkit.Leaf
	LeafOpts     = vfkit.LeafOpts
)

var (
	StartUpstream = vfkit.StartUpstream
	NewCA         = vfkit.NewCA
)

func serverTLS(l *Leaf) *tls.Config { return vfkit.ServerTLS(l) }
func frame(b []byte) []byte         { return vfkit.Frame(b) }
