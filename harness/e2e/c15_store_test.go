package vfe2e

// C15 with a slow second-level cache: between the admission of a query and the end of its handling lies a store
// round trip of hundreds of milliseconds, and queries of one subnet overlap. Whatever the proxy books onto the client's
// bucket afterwards, and with whatever timestamp, the subnet's admitted cost stays within burst + rate x window.

import (
	"fmt"
	"os"
	"testing"
	"time"

	"pgregory.net/rapid"
	"vfkit"
)

func TestVfC15SlowStore(t *testing.T) {
	st := vfkit.Stats("TestVfC15SlowStore", "udp listener, client limiter {limit 20/s, burst 40}, cache = the harness's RESP3 store answering GET / SET after a drawn 0.3-2.5 s; one fresh subnet sends a query every 4-12 ms for 2-3 s (2-3 hosts of the /24 taking turns, distinct names); oracle: the number of admitted queries (any response other than REFUSED, each costing at least 1) is at most burst + rate x (time from the first to the last query) + 3; non-trivial = at least one query was refused")
	defer vfkit.Flush()
	block := NextIPBlock()
	up, err := StartUpstream("udp", "up", block+"2", 0, nil, func(q *UpQuery) UpAction {
		return UpAction{Reply: EncodeMsg(KeyedAnswer(q.Msg, "c15s", uint32(q.Seq), 60, 0))}
	})
	if err != nil {
		t.Fatal(err)
	}
	defer up.Close()
	store, err := vfkit.StartFakeRedis(block + "3")
	if err != nil {
		t.Fatal(err)
	}
	defer store.Close()
	const limit, burst = 20, 40
	pip := block + "10"
	cfg := &Config{Servers: StdServers(pip, []string{"udp"}, ""), Upstreams: []UpstreamCfg{{Tag: "up", Addr: up.Addr()}}, Rules: []Rule{{Forward: "up"}},
		Cache: &CacheCfg{Redis: store.URL()}, Limiter: &LimiterCfg{Client: &ClientLimiterCfg{Limit: limit, Burst: burst}}}
	p, err := StartProxy(cfg.YAML(), nil, ProxyOpts{})
	if err != nil {
		t.Fatal(err)
	}
	defer p.Cleanup()
	for until := time.Now().Add(5 * time.Second); store.Pings.Load() < 2 && time.Now().Before(until); {
		time.Sleep(20 * time.Millisecond)
	}
	rapid.Check(t, func(t *rapid.T) {
		latency := time.Duration(rapid.IntRange(300, 2500).Draw(t, "storeLatencyMs")) * time.Millisecond
		gap := time.Duration(rapid.IntRange(4, 12).Draw(t, "gapMs")) * time.Millisecond
		dur := time.Duration(rapid.IntRange(2000, 3000).Draw(t, "floodMs")) * time.Millisecond
		hosts := rapid.IntRange(2, 3).Draw(t, "hosts")
		// one flood of a fresh subnet; returns what was sent, admitted, refused and the time from the first to the last query
		flood := func(storeLatency time.Duration) (sent, admitted, refused int, window time.Duration, sub string) {
			n := c15Seq.Add(1)
			sub = fmt.Sprintf("127.%d.%d.", 30+(n/250)%20, n%250)
			store.Delay.Store(int64(storeLatency))
			defer store.Delay.Store(0)
			clients := make([]*UDPClient, hosts)
			for i := range clients {
				c, err := NewUDPClient(sub+itoa(10+i), fmt.Sprintf("%s:%d", pip, ListenerPorts["udp"]))
				if err != nil {
					t.Fatalf("udp client: %v", err)
				}
				defer c.Close()
				clients[i] = c
			}
			start := time.Now()
			var last time.Time
			for time.Since(start) < dur {
				name := vfkit.Name{[]byte(fmt.Sprintf("q%dn%dp%d", sent, n, os.Getpid())), []byte("slowstore"), []byte("test")}
				clients[sent%hosts].Send(Query(uint16(sent), name, 1, 1, false))
				last = time.Now()
				sent++
				time.Sleep(gap)
			}
			window = last.Sub(start)
			count := func() (a, r int) {
				for _, c := range clients {
					for _, x := range c.All() {
						if x.Msg.Err != nil {
							continue
						}
						if x.Msg.Rcode() == 5 {
							r++
						} else {
							a++
						}
					}
				}
				return
			}
			// every query is answered at the latest after the 6 s request deadline
			for deadline := time.Now().Add(8 * time.Second); time.Now().Before(deadline); time.Sleep(20 * time.Millisecond) {
				if a, r := count(); a+r >= sent {
					break
				}
			}
			admitted, refused = count()
			return
		}
		// What one admitted query costs beyond the listener's own charge is the proxy's table and depends on what the
		// bucket still holds when the later charges are made; the one thing every admitted query costs is at least 1.
		// (A version of this check that measured the cost with a fast store first raised a false alarm: with a slow store
		// the later, larger charges more often find the bucket empty and are skipped, so more queries legitimately pass.)
		sent, admitted, refused, window, sub := flood(latency)
		budget := float64(burst) + float64(limit)*window.Seconds() + 3
		if float64(admitted) > budget {
			t.Fatalf("subnet %s0/24: %d of %d queries sent over %.2fs were admitted (%d refused) while the second-level store answered after %v; burst %d + rate %d/s x window + 3 = %.1f, and every admitted query costs at least 1", sub, admitted, sent, window.Seconds(), refused, latency, burst, limit, budget)
		}
		if cr := p.Crashed(); cr != "" || p.Exited() {
			t.Fatalf("proxy died: %s", cr)
		}
		st.Class("admitted", admitted)
		st.Class("refused", refused)
		st.Case(vfkit.Fingerprint(sub, os.Getpid(), gap, dur, hosts), refused > 0, nil, func() any {
			return map[string]any{"sent": sent, "admitted": admitted, "refused": refused, "window_s": window.Seconds(), "budget": budget, "store_latency_ms": latency.Milliseconds()}
		})
	})
}
