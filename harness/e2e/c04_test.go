package vfe2e

// C04 / C20 - answers are never mixed up between concurrent queries; recycled memory is exclusively
// owned. Generated concurrent workloads against the race-instrumented binary built with the
// poison/quarantine hook (-race -tags verif).

import (
	"bytes"
	"crypto/tls"
	"encoding/binary"
	"fmt"
	"net"
	"os"
	"strings"
	"sync"
	"sync/atomic"
	"testing"
	"time"

	"pgregory.net/rapid"
	"vfkit"
)

var poisonRun = bytes.Repeat([]byte{0xDB}, 6)

type c04Triple struct {
	name   vfkit.Name // lower case
	typ    uint16
	class  uint16
	up     int
	notimp bool // sent with RD=0: an unsupported query, answered NOTIMP by the proxy itself
}

type c04Run struct {
	listeners      []string
	upKinds        []string
	storeLatencyUs int
	junk           [][]byte // undecodable messages sent to the listeners while the clients work
	churn          int      // short-lived stream connections that write one query and hang up
	cache          string   // off, large, tiny
	ttl            uint32
	clients        int
	perClient      int
	poolSize       int
	maxProcs       int
	udpThreads     int  // udp.threads of the UDP listener (0 = default, one reader)
	udpRoutes      bool // udp.multi_routes
	cancelRich     bool
	seeds          []uint32
	// prefetch-rich runs: TTL of a few seconds, a small question pool and clients that keep asking for at
	// least minDuration, so that many hits land in the last quarter of an entry's lifetime under load
	minDuration time.Duration
}

type lcg uint32

func (l *lcg) next() uint32 { *l = *l*1664525 + 1013904223; return uint32(*l >> 8) }

func mixCase(n vfkit.Name, r uint32) vfkit.Name {
	o := make(vfkit.Name, len(n))
	for i, l := range n {
		c := append([]byte(nil), l...)
		for j := range c {
			if 'a' <= c[j] && c[j] <= 'z' && (r>>uint((i*7+j)%31))&1 == 1 {
				c[j] -= 32
			}
		}
		o[i] = c
	}
	return o
}

// runWorkload executes one generated run and returns an error description ("" = all oracles held).
func runWorkload(t *rapid.T, run c04Run, st *vfkit.Collector, label string) {
	block := NextIPBlock()
	defer FreeIPBlock(block)
	ca := NewCA("vf c04 ca")
	leaf := ca.Issue(LeafOpts{IPs: []string{block + "2"}})
	var upQueriesPoison atomic.Int32
	handler := func(q *UpQuery) UpAction {
		if bytes.Contains(q.Raw, poisonRun) {
			upQueriesPoison.Add(1)
		}
		if q.Msg.Err != nil || len(q.Msg.Q) != 1 {
			return UpAction{}
		}
		qq := q.Msg.Q[0]
		h := KeyedRData(qq.Name, qq.Type, qq.Class, "delay")
		km := KeyedAnswer(q.Msg, q.Up.Tag, uint32(q.Seq), run.ttl, 0)
		km.Ns, km.Ar = RichExtras(qq.Name)
		for i := range km.Ns {
			km.Ns[i].TTL = run.ttl
		}
		for i := range km.Ar {
			km.Ar[i].TTL = run.ttl
		}
		if h[1]%11 == 3 {
			// some upstreams leave the question section out of their replies: the proxy owes the client its question all the same
			km.Q = nil
		}
		a := UpAction{Reply: EncodeMsg(km)}
		switch h[0] % 8 {
		case 0:
			a.Delay = time.Duration(h[1]%40) * time.Millisecond // reordering
		case 1, 2:
			a.Delay = time.Duration(h[1]%5) * time.Millisecond
		}
		if q.Up.Kind == "udp" && h[3]%9 == 0 {
			// a udp upstream truncates its answer to some questions: the proxy asks again over TCP, where the answer is
			// whole - or, in the runs with failures, where the connection is closed on it for every other such question
			if q.Transport == "udp" {
				tm := KeyedAnswer(q.Msg, q.Up.Tag, uint32(q.Seq), run.ttl, 0)
				if h[2]%2 == 0 {
					tm.An = nil // (every other truncated answer still carries what fitted)
				}
				tm.Bits |= vfkit.BitTC
				a.Reply = EncodeMsg(tm)
				return a
			}
			if run.cancelRich && h[3]%18 == 0 {
				return UpAction{CloseBefore: true}
			}
			return a
		}
		if run.cancelRich {
			switch {
			case h[2]%61 == 0:
				return UpAction{} // silence -> request context expires in the proxy
			case h[2]%37 == 0:
				a.CloseAfter = true // upstream connection killed under load
			case h[2]%41 == 0:
				return UpAction{CloseBefore: true}
			}
		}
		return a
	}
	cfg := &Config{Servers: StdServers(block+"10", run.listeners, "")}
	for i := range cfg.Servers {
		if cfg.Servers[i].Protocol == "udp" && (run.udpThreads > 0 || run.udpRoutes) {
			u := map[string]any{}
			if run.udpThreads > 0 {
				u["threads"] = run.udpThreads
			}
			if run.udpRoutes {
				u["multi_routes"] = true
			}
			cfg.Servers[i].Extra = map[string]any{"udp": u}
		}
	}
	files := map[string]string{"ca.pem": string(ca.CertPEM)}
	var store *vfkit.FakeRedis
	var ups []*FakeUpstream
	for i, k := range run.upKinds {
		u, err := StartUpstream(k, "up"+itoa(i), block+"2", 0, serverTLS(leaf), handler)
		if err != nil {
			t.Fatalf("upstream %s: %v", k, err)
		}
		defer u.Close()
		ups = append(ups, u)
		uc := UpstreamCfg{Tag: u.Tag, Addr: u.Addr()}
		if strings.HasPrefix(k, "tls") || k == "https" || k == "h3" || k == "quic" {
			uc.Tls = &TlsCfg{CA: "$DIR/ca.pem"}
		}
		cfg.Upstreams = append(cfg.Upstreams, uc)
		files["s"+itoa(i)+".txt"] = "k" + itoa(i) + ".test\n"
		cfg.DomainSets = append(cfg.DomainSets, DomainSet{Tag: "s" + itoa(i), Files: []string{"$DIR/s" + itoa(i) + ".txt"}})
		cfg.Rules = append(cfg.Rules, Rule{Domain: "s" + itoa(i), Forward: u.Tag})
	}
	switch run.cache {
	case "large":
		cfg.Cache = &CacheCfg{MemSize: 32 << 20}
	case "tiny":
		cfg.Cache = &CacheCfg{MemSize: 6000}
	case "store", "tiny+store":
		// second-level cache: the harness's own RESP3 store (kit/fakeredis.go), alone or behind a tiny memory cache
		rd, err := vfkit.StartFakeRedis(block + "3")
		if err != nil {
			t.Fatalf("store: %v", err)
		}
		defer rd.Close()
		store = rd
		// the store answers at once, or after a latency under which the proxy's writes to it queue up
		rd.Delay.Store(int64(time.Duration(run.storeLatencyUs) * time.Microsecond))
		cfg.Cache = &CacheCfg{Redis: rd.URL()}
		if run.cache == "tiny+store" {
			cfg.Cache.MemSize = 6000
		}
	}
	p, err := StartProxy(cfg.YAML(), files, ProxyOpts{Race: true, GoMaxProcs: run.maxProcs})
	if err != nil {
		t.Fatalf("%v", err)
	}
	defer p.Cleanup()
	if p.Exited() {
		t.Fatalf("proxy exited at start: %s", tail(p.Stderr(), 2000))
	}
	if store != nil {
		// the proxy uses the store after its first successful PING (a one-second ticker)
		for until := time.Now().Add(5 * time.Second); store.Pings.Load() < 2 && time.Now().Before(until); {
			time.Sleep(20 * time.Millisecond)
		}
	}
	// question pool
	pool := make([]c04Triple, run.poolSize)
	for i := range pool {
		upi := i % len(ups)
		pool[i] = c04Triple{name: vfkit.Name{[]byte(fmt.Sprintf("n%d", i)), []byte("k" + itoa(upi)), []byte("test")}, typ: []uint16{1, 28, 16}[i%3], class: []uint16{1, 1, 3}[(i/3)%3], up: upi}
	}
	var total, wrong, missing, servfail atomic.Int64
	var firstErr atomic.Value
	fail := func(format string, args ...any) {
		firstErr.CompareAndSwap(nil, fmt.Sprintf(format, args...))
	}
	verify := func(tr c04Triple, sent vfkit.Name, id uint16, r *Resp, via string) {
		total.Add(1)
		if bytes.Contains(r.Raw, poisonRun) {
			fail("poison octets (released pool memory) in a response via %s: %s", via, vfkit.Hex(r.Raw))
			return
		}
		d := r.Msg
		if !d.Clean() {
			fail("malformed response via %s: %v %s", via, d.Err, vfkit.Hex(r.Raw))
			return
		}
		if d.ID != id {
			fail("response ID %d for query ID %d via %s", d.ID, id, via)
			return
		}
		// (a response to a question whose upstream leaves the question section out may come without one: "at most one question")
		upstreamOmitsQuestion := KeyedRData(tr.name, tr.typ, tr.class, "delay")[1]%11 == 3
		if len(d.Q) == 0 && upstreamOmitsQuestion && !tr.notimp {
			// judged by its records below
		} else if len(d.Q) != 1 || !d.Q[0].Name.EqualFold(sent) || d.Q[0].Type != tr.typ || d.Q[0].Class != tr.class {
			wrong.Add(1)
			fail("response via %s carries question %v, the query asked %s type %d class %d", via, d.Q, sent, tr.typ, tr.class)
			return
		}
		if tr.notimp {
			if d.Rcode() != 4 {
				fail("an RD=0 query via %s was answered with rcode %d instead of NOTIMP", via, d.Rcode())
			}
			return
		}
		if d.Rcode() == 2 {
			servfail.Add(1)
			// not a mix-up: counted and reported; the reason is looked up in the proxy log after the run
			return
		}
		rd, tag, _, ok := ParseKeyed(d)
		if d.Has(vfkit.BitTC) {
			return
		}
		if !ok || d.Rcode() != 0 {
			fail("unexpected response via %s: rcode %d %s", via, d.Rcode(), d.Msg.String())
			return
		}
		if !bytes.Equal(rd, KeyedRData(tr.name, tr.typ, tr.class, "up"+itoa(tr.up))) || tag != "up"+itoa(tr.up) {
			wrong.Add(1)
			fail("MIX-UP via %s: the response to %s type %d class %d (upstream up%d) carries the answer of another question (tag %q rdata %x)", via, sent, tr.typ, tr.class, tr.up, tag, rd)
			return
		}
		if mm := ExtrasMismatch(d, tr.name); mm != "" {
			wrong.Add(1)
			fail("MIX-UP via %s: the authority/additional records in the response to %s type %d are not the ones the upstream sent for that name: %s", via, sent, tr.typ, mm)
		}
	}
	insecure := &tls.Config{InsecureSkipVerify: true}
	runStart := time.Now()
	var wg sync.WaitGroup
	// Next to the clients somebody sends messages that stop decoding half-way (complete records first, then a record
	// that is cut off, a count that lies, a pointer into nowhere), as datagrams and as frames: what such a message left
	// behind in a recycled object must not turn up in anybody's answer.
	stopJunk := make(chan struct{})
	if len(run.junk) > 0 {
		go func() {
			u, err := net.Dial("udp", fmt.Sprintf("%s:%d", block+"10", ListenerPorts["udp"]))
			if err != nil {
				return
			}
			defer u.Close()
			for i := 0; ; i++ {
				select {
				case <-stopJunk:
					return
				default:
				}
				j := run.junk[i%len(run.junk)]
				u.Write(j)
				if i%7 == 0 {
					for _, k := range []string{"tcp", "gnet"} {
						if c, err := net.DialTimeout("tcp", fmt.Sprintf("%s:%d", block+"10", ListenerPorts[k]), time.Second); err == nil {
							c.Write(frame(j))
							c.SetReadDeadline(time.Now().Add(20 * time.Millisecond))
							c.Read(make([]byte, 16))
							c.Close()
						}
					}
				}
				time.Sleep(time.Duration(200+i%5*300) * time.Microsecond)
			}
		}()
	}
	defer close(stopJunk)
	// ... and clients that do not wait for their answers: hundreds of short-lived connections to the stream listeners,
	// each writing one query and hanging up at once, so that whatever a listener keeps per connection is given back (and
	// handed to the next connection) while the query's handler is still at work.
	if run.churn > 0 {
		for w := 0; w < 8; w++ {
			wg.Add(1)
			go func(w int) {
				defer wg.Done()
				for i := 0; i < run.churn/8; i++ {
					k := []string{"gnet", "gnet", "tcp"}[(w+i)%3]
					c, err := net.DialTimeout("tcp", fmt.Sprintf("%s:%d", block+"10", ListenerPorts[k]), time.Second)
					if err != nil {
						continue
					}
					tr := pool[(w*131+i)%len(pool)]
					c.Write(frame(Query(uint16(i), tr.name, tr.typ, tr.class, false)))
					if i%3 == 0 {
						time.Sleep(200 * time.Microsecond)
					}
					c.Close()
				}
			}(w)
		}
	}
	for c := 0; c < run.clients; c++ {
		wg.Add(1)
		go func(c int) {
			defer wg.Done()
			rng := lcg(run.seeds[c])
			kind := run.listeners[c%len(run.listeners)]
			addr := fmt.Sprintf("%s:%d", block+"10", ListenerPorts[kind])
			pick := func() (c04Triple, vfkit.Name) {
				tr := pool[int(rng.next())%len(pool)]
				if rng.next()%14 == 0 {
					tr.notimp = true
				}
				return tr, mixCase(tr.name, rng.next())
			}
			switch kind {
			case "udp":
				u, err := NewUDPClient("", addr)
				if err != nil {
					fail("udp client: %v", err)
					return
				}
				defer u.Close()
				for done := 0; (done < run.perClient || time.Since(runStart) < run.minDuration) && firstErr.Load() == nil; {
					w := 1 + int(rng.next())%8
					type sentQ struct {
						tr   c04Triple
						name vfkit.Name
						id   uint16
					}
					var batch []sentQ
					from := u.Count()
					for i := 0; i < w; i++ {
						tr, nm := pick()
						id := uint16(done + i + c*4096)
						batch = append(batch, sentQ{tr, nm, id})
						u.Send(c04Query(tr, id, nm, tr.typ, tr.class, rng.next()%2 == 0))
					}
					for _, s := range batch {
						r := u.WaitID(s.id, from, 8*time.Second)
						if r == nil {
							missing.Add(1)
							continue
						}
						verify(s.tr, s.name, s.id, r, "udp")
					}
					done += w
				}
			case "tcp", "gnet", "tls":
				var tc *tls.Config
				if kind == "tls" {
					tc = insecure
				}
				var sc *StreamClient
				for done := 0; (done < run.perClient || time.Since(runStart) < run.minDuration) && firstErr.Load() == nil; {
					if sc == nil {
						var err error
						sc, err = DialStream("", addr, tc, 3*time.Second)
						if err != nil {
							fail("dial %s: %v", kind, err)
							return
						}
					}
					w := 1 + int(rng.next())%8
					trs := map[uint16]c04Triple{}
					names := map[uint16]vfkit.Name{}
					var stream []byte
					for i := 0; i < w; i++ {
						tr, nm := pick()
						id := uint16(done + i + c*4096)
						trs[id], names[id] = tr, nm
						stream = append(stream, frame(c04Query(tr, id, nm, tr.typ, tr.class, rng.next()%2 == 0))...)
					}
					sc.C.Write(stream)
					if run.cancelRich && rng.next()%23 == 0 {
						// client disconnects mid-pipeline
						sc.Close()
						sc = nil
						done += w
						continue
					}
					frames, rest, closed := sc.ReadFrames(w, 9*time.Second)
					if len(frames) < w && !run.cancelRich {
						// a stream transport does not lose data: an incomplete burst means the return stream is
						// out of sync (torn / overwritten frames) or a response is missing
						fail("%s: only %d of %d pipelined queries were answered with well-formed frames (%d stray octets, closed=%v): %s", kind, len(frames), w, len(rest), closed, vfkit.Hex(rest))
					}
					for _, f := range frames {
						tr, ok := trs[f.Msg.ID]
						if !ok {
							fail("%s: response with ID %d that was not sent on this connection", kind, f.Msg.ID)
							continue
						}
						verify(tr, names[f.Msg.ID], f.Msg.ID, f, kind)
					}
					if len(frames) < w {
						missing.Add(int64(w - len(frames)))
					}
					if closed {
						sc.Close()
						sc = nil
					}
					done += w
				}
				if sc != nil {
					sc.Close()
				}
			case "https", "quic":
				// half of these clients multiplex: bursts of 2-8 concurrent requests on ONE HTTP/2 connection (bodies streamed
				// in two parts, so the servers' body reads overlap) resp. on one QUIC connection; the others are sequential
				if c%2 == 1 {
					a := NewAsker(block+"10", "")
					defer a.Close()
					for done := 0; (done < run.perClient || time.Since(runStart) < run.minDuration) && firstErr.Load() == nil; done++ {
						tr, nm := pick()
						id := uint16(done + c*4096)
						res := a.Ask(kind, c04Query(tr, id, nm, tr.typ, tr.class, rng.next()%2 == 0), 9*time.Second, 0)
						if res.Err != nil || len(res.Resps) != 1 {
							missing.Add(1)
							continue
						}
						verify(tr, nm, id, res.Resps[0], kind)
					}
					return
				}
				var hc *DoHClient
				var qc *DoQClient
				if kind == "https" {
					hc = NewDoHClient("h2", "", addr, insecure)
					defer hc.Close()
				} else {
					var err error
					qc, err = DialDoQ("", addr, insecure, 3*time.Second)
					if err != nil {
						fail("doq dial: %v", err)
						return
					}
					defer qc.Close()
				}
				for done := 0; (done < run.perClient || time.Since(runStart) < run.minDuration) && firstErr.Load() == nil; {
					w := 2 + int(rng.next())%7
					var bw sync.WaitGroup
					for i := 0; i < w; i++ {
						tr, nm := pick()
						id := uint16(done + i + c*4096)
						q := c04Query(tr, id, nm, tr.typ, tr.class, rng.next()%2 == 0)
						cut := 1 + int(rng.next())%len(q)
						pause := time.Duration(rng.next()%3) * time.Millisecond
						bw.Add(1)
						go func() {
							defer bw.Done()
							var r *Resp
							if hc != nil {
								rr, err := hc.DoStreamed(q, cut, pause)
								if err != nil || rr.Status != 200 {
									missing.Add(1)
									return
								}
								r = rr
							} else {
								data, _, err := qc.Exchange(frame(q), true, 9*time.Second)
								if err != nil || len(data) < 2 || int(binary.BigEndian.Uint16(data)) != len(data)-2 {
									missing.Add(1)
									return
								}
								r = newResp(data[2:])
							}
							verify(tr, nm, id, r, kind+"-multiplexed")
						}()
					}
					bw.Wait()
					done += w
				}
			default: // http, fasthttp: sequential over a kept-alive connection
				a := NewAsker(block+"10", "")
				defer a.Close()
				for done := 0; (done < run.perClient || time.Since(runStart) < run.minDuration) && firstErr.Load() == nil; done++ {
					tr, nm := pick()
					id := uint16(done + c*4096)
					res := a.Ask(kind, c04Query(tr, id, nm, tr.typ, tr.class, rng.next()%2 == 0), 9*time.Second, 0)
					if res.Err != nil || len(res.Resps) != 1 {
						missing.Add(1)
						continue
					}
					verify(tr, nm, id, res.Resps[0], kind)
				}
			}
		}(c)
	}
	wg.Wait()
	exitedEarly := p.Exited()
	clean := p.Terminate(10 * time.Second)
	out := p.Stderr()
	races := p.Races()
	if c := p.Crashed(); c != "" {
		t.Fatalf("proxy crashed / canary fired: %s\n(first client-side error: %v)\nrun: %+v", c, firstErr.Load(), run)
	}
	if e := firstErr.Load(); e != nil {
		t.Fatalf("%v\nrun: %+v", e, run)
	}
	if c := p.Crashed(); c != "" {
		t.Fatalf("proxy crashed / canary fired: %s\nrun: %+v", c, run)
	}
	if exitedEarly {
		t.Fatalf("proxy exited during the run (code %d)\n%s", p.ExitCode, tail(out, 2000))
	}
	if upQueriesPoison.Load() > 0 {
		t.Fatalf("poison octets (released pool memory) in %d upstream queries", upQueriesPoison.Load())
	}
	if len(races) > 0 {
		// the replay file of a schedule-dependent failure is the report itself
		fn := fmt.Sprintf("%s/race-%s-%d.txt", os.Getenv("VERIF_RUN_DIR"), label, os.Getpid())
		os.WriteFile(fn, []byte(strings.Join(races, "\n")), 0o644)
		fmt.Printf("VERIF-REPLAY: %s\n", fn)
		t.Fatalf("%d data race reports from the proxy; first:\n%s\nrun: %+v", len(races), tail(races[0], 3000), run)
	}
	if !clean {
		t.Fatalf("proxy did not exit within 10 s of SIGTERM")
	}
	if !run.cancelRich && servfail.Load() > 0 {
		reasons := map[string]int{}
		for _, line := range strings.Split(out, "\n") {
			if i := strings.Index(line, "\"error\":\""); i >= 0 && strings.Contains(line, "failed to forward") {
				e := line[i+9:]
				if j := strings.Index(e, "\""); j >= 0 {
					e = e[:j]
				}
				if len(e) > 160 {
					e = e[:160]
				}
				reasons[e]++
			}
		}
		st.Note(fmt.Sprintf("SERVFAIL in a run where every upstream answers: %d of %d; reasons %v", servfail.Load(), total.Load(), reasons))
		if servfail.Load() > total.Load()/20+5 {
			t.Fatalf("%d of %d queries got SERVFAIL although every upstream answers; reasons: %v\nrun: %+v", servfail.Load(), total.Load(), reasons, run)
		}
	}
	if !run.cancelRich && missing.Load() > 0 {
		// UDP loss on a busy loopback is possible; more than a handful is not
		if missing.Load() > total.Load()/200+3 {
			t.Fatalf("%d of %d queries got no response", missing.Load(), total.Load()+missing.Load())
		}
	}
	upTotal, maxInflight := 0, int64(0)
	for _, u := range ups {
		upTotal += u.NumQueries()
		if u.MaxInflight() > maxInflight {
			maxInflight = u.MaxInflight()
		}
	}
	nontrivial := maxInflight >= 8 && len(run.listeners) >= 2 && len(run.upKinds) >= 2
	classes := []string{"cache=" + run.cache, fmt.Sprintf("junk-sender=%v", len(run.junk) > 0), fmt.Sprintf("connection-churn=%v", run.churn > 0)}
	if run.cancelRich {
		classes = append(classes, "cancel-rich")
	}
	if run.minDuration > 0 {
		classes = append(classes, "prefetch-rich")
	}
	if int64(upTotal) < total.Load() {
		classes = append(classes, "cache-hits")
	}
	if store != nil {
		// nothing that was given back to the buffer pool may reach the store (as a key or inside a value)
		for _, op := range store.Log() {
			if bytes.Contains(op.Key, poisonRun) {
				t.Fatalf("poison octets (released pool memory) in a key the proxy sent to the second-level store: %s %s", op.Cmd, vfkit.Hex(op.Key))
			}
		}
		st.Class("store-hits", int(store.Hits.Load()))
		st.Class("store-sets", int(store.Sets.Load()))
	}
	st.Class("queries", int(total.Load()))
	st.Class("upstream-queries", upTotal)
	st.Class("no-response", int(missing.Load()))
	st.Case(vfkit.Fingerprint(fmt.Sprintf("%+v", run)), nontrivial, classes, func() any {
		return map[string]any{"run": fmt.Sprintf("%+v", run), "responses_checked": total.Load(), "upstream_queries": upTotal, "max_inflight_upstream": maxInflight, "servfail": servfail.Load(), "no_response": missing.Load()}
	})
}

func genRun(t *rapid.T, cancelRich bool) c04Run {
	run := c04Run{cancelRich: cancelRich}
	// every run uses every listener kind (each has its own buffer handling); the order decides which kinds get more clients
	run.listeners = rapid.Permutation(AllListenerKinds).Draw(t, "listeners")
	run.upKinds = rapid.SliceOfNDistinct(rapid.SampledFrom([]string{"udp", "tcp", "tcp+pipeline", "tls", "tls+pipeline", "https", "quic", "h3"}), 2, 4, func(s string) string { return s }).Draw(t, "upstreams")
	run.cache = rapid.SampledFrom([]string{"off", "large", "tiny", "tiny", "store", "tiny+store"}).Draw(t, "cache")
	run.storeLatencyUs = rapid.SampledFrom([]int{0, 300, 2000}).Draw(t, "storeLatencyMicros")
	if cancelRich && rapid.Bool().Draw(t, "connectionChurn") {
		run.churn = rapid.IntRange(640, 1200).Draw(t, "churnConnections")
	}
	if rapid.Bool().Draw(t, "junkSender") {
		for i := rapid.IntRange(3, 12).Draw(t, "junkMessages"); i > 0; i-- {
			// a message with 1-4 complete records of mixed kinds whose last record is cut off, or whose counts promise more
			leftover := vfkit.Name{[]byte("left"), []byte("over"), []byte("example")}
			m := &vfkit.Msg{ID: rapid.Uint16().Draw(t, "junkID"), Bits: rapid.SampledFrom([]uint16{vfkit.BitRD, vfkit.BitQR | vfkit.BitRD | vfkit.BitRA}).Draw(t, "junkBits")}
			if rapid.Bool().Draw(t, "junkQuestion") {
				m.Q = []vfkit.Question{{Name: leftover, Type: 1, Class: 1}}
			}
			for k := rapid.IntRange(1, 4).Draw(t, "junkRecords"); k > 0; k-- {
				rr := vfkit.RR{Owner: leftover, Type: 1, Class: 1, TTL: 6, RData: []vfkit.RDPart{{Raw: []byte{6, 6, 6, 6}}}}
				switch rapid.IntRange(0, 3).Draw(t, "junkKind") {
				case 1:
					rr = vfkit.RR{Owner: leftover, Type: 16, Class: 1, TTL: 6, RData: []vfkit.RDPart{{Raw: []byte{4, 'j', 'u', 'n', 'k'}}}}
				case 2:
					rr = vfkit.RR{Owner: leftover, Type: 15, Class: 1, TTL: 6, RData: []vfkit.RDPart{{Raw: []byte{0, 5}}, {IsName: true, Name: leftover}}}
				}
				sec := rapid.SampledFrom([]*[]vfkit.RR{&m.An, &m.Ns, &m.Ar}).Draw(t, "junkSection")
				*sec = append(*sec, rr)
			}
			w := EncodeMsg(m)
			switch rapid.IntRange(0, 2).Draw(t, "junkDamage") {
			case 0: // cut inside the last record
				w = w[:len(w)-rapid.IntRange(1, 9).Draw(t, "junkCut")]
			case 1: // one more record announced than present
				sec := 6 + 2*rapid.IntRange(0, 2).Draw(t, "junkCount")
				w[sec+1]++
			default: // trailing half record
				w = append(w, 3, 'x', 'y')
				w[7]++
			}
			run.junk = append(run.junk, w)
		}
	}
	run.ttl = rapid.SampledFrom([]uint32{1, 2, 60}).Draw(t, "ttl")
	run.clients = rapid.IntRange(8, 48).Draw(t, "clients")
	run.perClient = rapid.SampledFrom([]int{60, 150, 300}).Draw(t, "perClient")
	run.poolSize = rapid.SampledFrom([]int{20, 100, 400}).Draw(t, "poolSize")
	run.maxProcs = rapid.SampledFrom([]int{0, 2, 4}).Draw(t, "gomaxprocs")
	run.udpThreads = rapid.SampledFrom([]int{0, 0, 2, 4}).Draw(t, "udpThreads")
	run.udpRoutes = rapid.IntRange(0, 3).Draw(t, "udpMultiRoutes") == 0
	run.seeds = rapid.SliceOfN(rapid.Uint32(), run.clients, run.clients).Draw(t, "seeds")
	if rapid.IntRange(0, 2).Draw(t, "prefetchRich") == 0 {
		run.ttl = rapid.SampledFrom([]uint32{5, 6}).Draw(t, "prefetchTTL")
		run.poolSize = rapid.SampledFrom([]int{20, 60}).Draw(t, "prefetchPool")
		run.minDuration = 7 * time.Second
		if run.cache == "off" {
			run.cache = "large"
		}
		if run.clients > 24 {
			run.clients = 24
			run.seeds = run.seeds[:24]
		}
	}
	return run
}

func TestVfC04Mixups(t *testing.T) {
	st := vfkit.Stats("TestVfC04Mixups", "runs of 8-48 concurrent clients spread over all 8 listener kinds x 60-300 queries each from a pool of 20-400 (name,type,class) triples (mixed case, with/without OPT), 2-4 upstream kinds with per-reply delays (reordering), cache off/large/tiny/second-level store (the harness's RESP3 server) alone or behind a tiny memory cache, TTL 1-60 s (one run in three prefetch-rich: TTL 5-6 s, small pool, >= 7 s of traffic), GOMAXPROCS {default,2,4}, in half of the runs a sender of messages that stop decoding half-way (datagrams and frames), against the -race -tags verif binary; oracle per response: question and keyed answer belong to this response's own query, no poison octets anywhere, no race report, no canary; non-trivial = >= 8 queries simultaneously in flight at an upstream with >= 2 listener kinds and >= 2 upstream kinds")
	defer vfkit.Flush()
	rapid.Check(t, func(t *rapid.T) {
		runWorkload(t, genRun(t, false), st, "c04")
	})
}

func TestVfC20Workload(t *testing.T) {
	st := vfkit.Stats("TestVfC20Workload", "the C04 workloads in their cancellation-rich variant: some upstream queries are never answered (request contexts expire), upstream connections are killed under load, clients disconnect mid-pipeline, tiny caches evict; oracle: zero data race reports, zero VERIF-CANARY lines (double release / write after release), no poison octets in any response or upstream query, all answers still correct; non-trivial as for C04")
	defer vfkit.Flush()
	rapid.Check(t, func(t *rapid.T) {
		run := genRun(t, true)
		if run.perClient > 150 {
			run.perClient = 150
		}
		runWorkload(t, run, st, "c20")
	})
}

// c04Query builds the query for a triple; an unsupported one (RD=0) when the triple says so.
func c04Query(tr c04Triple, id uint16, nm vfkit.Name, typ, class uint16, withOPT bool) []byte {
	q := Query(id, nm, typ, class, withOPT)
	if tr.notimp {
		q[2] &^= 0x01
	}
	return q
}
