package vfe2e

import (
	"fmt"
	"net/netip"
	"os"
	"sync"
	"testing"
	"time"

	"pgregory.net/rapid"
	"vfkit"
)

// TestVfC07PrefetchGroup: what a background refresh stores belongs to the client group whose hit started it. ECS is
// on, so every upstream query names the subnet it was made for, and the group of every fetch is known. A client of one
// group fills the cache (TTL 8 s) and hits the entry in its last quarter, which starts a refresh; then clients of the
// other groups (and of none) ask the same question. Whatever any of them is served carries the serial of a fetch made
// for a client of its own group.
func TestVfC07PrefetchGroup(t *testing.T) {
	st := vfkit.Stats("TestVfC07PrefetchGroup", "ECS and ip_marker on, memory cache, upstream TTL 8 s; per case 4-12 names, each filled by a client of a drawn group (address in the X-Client header of the http listener), hit again by that group 6.2-7.4 s later (refresh window), and asked 0.15-1.2 s after that by clients of 1-3 other groups (other range, same label in another range, no range) and once more by the first group; oracle: the serial in every response belongs to an upstream query whose ECS subnet lies in the asker's group; non-trivial = a refresh reached the upstream before the other groups asked")
	defer vfkit.Flush()
	block := NextIPBlock()
	var mu sync.Mutex
	group := map[uint32]string{} // serial -> group of the ECS subnet of the upstream query
	subnet := map[uint32]string{}
	up, err := StartUpstream("udp", "up", block+"2", 0, nil, func(q *UpQuery) UpAction {
		if q.Msg.Err != nil || len(q.Msg.Q) != 1 {
			return UpAction{}
		}
		g, sn := "?", "none"
		for _, rr := range q.Msg.Ar {
			if rr.Type != 41 {
				continue
			}
			g, sn = "", "no ECS option"
			rd := rr.RDataWire()
			for len(rd) >= 4 {
				code, l := int(rd[0])<<8|int(rd[1]), int(rd[2])<<8|int(rd[3])
				if len(rd) < 4+l {
					break
				}
				if code == 8 && l >= 4 {
					fam, bits := int(rd[4])<<8|int(rd[5]), int(rd[6])
					var a netip.Addr
					if fam == 1 {
						var b [4]byte
						copy(b[:], rd[8:4+l])
						a = netip.AddrFrom4(b)
					} else {
						var b [16]byte
						copy(b[:], rd[8:4+l])
						a = netip.AddrFrom16(b)
					}
					g, sn = c07Group(a), fmt.Sprintf("%v/%d", a, bits)
				}
				rd = rd[4+l:]
			}
		}
		mu.Lock()
		group[uint32(q.Seq)], subnet[uint32(q.Seq)] = g, sn
		mu.Unlock()
		return UpAction{Reply: EncodeMsg(KeyedAnswer(q.Msg, "c07p", uint32(q.Seq), 8, 0))}
	})
	if err != nil {
		t.Fatal(err)
	}
	defer up.Close()
	pip := block + "10"
	cfg := &Config{Servers: StdServers(pip, []string{"http"}, "X-Client"), Upstreams: []UpstreamCfg{{Tag: "up", Addr: up.Addr()}}, Rules: []Rule{{Forward: "up"}},
		Cache: &CacheCfg{MemSize: 16 << 20, IpMarker: "$DIR/marker.txt"}, ECS: &ECSCfg{Enabled: true}}
	p, err := StartProxy(cfg.YAML(), map[string]string{"marker.txt": c07Marker}, ProxyOpts{})
	if err != nil {
		t.Fatal(err)
	}
	defer p.Cleanup()
	if p.Exited() {
		t.Fatalf("proxy exited: %s", tail(p.Stderr(), 1500))
	}
	// one /24 per client: its ECS subnet lies wholly in one group
	clients := map[string][]string{
		"g1": {"127.20.3.7", "127.20.200.9"},
		"g2": {"127.21.0.44", "10.9.8.7"},
		"g":  {"127.24.1.1", "127.24.77.3"},
		"":   {"127.30.0.1", "192.0.2.55", "127.23.4.5"},
	}
	groups := []string{"g1", "g2", "g", ""}
	caseNo := 0
	rapid.Check(t, func(t *rapid.T) {
		caseNo++
		n := rapid.IntRange(4, 12).Draw(t, "names")
		type plan struct {
			label  string
			first  string
			firstA string
			hitAt  time.Duration
			others []string
			gaps   []time.Duration
		}
		plans := make([]plan, n)
		for i := range plans {
			pl := plan{label: fmt.Sprintf("r%dn%dp%d", caseNo, i, os.Getpid())}
			pl.first = rapid.SampledFrom(groups).Draw(t, "firstGroup")
			pl.firstA = rapid.SampledFrom(clients[pl.first]).Draw(t, "firstClient")
			pl.hitAt = time.Duration(rapid.IntRange(6200, 7400).Draw(t, "hitAtMs")) * time.Millisecond
			for _, g := range rapid.Permutation(groups).Draw(t, "otherGroups")[:rapid.IntRange(1, 3).Draw(t, "nOthers")] {
				pl.others = append(pl.others, g)
				pl.gaps = append(pl.gaps, time.Duration(rapid.IntRange(150, 1200).Draw(t, "gapMs"))*time.Millisecond)
			}
			plans[i] = pl
		}
		var firstErr sync.Map
		fail := func(format string, args ...any) { firstErr.LoadOrStore("e", fmt.Sprintf(format, args...)) }
		refreshed := 0
		var rmu sync.Mutex
		var wg sync.WaitGroup
		for _, pl := range plans {
			wg.Add(1)
			go func(pl plan) {
				defer wg.Done()
				name := vfkit.Name{[]byte(pl.label), []byte("pfgroup"), []byte("test")}
				ask := func(g, addr string, id uint16) {
					a := NewAsker(pip, "")
					a.Header = map[string]string{"X-Client": addr}
					defer a.Close()
					r := a.Ask("http", Query(id, name, 1, 1, false), 4*time.Second, 0)
					if len(r.Resps) != 1 || r.Resps[0].Msg.Rcode() != 0 {
						fail("%s: client %s (group %q) got no answer: %v status %d", pl.label, addr, g, r.Err, r.Status)
						return
					}
					_, _, s, ok := ParseKeyed(r.Resps[0].Msg)
					if !ok {
						fail("%s: answer without serial", pl.label)
						return
					}
					mu.Lock()
					fg, known := group[s]
					sn := subnet[s]
					mu.Unlock()
					if !known {
						fail("%s: serial %d was never sent by the upstream", pl.label, s)
						return
					}
					if fg != g {
						fail("%s: client %s of group %q was served the answer that the upstream gave to a query made for %s (group %q) - serial %d; the question was first asked by %s (group %q) and hit again in its refresh window", pl.label, addr, g, sn, fg, s, pl.firstA, pl.first)
					}
				}
				ask(pl.first, pl.firstA, 1)
				t0 := time.Now()
				time.Sleep(time.Until(t0.Add(pl.hitAt)))
				ask(pl.first, clients[pl.first][len(pl.label)%len(clients[pl.first])], 3) // another client of the same group, or the same one
				for i, g := range pl.others {
					time.Sleep(pl.gaps[i])
					if time.Since(t0) > 7800*time.Millisecond {
						break
					}
					if g == pl.first {
						continue
					}
					ask(g, clients[g][(i+len(pl.label))%len(clients[g])], uint16(4+2*i))
				}
				if time.Since(t0) < 7900*time.Millisecond {
					ask(pl.first, pl.firstA, 19)
				}
				rmu.Lock()
				refreshed++
				rmu.Unlock()
			}(pl)
		}
		wg.Wait()
		if e, ok := firstErr.Load("e"); ok {
			t.Fatalf("%v", e)
		}
		if cr := p.Crashed(); cr != "" || p.Exited() {
			t.Fatalf("proxy died: %s", cr)
		}
		st.Case(vfkit.Fingerprint(caseNo, os.Getpid(), n), refreshed > 0, nil, func() any {
			return map[string]any{"names": n, "first_groups": fmt.Sprint(plans[0].first, plans[0].others)}
		})
	})
}
