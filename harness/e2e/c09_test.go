package vfe2e

// C09 (listener level) - responses respect the transport size limit and truncate well-formedly.

import (
	"bytes"
	"fmt"
	"os"
	"sync"
	"testing"
	"time"

	"pgregory.net/rapid"
	"vfkit"
)

type c09Script struct {
	nAn, nNs, nAr int
	recLen        int
	lastLen       int // > 0: one more answer record with this many octets of text (exact frame sizes)
	tc            bool
}

func c09Records(name vfkit.Name, section string, n, recLen int) []vfkit.RR {
	out := make([]vfkit.RR, n)
	for i := range out {
		body := bytes.Repeat([]byte{byte('a' + i%26)}, recLen)
		copy(body, fmt.Sprintf("%s%05d", section, i))
		rd := append([]byte{byte(len(body))}, body...)
		out[i] = vfkit.RR{Owner: name, Type: 16, Class: 1, TTL: uint32(100 + i), RData: []vfkit.RDPart{{Raw: rd}}}
	}
	return out
}

// c09Answers is the answer section a script produces (the optional last record fixes the frame size).
func c09Answers(name vfkit.Name, sc *c09Script) []vfkit.RR {
	an := c09Records(name, "an", sc.nAn, sc.recLen)
	if sc.lastLen > 0 {
		body := bytes.Repeat([]byte{'z'}, sc.lastLen)
		an = append(an, vfkit.RR{Owner: name, Type: 16, Class: 1, TTL: 7, RData: []vfkit.RDPart{{Raw: append([]byte{byte(len(body))}, body...)}}})
	}
	return an
}

func TestVfC09Listeners(t *testing.T) {
	st := vfkit.Stats("TestVfC09Listeners", "upstream (TCP) answers of generated size (0-300 records of 8-200 octets in all sections, up to ~64 KiB, incl. messages whose compressed form fits in 64 KiB while the uncompressed does not) requested over UDP with EDNS sizes {none,300,512,600,1232,4096,65535} (in two queries of five with a type-41 record in the query's answer or authority section, which advertises nothing) and over tcp/gnet/tls/quic/http/fasthttp/https; oracles: datagram <= max(512, advertised), stream/HTTP body <= 65535 with matching prefix, decodes cleanly, TC iff records are missing, question and OPT kept, kept answer/authority records are an in-order subsequence of the upstream's; non-trivial = the limit bites or the answer is within 40 octets of it")
	defer vfkit.Flush()
	block := NextIPBlock()
	var scripts sync.Map
	up, err := StartUpstream("tcp", "up", block+"2", 0, nil, func(q *UpQuery) UpAction {
		if q.Msg.Err != nil || len(q.Msg.Q) != 1 {
			return UpAction{}
		}
		v, ok := scripts.Load(string(q.Msg.Q[0].Name[0]))
		if !ok {
			return UpAction{}
		}
		sc := v.(*c09Script)
		n := q.Msg.Q[0].Name
		m := &vfkit.Msg{ID: q.Msg.ID, Bits: vfkit.BitQR | vfkit.BitRD | vfkit.BitRA, Q: q.Msg.Q}
		m.An = c09Answers(n, sc)
		m.Ns = c09Records(n, "ns", sc.nNs, sc.recLen)
		m.Ar = c09Records(n, "ar", sc.nAr, sc.recLen)
		// compression keeps the upstream frame under 64 KiB even when the uncompressed form is larger
		w, _ := vfkit.Encode(m, vfkit.EncOpts{Compress: func() bool { return true }})
		if len(w) > 65535 {
			return UpAction{}
		}
		return UpAction{Reply: w}
	})
	if err != nil {
		t.Fatal(err)
	}
	defer up.Close()
	pip := block + "10"
	cfg := &Config{Servers: StdServers(pip, AllListenerKinds, ""), Upstreams: []UpstreamCfg{{Tag: "up", Addr: up.Addr()}}, Rules: []Rule{{Forward: "up"}}}
	p, err := StartProxy(cfg.YAML(), nil, ProxyOpts{})
	if err != nil {
		t.Fatal(err)
	}
	defer p.Cleanup()
	seq := 0
	rapid.Check(t, func(t *rapid.T) {
		seq++
		label := fmt.Sprintf("c%dp%d", seq, os.Getpid())
		name := vfkit.Name{[]byte(label), []byte("big"), []byte("test")}
		sc := &c09Script{recLen: rapid.SampledFrom([]int{8, 30, 100, 200}).Draw(t, "recLen")}
		total := 0
		switch rapid.IntRange(0, 4).Draw(t, "sizeClass") {
		case 0:
			total = rapid.IntRange(0, 6).Draw(t, "n")
		case 1:
			total = rapid.IntRange(2, 40).Draw(t, "n")
		case 2:
			total = rapid.IntRange(20, 300).Draw(t, "n")
		case 3: // close to 64 KiB uncompressed
			per := len(name.Wire()) + 10 + 1 + sc.recLen
			total = (65535-12-len(name.Wire())-4)/per + rapid.IntRange(-3, 3).Draw(t, "delta")
		default: // beyond 64 KiB uncompressed, fits compressed
			per := len(name.Wire()) + 10 + 1 + sc.recLen
			total = 65535/per + rapid.IntRange(1, 40).Draw(t, "extra")
		}
		if total < 0 {
			total = 0
		}
		// keep the compressed upstream frame within 64 KiB
		for 12+len(name.Wire())+4+total*(2+10+1+sc.recLen) > 65535 {
			total--
		}
		sc.nNs = rapid.IntRange(0, min(total, 3)).Draw(t, "nNs")
		sc.nAr = rapid.IntRange(0, min(total-sc.nNs, 3)).Draw(t, "nAr")
		sc.nAn = total - sc.nNs - sc.nAr
		if rapid.IntRange(0, 5).Draw(t, "edgeOf64K") == 0 {
			// an upstream frame of exactly 65535-delta octets (delta 0..20): the proxy's own OPT no longer fits
			sc.recLen, sc.nNs, sc.nAr = 200, 0, 0
			target := 65535 - rapid.IntRange(0, 20).Draw(t, "delta")
			base := 12 + len(name.Wire()) + 4
			sc.nAn = (target - base - 13 - 100) / 213
			sc.lastLen = target - base - sc.nAn*213 - 13
		}
		scripts.Store(label, sc)
		defer scripts.Delete(label)
		listener := rapid.SampledFrom([]string{"udp", "udp", "udp", "tcp", "gnet", "tls", "quic", "http", "fasthttp", "https"}).Draw(t, "listener")
		edns := rapid.SampledFrom([]int{-1, 0, 1, 300, 511, 512, 513, 600, 1232, 4096, 65535}).Draw(t, "edns")
		qm := &vfkit.Msg{ID: uint16(seq), Bits: vfkit.BitRD, Q: []vfkit.Question{{Name: name, Type: 16, Class: 1}}}
		optCompany := "alone"
		if edns >= 0 {
			qm.Ar = []vfkit.RR{{Type: 41, Class: uint16(edns), RData: []vfkit.RDPart{{Raw: []byte{}}}}}
			// the OPT need not be the only or the last record of the query's additional section (a signed query has a
			// record behind it): the size it advertises counts wherever it stands
			other := vfkit.RR{Owner: vfkit.Name{[]byte("key")}, Type: 65281, Class: 255, RData: []vfkit.RDPart{{Raw: []byte{1, 2, 3, 4, 5, 6, 7, 8}}}}
			switch optCompany = rapid.SampledFrom([]string{"alone", "alone", "alone", "record-behind", "record-in-front", "both"}).Draw(t, "optCompany"); optCompany {
			case "record-behind":
				qm.Ar = append(qm.Ar, other)
			case "record-in-front":
				qm.Ar = append([]vfkit.RR{other}, qm.Ar...)
			case "both":
				qm.Ar = append(append([]vfkit.RR{other}, qm.Ar...), other)
			}
		}
		// A type-41 record outside the additional section is not the client's OPT (RFC 6891 6.1.1): a query that carries
		// one in its answer or authority section advertises nothing by it.
		if decoy := rapid.SampledFrom([]string{"", "", "", "answer", "authority"}).Draw(t, "type41Elsewhere"); decoy != "" {
			rr := vfkit.RR{Type: 41, Class: rapid.SampledFrom([]uint16{1232, 4096, 65535}).Draw(t, "decoySize"), RData: []vfkit.RDPart{{Raw: []byte{}}}}
			if decoy == "answer" {
				qm.An = []vfkit.RR{rr}
			} else {
				qm.Ns = []vfkit.RR{rr}
			}
			optCompany += "+type41-in-" + decoy
		}
		a := NewAsker(pip, "")
		defer a.Close()
		res := a.AskPatient(listener, EncodeMsg(qm), 5*time.Second)
		if listener == "udp" && len(res.Resps) == 0 {
			res = a.Ask(listener, EncodeMsg(qm), 5*time.Second, 0)
		}
		desc := fmt.Sprintf("listener=%s edns=%d (OPT %s) upstream records an=%d ns=%d ar=%d of %d octets (+ last record of %d)", listener, edns, optCompany, sc.nAn, sc.nNs, sc.nAr, sc.recLen, sc.lastLen)
		if res.Err != nil || len(res.Resps) != 1 {
			t.Fatalf("no single response: err=%v n=%d status=%d; %s\n%s", res.Err, len(res.Resps), res.Status, desc, tail(p.Stderr(), 600))
		}
		r := res.Resps[0]
		limit := 65535
		if listener == "udp" {
			limit = 512
			if edns > 512 {
				limit = edns
			}
		}
		if len(r.Raw) > limit {
			t.Fatalf("response of %d octets exceeds the limit %d; %s", len(r.Raw), limit, desc)
		}
		d := r.Msg
		if !d.Clean() {
			t.Fatalf("response does not decode cleanly: err=%v counts=%v present=%v trailing=%d TC=%v; %s", d.Err, d.Counts, d.Present, d.Trailing, d.Has(vfkit.BitTC), desc)
		}
		if d.Rcode() != 0 {
			t.Fatalf("rcode %d; %s", d.Rcode(), desc)
		}
		if len(d.Q) != 1 || !d.Q[0].Name.Equal(name) {
			t.Fatalf("question not retained; %s", desc)
		}
		nOPT := 0
		var rest []vfkit.RR
		for _, rr := range d.Ar {
			if rr.Type == 41 {
				nOPT++
			} else {
				rest = append(rest, rr)
			}
		}
		if (edns >= 0) != (nOPT == 1) {
			t.Fatalf("OPT records in response: %d, query had OPT: %v; %s", nOPT, edns >= 0, desc)
		}
		wantAn, wantNs, wantAr := c09Answers(name, sc), c09Records(name, "ns", sc.nNs, sc.recLen), c09Records(name, "ar", sc.nAr, sc.recLen)
		sub := func(got, want []vfkit.RR) bool {
			j := 0
			for i := range got {
				c := got[i].Canon()
				for j < len(want) && !bytes.Equal(want[j].Canon(), c) {
					j++
				}
				if j == len(want) {
					return false
				}
				j++
			}
			return true
		}
		if !sub(d.An, wantAn) || !sub(d.Ns, wantNs) {
			t.Fatalf("kept answer/authority records are not an in-order subsequence of the upstream's records; %s", desc)
		}
		for _, rr := range rest {
			found := false
			for _, w := range wantAr {
				if bytes.Equal(w.Canon(), rr.Canon()) {
					found = true
				}
			}
			if !found {
				t.Fatalf("additional record not among the upstream's; %s", desc)
			}
		}
		missing := len(wantAn) + sc.nNs + sc.nAr - len(d.An) - len(d.Ns) - len(rest)
		if (missing > 0) != d.Has(vfkit.BitTC) {
			t.Fatalf("%d records missing but TC=%v; %s", missing, d.Has(vfkit.BitTC), desc)
		}
		full := &vfkit.Msg{Q: qm.Q, An: wantAn, Ns: wantNs, Ar: wantAr}
		fullLen := full.Len()
		if nOPT == 1 {
			fullLen += 11
		}
		if fullLen <= limit && missing > 0 {
			t.Fatalf("records omitted although the uncompressed answer (%d octets) fits the limit %d; %s", fullLen, limit, desc)
		}
		near := fullLen-limit <= 40 && limit-fullLen <= 40
		classes := []string{"listener=" + listener}
		if missing > 0 {
			classes = append(classes, "truncated")
		}
		st.Case(vfkit.Fingerprint(listener, edns, sc.nAn, sc.nNs, sc.nAr, sc.recLen), missing > 0 || near, classes, func() any {
			return map[string]any{"listener": listener, "edns": edns, "records": total, "rec_len": sc.recLen, "uncompressed_len": fullLen, "limit": limit, "response_len": len(r.Raw), "missing": missing}
		})
	})
}
