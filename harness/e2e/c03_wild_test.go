package vfe2e

// C03 on a UDP listener bound to the wildcard address with udp.multi_routes (the configuration the option exists
// for): a client that asks one of the host's other addresses talks to that address, so the one response has to come back
// from it - a connected client socket (what every stub resolver uses) never sees a datagram sent from another address.

import (
	"fmt"
	"net"
	"os"
	"testing"
	"time"

	"pgregory.net/rapid"
	"vfkit"
)

// wildPort claims a UDP port for a wildcard-bound listener: no two harness processes may share one (the reader sockets
// of a threads > 1 listener use SO_REUSEPORT, so a second proxy would bind it too and take part of the traffic). The
// claim is a TCP lock socket on the same number (a separate port space, so the proxy's UDP bind is not in the way).
func wildPort() (int, net.Listener) {
	pid := os.Getpid()
	for try := 0; try < 4000; try++ {
		p := 10000 + (pid*97+try*31)%22000 // below the ephemeral range, above the fixed listener ports
		l, err := net.Listen("tcp", fmt.Sprintf("127.255.255.254:%d", p))
		if err != nil {
			continue
		}
		// the UDP port itself must be free everywhere right now
		u, err := net.ListenPacket("udp", fmt.Sprintf(":%d", p))
		if err != nil {
			l.Close()
			continue
		}
		u.Close()
		return p, l
	}
	fmt.Println("VERIF-INCONCLUSIVE: no free port for a wildcard listener")
	os.Exit(3)
	return 0, nil
}

func TestVfC03WildcardUDP(t *testing.T) {
	st := vfkit.Stats("TestVfC03WildcardUDP", "UDP listeners on the wildcard address (forms :P, 0.0.0.0:P, [::]:P) with udp.multi_routes and threads in {1,2,4}; 1-6 fresh client sockets (connected, or unconnected and recording the source of what comes back; bound to an address of the block or left to the kernel) each ask 1-3 questions of one drawn local address (127.0.0.1, addresses of the private block); oracle: every query gets exactly one response with its ID and question on the socket it was sent from, coming from the address that was asked; non-trivial = threads >= 2 and an address other than 127.0.0.1")
	defer vfkit.Flush()
	block := NextIPBlock()
	up, err := StartUpstream("udp", "up", block+"2", 0, nil, func(q *UpQuery) UpAction {
		if q.Msg.Err != nil || len(q.Msg.Q) != 1 {
			return UpAction{}
		}
		return UpAction{Reply: EncodeMsg(KeyedAnswer(q.Msg, "c03w", 0, 60, 0))}
	})
	if err != nil {
		t.Fatal(err)
	}
	defer up.Close()
	type wp struct {
		p       *Proxy
		port    int
		threads int
		form    string
	}
	var proxies []*wp
	for _, c := range []struct {
		threads int
		form    string
	}{{1, ":%d"}, {2, "0.0.0.0:%d"}, {4, "[::]:%d"}, {4, ":%d"}} {
		port, lock := wildPort()
		defer lock.Close()
		u := map[string]any{"multi_routes": true}
		if c.threads > 1 {
			u["threads"] = c.threads
		}
		cfg := &Config{
			Servers:   []ServerCfg{{Tag: "udp", Protocol: "udp", Listen: fmt.Sprintf(c.form, port), Extra: map[string]any{"udp": u}}},
			Upstreams: []UpstreamCfg{{Tag: "up", Addr: up.Addr()}},
			Rules:     []Rule{{Forward: "up"}},
		}
		p, err := StartProxy(cfg.YAML(), nil, ProxyOpts{})
		if err != nil {
			t.Fatal(err)
		}
		defer p.Cleanup()
		if p.Exited() {
			t.Fatalf("proxy with listener %s did not start: %s", fmt.Sprintf(c.form, port), tail(p.Stderr(), 600))
		}
		proxies = append(proxies, &wp{p, port, c.threads, c.form})
	}
	caseNo := 0
	rapid.Check(t, func(t *rapid.T) {
		caseNo++
		P := proxies[rapid.IntRange(0, len(proxies)-1).Draw(t, "proxy")]
		dstIP := "127.0.0.1"
		if rapid.IntRange(0, 4).Draw(t, "otherAddress") > 0 {
			dstIP = block + itoa(rapid.IntRange(20, 250).Draw(t, "host"))
		}
		dst := &net.UDPAddr{IP: net.ParseIP(dstIP), Port: P.port}
		nSock := rapid.IntRange(1, 6).Draw(t, "sockets")
		desc := fmt.Sprintf("listener %s threads=%d multi_routes, asked address %s", fmt.Sprintf(P.form, P.port), P.threads, dst)
		type sent struct {
			id   uint16
			name vfkit.Name
		}
		for si := 0; si < nSock; si++ {
			connected := rapid.Bool().Draw(t, "connected")
			var laddr *net.UDPAddr
			if rapid.Bool().Draw(t, "boundSource") {
				laddr = &net.UDPAddr{IP: net.ParseIP(block + "9")}
			}
			var c *net.UDPConn
			var err error
			if connected {
				c, err = net.DialUDP("udp", laddr, dst)
			} else {
				if laddr == nil {
					laddr = &net.UDPAddr{IP: net.IPv4zero}
				}
				c, err = net.ListenUDP("udp4", laddr)
			}
			if err != nil {
				t.Fatalf("client socket: %v", err)
			}
			nq := rapid.IntRange(1, 3).Draw(t, "queries")
			var qs []sent
			for qi := 0; qi < nq; qi++ {
				s := sent{id: uint16(caseNo*32 + si*4 + qi), name: vfkit.Name{[]byte(fmt.Sprintf("w%ds%dq%dx%d", caseNo, si, qi, os.Getpid())), []byte("c03w"), []byte("test")}}
				qs = append(qs, s)
				w := Query(s.id, s.name, 1, 1, false)
				if connected {
					_, err = c.Write(w)
				} else {
					_, err = c.WriteToUDP(w, dst)
				}
				if err != nil {
					c.Close()
					t.Fatalf("send: %v", err)
				}
			}
			got := map[uint16]int{}
			buf := make([]byte, 4096)
			deadline := time.Now().Add(8 * time.Second)
			for len(got) < nq {
				c.SetReadDeadline(deadline)
				n, from, err := c.ReadFromUDP(buf)
				if err != nil {
					break
				}
				r := newResp(buf[:n])
				if !r.Msg.Clean() {
					c.Close()
					t.Fatalf("malformed response; %s", desc)
				}
				var q *sent
				for i := range qs {
					if qs[i].id == r.Msg.ID {
						q = &qs[i]
					}
				}
				if q == nil || len(r.Msg.Q) != 1 || !r.Msg.Q[0].Name.EqualFold(q.name) || !r.Msg.Has(vfkit.BitQR) || r.Msg.Rcode() != 0 {
					c.Close()
					t.Fatalf("response %s matches no query of this socket; %s", r.Msg.Msg.String(), desc)
				}
				if !from.IP.Equal(dst.IP) || from.Port != dst.Port {
					c.Close()
					t.Fatalf("the response to a query sent to %s came from %s (a connected client never sees it); %s", dst, from, desc)
				}
				got[r.Msg.ID]++
				if got[r.Msg.ID] > 1 {
					c.Close()
					t.Fatalf("two responses to query ID %d; %s", r.Msg.ID, desc)
				}
			}
			if len(got) < nq {
				c.Close()
				t.Fatalf("%d of %d queries of a %s client socket got no response within 8 s; %s\n%s", nq-len(got), nq, map[bool]string{true: "connected", false: "unconnected"}[connected], desc, tail(P.p.Stderr(), 400))
			}
			// a duplicate would follow shortly
			c.SetReadDeadline(time.Now().Add(3 * time.Millisecond))
			if n, _, err := c.ReadFromUDP(buf); err == nil {
				c.Close()
				t.Fatalf("an extra datagram of %d octets after every query was answered; %s", n, desc)
			}
			c.Close()
		}
		if P.p.Exited() {
			t.Fatalf("proxy exited; %s\n%s", desc, tail(P.p.Stderr(), 800))
		}
		st.Case(vfkit.Fingerprint(caseNo, os.Getpid()), P.threads >= 2 && dstIP != "127.0.0.1", []string{fmt.Sprintf("threads=%d", P.threads), "form=" + P.form, map[bool]string{true: "primary-address", false: "other-address"}[dstIP == "127.0.0.1"]}, func() any {
			return map[string]any{"listener": fmt.Sprintf(P.form, P.port), "threads": P.threads, "asked": dst.String(), "sockets": nSock}
		})
	})
}
