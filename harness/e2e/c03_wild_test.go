package vfe2e

// C03 on a UDP listener bound to the wildcard address with udp.multi_routes (the configuration the option exists
// for): a client that asks one of the host's other addresses talks to that address, so the one response has to come back
// from it - a connected client socket (what every stub resolver uses) never sees a datagram sent from another address.

import (
	"fmt"
	"net"
	"os"
	"strings"
	"sync"
	"testing"
	"time"

	"pgregory.net/rapid"
	"vfkit"
)

// wildPort claims a UDP port for a wildcard-bound listener: no two harness processes may share one (the reader sockets
// of a threads > 1 listener use SO_REUSEPORT, so a second proxy would bind it too and take part of the traffic). The
// claim is a TCP lock socket on the same number (a separate port space, so the proxy's UDP bind is not in the way).
func wildPort() (int, net.Listener) {
	pid := os.Getpid()
	for try := 0; try < 4000; try++ {
		p := 10000 + (pid*97+try*31)%22000 // below the ephemeral range, above the fixed listener ports
		l, err := net.Listen("tcp", fmt.Sprintf("127.255.255.254:%d", p))
		if err != nil {
			continue
		}
		// the UDP port itself must be free everywhere right now
		u, err := net.ListenPacket("udp", fmt.Sprintf(":%d", p))
		if err != nil {
			l.Close()
			continue
		}
		u.Close()
		return p, l
	}
	fmt.Println("VERIF-INCONCLUSIVE: no free port for a wildcard listener")
	os.Exit(3)
	return 0, nil
}

func TestVfC03WildcardUDP(t *testing.T) {
	st := vfkit.Stats("TestVfC03WildcardUDP", "UDP listeners on the wildcard address (forms :P, 0.0.0.0:P, [::]:P) with udp.multi_routes and threads in {1,2,4}; 1-6 fresh client sockets (connected, or unconnected and recording the source of what comes back; bound to an address of the block or left to the kernel) each ask 1-3 questions of a local address (127.0.0.1, addresses of the private block, ::1 on the dual-stack forms; one address per case or one per socket), all in flight together with drawn gaps, the upstream answering at once or after 20-400 ms; two of the six proxies have a client limiter of 1/s, burst 2, so that most of their responses are REFUSED; oracle: every query gets exactly one response with its ID and question on the socket it was sent from, coming from the address that was asked; non-trivial = threads >= 2 and an IPv4 address other than 127.0.0.1")
	defer vfkit.Flush()
	block := NextIPBlock()
	var delays sync.Map // first label -> delay of the upstream reply
	up, err := StartUpstream("udp", "up", block+"2", 0, nil, func(q *UpQuery) UpAction {
		if q.Msg.Err != nil || len(q.Msg.Q) != 1 {
			return UpAction{}
		}
		a := UpAction{Reply: EncodeMsg(KeyedAnswer(q.Msg, "c03w", 0, 60, 0))}
		if d, ok := delays.Load(strings.ToLower(string(q.Msg.Q[0].Name[0]))); ok {
			a.Delay = d.(time.Duration)
		}
		return a
	})
	if err != nil {
		t.Fatal(err)
	}
	defer up.Close()
	type wp struct {
		p       *Proxy
		port    int
		threads int
		form    string
		limited bool // a client limiter so tight that most queries are REFUSED: those responses, too, come from the address asked
	}
	var proxies []*wp
	for _, c := range []struct {
		threads int
		form    string
		limited bool
	}{{1, ":%d", false}, {2, "0.0.0.0:%d", false}, {4, "[::]:%d", false}, {4, ":%d", false}, {2, ":%d", true}, {1, "0.0.0.0:%d", true}} {
		port, lock := wildPort()
		defer lock.Close()
		u := map[string]any{"multi_routes": true}
		if c.threads > 1 {
			u["threads"] = c.threads
		}
		cfg := &Config{
			Servers:   []ServerCfg{{Tag: "udp", Protocol: "udp", Listen: fmt.Sprintf(c.form, port), Extra: map[string]any{"udp": u}}},
			Upstreams: []UpstreamCfg{{Tag: "up", Addr: up.Addr()}},
			Rules:     []Rule{{Forward: "up"}},
		}
		if c.limited {
			cfg.Limiter = &LimiterCfg{Client: &ClientLimiterCfg{Limit: 1, Burst: 2}}
		}
		p, err := StartProxy(cfg.YAML(), nil, ProxyOpts{})
		if err != nil {
			t.Fatal(err)
		}
		defer p.Cleanup()
		if p.Exited() {
			t.Fatalf("proxy with listener %s did not start: %s", fmt.Sprintf(c.form, port), tail(p.Stderr(), 600))
		}
		proxies = append(proxies, &wp{p, port, c.threads, c.form, c.limited})
	}
	caseNo := 0
	rapid.Check(t, func(t *rapid.T) {
		caseNo++
		P := proxies[rapid.IntRange(0, len(proxies)-1).Draw(t, "proxy")]
		genDst := func() (string, bool) {
			if P.form != "0.0.0.0:%d" && rapid.IntRange(0, 5).Draw(t, "askV6") == 0 {
				return "::1", true // the dual-stack forms serve the host's IPv6 address too
			}
			if rapid.IntRange(0, 4).Draw(t, "otherAddress") > 0 {
				return block + itoa(rapid.IntRange(20, 250).Draw(t, "host")), false
			}
			return "127.0.0.1", false
		}
		nSock := rapid.IntRange(1, 6).Draw(t, "sockets")
		sameDst := rapid.Bool().Draw(t, "allAskTheSameAddress")
		firstDst, firstV6 := genDst()
		type sent struct {
			id   uint16
			name vfkit.Name
		}
		type sock struct {
			c         *net.UDPConn
			dst       *net.UDPAddr
			v6        bool
			connected bool
			qs        []sent
		}
		var socks []*sock
		defer func() {
			for _, k := range socks {
				k.c.Close()
			}
		}()
		nontrivial := false
		dsts := map[string]bool{}
		for si := 0; si < nSock; si++ {
			k := &sock{connected: rapid.Bool().Draw(t, "connected")}
			dstIP, v6 := firstDst, firstV6
			if !sameDst && si > 0 {
				dstIP, v6 = genDst()
			}
			k.v6, k.dst = v6, &net.UDPAddr{IP: net.ParseIP(dstIP), Port: P.port}
			dsts[dstIP] = true
			if P.threads >= 2 && dstIP != "127.0.0.1" && !v6 {
				nontrivial = true
			}
			var laddr *net.UDPAddr
			if rapid.Bool().Draw(t, "boundSource") && !v6 {
				laddr = &net.UDPAddr{IP: net.ParseIP(block + "9")}
			}
			var err error
			switch {
			case k.connected:
				k.c, err = net.DialUDP("udp", laddr, k.dst)
			case v6:
				k.c, err = net.ListenUDP("udp6", &net.UDPAddr{IP: net.IPv6zero})
			default:
				if laddr == nil {
					laddr = &net.UDPAddr{IP: net.IPv4zero}
				}
				k.c, err = net.ListenUDP("udp4", laddr)
			}
			if err != nil {
				t.Fatalf("client socket: %v", err)
			}
			socks = append(socks, k)
			for qi, nq := 0, rapid.IntRange(1, 3).Draw(t, "queries"); qi < nq; qi++ {
				label := fmt.Sprintf("w%ds%dq%dx%d", caseNo, si, qi, os.Getpid())
				// the upstream answers at once or late: a query waits in the proxy while later datagrams (to other
				// addresses) pass through the same reader
				if d := rapid.SampledFrom([]int{0, 0, 20, 150, 400}).Draw(t, "upstreamDelayMs"); d > 0 {
					delays.Store(label, time.Duration(d)*time.Millisecond)
					defer delays.Delete(label)
				}
				k.qs = append(k.qs, sent{id: uint16(caseNo*32 + si*4 + qi), name: vfkit.Name{[]byte(label), []byte("c03w"), []byte("test")}})
			}
		}
		desc := fmt.Sprintf("listener %s threads=%d multi_routes, %d client sockets asking %d local addresses", fmt.Sprintf(P.form, P.port), P.threads, nSock, len(dsts))
		// all queries go out before anything is collected, socket by socket in rounds, with drawn gaps
		for round := 0; round < 3; round++ {
			for _, k := range socks {
				if round >= len(k.qs) {
					continue
				}
				w := Query(k.qs[round].id, k.qs[round].name, 1, 1, false)
				var err error
				if k.connected {
					_, err = k.c.Write(w)
				} else {
					_, err = k.c.WriteToUDP(w, k.dst)
				}
				if err != nil {
					t.Fatalf("send: %v", err)
				}
				if g := rapid.SampledFrom([]int{0, 0, 1, 5}).Draw(t, "gapMs"); g > 0 {
					time.Sleep(time.Duration(g) * time.Millisecond)
				}
			}
		}
		deadline := time.Now().Add(8 * time.Second)
		if P.limited {
			deadline = time.Now().Add(4 * time.Second) // answers and refusals come within half a second here
		}
		buf := make([]byte, 4096)
		refused := 0
		for _, k := range socks {
			got := map[uint16]int{}
			for len(got) < len(k.qs) {
				k.c.SetReadDeadline(deadline)
				n, from, err := k.c.ReadFromUDP(buf)
				if err != nil {
					break
				}
				r := newResp(buf[:n])
				if !r.Msg.Clean() {
					t.Fatalf("malformed response; %s", desc)
				}
				var q *sent
				for i := range k.qs {
					if k.qs[i].id == r.Msg.ID {
						q = &k.qs[i]
					}
				}
				if r.Msg.Rcode() == 5 && P.limited {
					refused++
				}
				if q == nil || len(r.Msg.Q) != 1 || !r.Msg.Q[0].Name.EqualFold(q.name) || !r.Msg.Has(vfkit.BitQR) || (r.Msg.Rcode() != 0 && !(P.limited && r.Msg.Rcode() == 5)) {
					t.Fatalf("response %s matches no query of the socket it arrived on; %s", r.Msg.Msg.String(), desc)
				}
				if !from.IP.Equal(k.dst.IP) || from.Port != k.dst.Port {
					t.Fatalf("the response to a query sent to %s came from %s (a connected client never sees it); %s", k.dst, from, desc)
				}
				got[r.Msg.ID]++
				if got[r.Msg.ID] > 1 {
					t.Fatalf("two responses to query ID %d; %s", r.Msg.ID, desc)
				}
			}
			if len(got) < len(k.qs) {
				t.Fatalf("%d of %d queries of a %s client socket that asked %s got no response within 8 s; %s\n%s", len(k.qs)-len(got), len(k.qs), map[bool]string{true: "connected", false: "unconnected"}[k.connected], k.dst, desc, tail(P.p.Stderr(), 400))
			}
		}
		// a duplicate would follow shortly
		time.Sleep(3 * time.Millisecond)
		for _, k := range socks {
			k.c.SetReadDeadline(time.Now().Add(time.Millisecond))
			if n, _, err := k.c.ReadFromUDP(buf); err == nil {
				t.Fatalf("an extra datagram of %d octets after every query was answered; %s", n, desc)
			}
		}
		if P.p.Exited() {
			t.Fatalf("proxy exited; %s\n%s", desc, tail(P.p.Stderr(), 800))
		}
		st.Case(vfkit.Fingerprint(caseNo, os.Getpid()), nontrivial, []string{fmt.Sprintf("threads=%d", P.threads), "form=" + P.form, fmt.Sprintf("addresses-asked=%d", len(dsts)), fmt.Sprintf("limiter=%v", P.limited), fmt.Sprintf("refused-by-the-limiter=%v", refused > 0)}, func() any {
			return map[string]any{"listener": fmt.Sprintf(P.form, P.port), "threads": P.threads, "sockets": nSock, "addresses": len(dsts)}
		})
	})
}
