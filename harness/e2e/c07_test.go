package vfe2e

// C07 (black box) - cached answers go only to the same question and client group, unchanged; an
// identical repeat is served from the cache.

import (
	"bytes"
	"fmt"
	"net/netip"
	"os"
	"strings"
	"sync"
	"testing"
	"time"

	"pgregory.net/rapid"
	"vfkit"
)

const c07Marker = `# client groups
127.20.0.0,127.20.255.255,g1
127.21.0.0,127.21.0.255,g2   # a /24
127.22.0.5,127.22.0.5,g1     # single address, same label as another range
10.0.0.0,10.255.255.255,g2
2001:db8::,2001:db8::ffff,g1
2001:db8:1::,2001:db8:1::ff,g3
127.24.0.0,127.24.255.255,g    # a label that another one ("g1") continues
`

func c07Group(a netip.Addr) string {
	if !a.IsValid() {
		return ""
	}
	a = a.Unmap()
	for _, r := range []struct{ s, e, l string }{
		{"127.20.0.0", "127.20.255.255", "g1"}, {"127.21.0.0", "127.21.0.255", "g2"}, {"127.22.0.5", "127.22.0.5", "g1"},
		{"10.0.0.0", "10.255.255.255", "g2"}, {"2001:db8::", "2001:db8::ffff", "g1"}, {"2001:db8:1::", "2001:db8:1::ff", "g3"}, {"127.24.0.0", "127.24.255.255", "g"}} {
		s, e := netip.MustParseAddr(r.s), netip.MustParseAddr(r.e)
		if a.BitLen() == s.BitLen() && s.Compare(a) <= 0 && a.Compare(e) <= 0 {
			return r.l
		}
	}
	return ""
}

type c07Client struct {
	via  string // udp, header, unix
	addr netip.Addr
}

func c07GenClient(t *rapid.T) c07Client {
	switch rapid.IntRange(0, 9).Draw(t, "clientKind") {
	case 0:
		return c07Client{"udp", netip.AddrFrom4([4]byte{127, 20, byte(rapid.IntRange(0, 255).Draw(t, "c")), byte(rapid.IntRange(1, 254).Draw(t, "d"))})}
	case 1:
		return c07Client{"udp", netip.AddrFrom4([4]byte{127, 21, byte(rapid.IntRange(0, 1).Draw(t, "c")), byte(rapid.IntRange(1, 254).Draw(t, "d"))})}
	case 2:
		return c07Client{"udp", netip.AddrFrom4([4]byte{127, 22, 0, byte(rapid.IntRange(4, 6).Draw(t, "d"))})}
	case 3:
		return c07Client{"header", netip.AddrFrom4([4]byte{10, byte(rapid.IntRange(0, 255).Draw(t, "b")), 1, 1})}
	case 4:
		return c07Client{"header", netip.AddrFrom16(netip.AddrFrom4([4]byte{10, 9, 8, byte(rapid.IntRange(1, 200).Draw(t, "d"))}).As16())}
	case 5:
		x := netip.MustParseAddr("2001:db8::").As16()
		x[13] = byte(rapid.IntRange(0, 1).Draw(t, "hi")) // ::1:xxxx is outside ::-::ffff
		x[15] = byte(rapid.IntRange(0, 255).Draw(t, "lo"))
		return c07Client{"header", netip.AddrFrom16(x)}
	case 6:
		x := netip.MustParseAddr("2001:db8:1::").As16()
		x[15] = byte(rapid.IntRange(0, 255).Draw(t, "lo"))
		x[14] = byte(rapid.IntRange(0, 1).Draw(t, "hi"))
		return c07Client{"header", netip.AddrFrom16(x)}
	case 7:
		return c07Client{"header", netip.MustParseAddr("192.0.2.77")}
	case 8:
		return c07Client{"unix", netip.Addr{}}
	default:
		return c07Client{"udp", netip.AddrFrom4([4]byte{127, 23, 0, byte(rapid.IntRange(1, 254).Draw(t, "d"))})}
	}
}

type c07Key struct {
	name  string
	typ   uint16
	class uint16
	group string
}

// c07Normalize zeroes what may legitimately differ between two responses built from one upstream answer.
func c07Normalize(d *vfkit.Decoded) string {
	m := d.Msg
	m.ID = 0
	var sb strings.Builder
	fmt.Fprintf(&sb, "bits=%04x|", m.Bits&vfkit.HeaderMask)
	for _, q := range m.Q {
		fmt.Fprintf(&sb, "q=%s/%d/%d|", q.Name.Lower(), q.Type, q.Class)
	}
	for si, s := range m.Sections() {
		for _, r := range s {
			if r.Type == 41 {
				continue
			}
			r.TTL = 0
			fmt.Fprintf(&sb, "%d:%x|", si, r.Canon())
		}
	}
	return sb.String()
}

func TestVfC07Cache(t *testing.T) {
	st := vfkit.Stats("TestVfC07Cache", "histories of 8-24 queries around one base question that differ from it in exactly one of {letter case, name, class, type, client group (other range, same range, same label in another range, no range, unknown address)}, sequential and in concurrent bursts, against proxies with an ample memory cache, a tiny one, and none but a second-level store (the harness's RESP3 server); upstream answers carry a serial unique per upstream query (TTL 300), random flags/sections and, for one name in three, 28 glue records (about 3 KiB uncompressed); oracles: all queries answered with one serial agree on (lower-cased name, class, type, group), responses with one serial are equal apart from ID/TTL, and (ample cache) a repeat of an already answered key causes no upstream query; non-trivial = history contains a pair differing in exactly one component after the first was cached")
	defer vfkit.Flush()
	block := NextIPBlock()
	up, err := StartUpstream("udp", "up", block+"2", 0, nil, func(q *UpQuery) UpAction {
		if q.Msg.Err != nil || len(q.Msg.Q) != 1 {
			return UpAction{}
		}
		m := KeyedAnswer(q.Msg, "c07", uint32(q.Seq), 300, 0)
		n := q.Msg.Q[0].Name
		h := KeyedRData(n, q.Msg.Q[0].Type, q.Msg.Q[0].Class, "flags")
		if h[0]&1 != 0 {
			m.Bits |= vfkit.BitAA
		}
		if h[0]&2 != 0 {
			m.Bits |= vfkit.BitAD
		}
		if h[0]&4 != 0 {
			m.Bits |= vfkit.BitCD
		}
		if h[1]&3 == 0 {
			m.Bits |= 3 // NXDOMAIN (cached up to 30 s)
		}
		m.Ns = []vfkit.RR{
			{Owner: n[1:], Type: 2, Class: q.Msg.Q[0].Class, TTL: 300, RData: []vfkit.RDPart{{IsName: true, Name: vfkit.Name{[]byte("ns2"), []byte("vf")}}}},
			{Owner: n[1:], Type: 2, Class: q.Msg.Q[0].Class, TTL: 301, RData: []vfkit.RDPart{{IsName: true, Name: vfkit.Name{[]byte("ns1"), []byte("vf")}}}},
		}
		m.Ar = []vfkit.RR{{Owner: vfkit.Name{[]byte("ns1"), []byte("vf")}, Type: 1, Class: 1, TTL: 302, RData: []vfkit.RDPart{{Raw: h}}}}
		if h[2]%3 == 0 && n.WireLen() < 150 {
			// a bulky answer for one name in three: small on the wire thanks to compression (about 700 octets), some 3 KiB
			// without - whatever the cache stores must give back all of it
			long := append(vfkit.Name{[]byte("a-rather-long-label-of-glue"), []byte("and-another-one-just-as-long")}, n...)
			for i := 0; i < 28; i++ {
				m.Ar = append(m.Ar, vfkit.RR{Owner: long, Type: 1, Class: 1, TTL: 300, RData: []vfkit.RDPart{{Raw: []byte{10, h[3], byte(i), 1}}}})
			}
		}
		return UpAction{Reply: EncodeMsg(m)}
	})
	if err != nil {
		t.Fatal(err)
	}
	defer up.Close()
	type px struct {
		p    *Proxy
		ip   string
		unix string
	}
	// the third proxy keeps its cache in the harness's own RESP3 store only (second-level cache, kit/fakeredis.go)
	store, err := vfkit.StartFakeRedis(block + "3")
	if err != nil {
		t.Fatal(err)
	}
	defer store.Close()
	proxies := map[string]*px{}
	for i, mode := range []string{"large", "tiny", "store"} {
		pip := block + itoa(10+i)
		unix := fmt.Sprintf("@vf-c07-%d-%d", os.Getpid(), i)
		cc := &CacheCfg{MemSize: 64 << 20, IpMarker: "$DIR/marker.txt"}
		switch mode {
		case "tiny":
			cc.MemSize = 3000
		case "store":
			cc.MemSize, cc.Redis = 0, store.URL()
		}
		cfg := &Config{Servers: StdServers(pip, []string{"udp", "http"}, "X-Client"),
			Upstreams: []UpstreamCfg{{Tag: "up", Addr: up.Addr()}}, Rules: []Rule{{Forward: "up"}},
			Cache: cc}
		cfg.Servers = append(cfg.Servers, ServerCfg{Tag: "unix", Protocol: "http", Listen: unix})
		p, err := StartProxy(cfg.YAML(), map[string]string{"marker.txt": c07Marker}, ProxyOpts{})
		if err != nil {
			t.Fatal(err)
		}
		defer p.Cleanup()
		if p.Exited() {
			t.Fatalf("proxy exited: %s", tail(p.Stderr(), 1500))
		}
		proxies[mode] = &px{p, pip, unix}
	}
	for until := time.Now().Add(5 * time.Second); store.Pings.Load() < 2 && time.Now().Before(until); {
		time.Sleep(20 * time.Millisecond) // the proxy uses the store after its first successful PING
	}
	seq := 0
	rapid.Check(t, func(t *rapid.T) {
		seq++
		mode := rapid.SampledFrom([]string{"large", "large", "tiny", "store"}).Draw(t, "cacheMode")
		tiny := mode == "tiny"
		P := proxies[mode]
		storeHitsBefore := store.Hits.Load()
		// a drawn tail over the whole alphabet: the case folding of every letter is on the path
		label := fmt.Sprintf("c%dp%d", seq, os.Getpid()) + rapid.StringMatching("[a-z]{0,6}").Draw(t, "labelTail")
		baseName := vfkit.Name{[]byte("_" + label), []byte("cache"), []byte("test")}
		otherName := vfkit.Name{[]byte(label + "x"), []byte("cache"), []byte("test")}
		if rapid.Bool().Draw(t, "bit5Twin") {
			// the "other name" differs from the base only in bit 0x20 of a non-letter octet ('_' vs DEL)
			otherName = vfkit.Name{[]byte("\x7f" + label), []byte("cache"), []byte("test")}
		}
		baseType := rapid.SampledFrom([]uint16{1, 28, 16}).Draw(t, "type")
		baseClass := rapid.SampledFrom([]uint16{1, 1, 3}).Draw(t, "class")
		n := rapid.IntRange(8, 24).Draw(t, "nAsks")
		type ask struct {
			name   vfkit.Name
			typ    uint16
			class  uint16
			client c07Client
			burst  int
		}
		asks := make([]ask, n)
		reSplit := false
		for i := range asks {
			a := ask{name: baseName, typ: baseType, class: baseClass, client: c07GenClient(t), burst: 1}
			switch rapid.IntRange(0, 7).Draw(t, "vary") {
			case 0: // letter case only
				a.name = vfkit.Name{[]byte("_" + strings.ToUpper(label)), []byte("CaChE"), []byte("tEST")}
				if mask := rapid.Uint32().Draw(t, "caseMask"); mask&1 != 0 { // per-letter mix instead of all upper
					l := []byte("_" + label)
					for j := range l {
						if mask&(1<<uint(1+j%31)) != 0 && 'a' <= l[j] && l[j] <= 'z' {
							l[j] -= 'a' - 'A'
						}
					}
					a.name[0] = l
				}
			case 1:
				a.name = otherName
			case 2:
				a.class = rapid.SampledFrom([]uint16{1, 3, 4, 255, 254}).Draw(t, "otherClass")
			case 3:
				a.typ = rapid.SampledFrom([]uint16{1, 28, 16, 15, 255}).Draw(t, "otherType")
			case 4:
				a.burst = rapid.IntRange(2, 6).Draw(t, "burst")
			}
			asks[i] = a
		}
		// One history in three also contains a pair of questions whose name, class, type and group label spell the same
		// octet string when written one after the other: (base + ".z", IN, type 'g''1', client in no group) and
		// (base, class 0x01'z', type A, client in group "g1") - likewise for "g2". Four components of variable total length:
		// a key has to keep them apart.
		if n >= 4 && rapid.IntRange(0, 2).Draw(t, "reSplitTwins") == 0 {
			grp := rapid.SampledFrom([]byte{'1', '2'}).Draw(t, "twinGroup")
			inGroup := c07Client{"udp", netip.AddrFrom4([4]byte{127, 20, 7, byte(rapid.IntRange(1, 254).Draw(t, "twinHost"))})}
			if grp == '2' {
				inGroup = c07Client{"udp", netip.AddrFrom4([4]byte{127, 21, 0, byte(rapid.IntRange(1, 254).Draw(t, "twinHost2"))})}
			}
			noGroup := c07Client{"udp", netip.AddrFrom4([4]byte{127, 23, 0, byte(rapid.IntRange(1, 254).Draw(t, "twinHost3"))})}
			long := ask{name: append(append(vfkit.Name{}, baseName...), []byte("z")), typ: uint16('g')<<8 | uint16(grp), class: 1, client: noGroup, burst: 1}
			short := ask{name: baseName, typ: 1, class: 0x0100 | uint16('z'), client: inGroup, burst: 1}
			j := rapid.IntRange(0, n-2).Draw(t, "twinAt")
			k := rapid.IntRange(j+1, n-1).Draw(t, "twinAt2")
			if rapid.Bool().Draw(t, "shortFirst") {
				asks[j], asks[k] = short, long
			} else {
				asks[j], asks[k] = long, short
			}
			reSplit = true
		}
		// ... and one in three a pair for keys that put the group label in front of the name: groups "g" and "g1", where
		// the '1' (49) is the length of the longer name (keys that write the name's length) or of its first label (keys that
		// do not), and the rest of the longer name spells the shorter one.
		if n >= 4 && rapid.IntRange(0, 2).Draw(t, "frontTwins") == 0 {
			inG := c07Client{"udp", netip.AddrFrom4([4]byte{127, 24, 0, byte(rapid.IntRange(1, 254).Draw(t, "frontHost"))})}
			inG1 := c07Client{"udp", netip.AddrFrom4([4]byte{127, 20, 9, byte(rapid.IntRange(1, 254).Draw(t, "frontHost1"))})}
			var long, short ask
			if rapid.Bool().Draw(t, "frontWithNameLength") {
				// shorter name: 48 octets on the wire (one label of 47); longer name: one label of 48 octets = those 48
				lbl := []byte(label)
				for len(lbl) < 47 {
					lbl = append(lbl, 'b')
				}
				short = ask{name: vfkit.Name{lbl[:47]}, typ: 1, class: 1, client: inG1, burst: 1}
				long = ask{name: vfkit.Name{short.name.WireNoRoot()}, typ: 1, class: 1, client: inG, burst: 1}
			} else {
				// shorter name: first label of 48 octets; longer name: first label of 49 = the octet 48 + those 48
				lbl := []byte(label)
				for len(lbl) < 48 {
					lbl = append(lbl, 'b')
				}
				short = ask{name: vfkit.Name{lbl[:48], []byte("cache"), []byte("test")}, typ: 1, class: 1, client: inG1, burst: 1}
				long = ask{name: vfkit.Name{append([]byte{48}, lbl[:48]...), []byte("cache"), []byte("test")}, typ: 1, class: 1, client: inG, burst: 1}
			}
			j := rapid.IntRange(0, n-2).Draw(t, "frontAt")
			k := rapid.IntRange(j+1, n-1).Draw(t, "frontAt2")
			if rapid.Bool().Draw(t, "frontShortFirst") {
				asks[j], asks[k] = short, long
			} else {
				asks[j], asks[k] = long, short
			}
			reSplit = true
		}
		// per-serial bookkeeping
		type seen struct {
			key  c07Key
			norm string
		}
		bySerial := map[uint32]seen{}
		answered := map[c07Key]bool{}
		var mu sync.Mutex
		single := false
		doAsk := func(a ask, id uint16) (*Resp, error) {
			q := Query(id, a.name, a.typ, a.class, false)
			switch a.client.via {
			case "udp":
				as := NewAsker(P.ip, a.client.addr.String())
				defer as.Close()
				res := as.AskPatient("udp", q, 3*time.Second)
				if len(res.Resps) == 0 {
					res = as.Ask("udp", q, 3*time.Second, 0)
				}
				if len(res.Resps) != 1 {
					return nil, fmt.Errorf("%d responses", len(res.Resps))
				}
				return res.Resps[0], nil
			case "header":
				as := NewAsker(P.ip, "")
				defer as.Close()
				as.Header = map[string]string{"X-Client": a.client.addr.String()}
				res := as.AskPatient("http", q, 3*time.Second)
				if res.Err != nil || len(res.Resps) != 1 {
					return nil, fmt.Errorf("err=%v status=%d", res.Err, res.Status)
				}
				return res.Resps[0], nil
			default:
				c := NewDoHClient("http", "", P.unix, nil)
				defer c.Close()
				r, err := c.Do("POST", q, nil)
				if err != nil || r.Status != 200 {
					return nil, fmt.Errorf("unix: %v", err)
				}
				return r, nil
			}
		}
		for i, a := range asks {
			key := c07Key{string(a.name.Lower().Wire()), a.typ, a.class, c07Group(a.client.addr)}
			before := up.NumQueries()
			already := answered[key]
			results := make([]*Resp, a.burst)
			errs := make([]error, a.burst)
			var wg sync.WaitGroup
			for b := 0; b < a.burst; b++ {
				wg.Add(1)
				go func(b int) {
					defer wg.Done()
					results[b], errs[b] = doAsk(a, uint16(seq*64+i*8+b))
				}(b)
			}
			wg.Wait()
			desc := fmt.Sprintf("ask %d of history: name=%s type=%d class=%d client=%s/%v group=%q burst=%d cache=%s", i, a.name, a.typ, a.class, a.client.via, a.client.addr, key.group, a.burst, mode)
			for b := range results {
				if errs[b] != nil {
					t.Fatalf("no response: %v; %s", errs[b], desc)
				}
				r := results[b].Msg
				if !r.Clean() {
					t.Fatalf("response does not decode; %s", desc)
				}
				rd, _, serial, ok := ParseKeyed(r)
				if !ok {
					t.Fatalf("response is not an upstream answer: %s; %s", r.Msg.String(), desc)
				}
				if !bytes.Equal(rd, KeyedRData(a.name, a.typ, a.class, "c07")) {
					t.Fatalf("answer belongs to another question (name/class/type); %s", desc)
				}
				norm := c07Normalize(r)
				// A UDP client may get a truncated view of a bulky answer (that is C09's business, and specific to its
				// transport): such a response takes part in the key oracle only. On the stream-like transports of this
				// test nothing of 3 KiB is ever truncated.
				truncatedView := r.Has(vfkit.BitTC)
				if truncatedView && a.client.via != "udp" {
					t.Fatalf("a response over %s carries TC=1 (the upstream's answer is far below 64 KiB): %s; %s", a.client.via, r.Msg.String(), desc)
				}
				mu.Lock()
				if s, dup := bySerial[serial]; truncatedView {
					if dup && s.key != key {
						t.Fatalf("upstream answer #%d, fetched for type %d class %d group %q, was served to a query of type %d class %d group %q; %s", serial, s.key.typ, s.key.class, s.key.group, key.typ, key.class, key.group, desc)
					}
				} else if dup && s.norm == "" {
					if s.key != key {
						t.Fatalf("upstream answer #%d, fetched for type %d class %d group %q, was served to a query of type %d class %d group %q; %s", serial, s.key.typ, s.key.class, s.key.group, key.typ, key.class, key.group, desc)
					}
					bySerial[serial] = seen{key, norm}
				} else if dup {
					if s.key != key {
						t.Fatalf("upstream answer #%d, fetched for %s type %d class %d group %q, was served to a query of type %d class %d group %q; %s", serial, vfkit.Name(nil), s.key.typ, s.key.class, s.key.group, key.typ, key.class, key.group, desc)
					}
					if s.norm != norm {
						t.Fatalf("cached response differs from the response first relayed for upstream answer #%d:\nfirst  %s\ncached %s\n%s", serial, s.norm, norm, desc)
					}
					if !single && i > 0 {
						single = true
					}
				} else {
					bySerial[serial] = seen{key, norm}
				}
				if truncatedView {
					if _, dup := bySerial[serial]; !dup {
						bySerial[serial] = seen{key, ""} // key known, full form not yet seen
					}
				}
				mu.Unlock()
			}
			time.Sleep(time.Millisecond)
			newQ := up.NumQueries() - before
			if already && mode == "large" {
				if newQ != 0 {
					t.Fatalf("an identical repeat (same name/class/type/group, ample cache, TTL 300) caused %d new upstream queries; %s", newQ, desc)
				}
			}
			answered[key] = true
			for j := 0; j < i; j++ {
				o := asks[j]
				ok2 := c07Key{string(o.name.Lower().Wire()), o.typ, o.class, c07Group(o.client.addr)}
				diff := 0
				if ok2.name != key.name {
					diff++
				}
				if ok2.typ != key.typ {
					diff++
				}
				if ok2.class != key.class {
					diff++
				}
				if ok2.group != key.group {
					diff++
				}
				if diff == 1 {
					single = true
				}
			}
		}
		if cr := P.p.Crashed(); cr != "" {
			t.Fatalf("proxy crashed: %s", cr)
		}
		classes := []string{"cache=" + mode}
		if reSplit {
			classes = append(classes, "re-split-twins")
		}
		if mode == "store" {
			st.Class("store-hits", int(store.Hits.Load()-storeHitsBefore))
		}
		_ = tiny
		st.Case(vfkit.Fingerprint(label, fmt.Sprint(asks)), single, classes, func() any {
			return map[string]any{"base": baseName.String(), "type": baseType, "class": baseClass, "asks": n, "tiny_cache": tiny, "serials": len(bySerial)}
		})
	})
}
