package vfe2e

import (
	"crypto/tls"
	"errors"
	"fmt"
	"strings"
	"time"
)

// Asker sends single queries through any listener kind of one proxy and collects *everything* that
// comes back for each, so that "exactly one response" can be judged.
type Asker struct {
	IP     string // proxy address
	SrcIP  string // client source address ("" = default)
	TLS    *tls.Config
	Header map[string]string // extra HTTP headers (client address header)
	// DoQLateFIN: the DoQ client keeps its side of a stream open until it has read the response (the query is complete
	// with its length prefix; a listener that waits for the FIN before it answers never answers such a client)
	DoQLateFIN bool
	PortOffset int // added to the listener kind's standard port (a second listener of the same kind)
	udp    *UDPClient
	doh    map[string]*DoHClient
	doq    *DoQClient
}

func NewAsker(proxyIP, srcIP string) *Asker {
	return &Asker{IP: proxyIP, SrcIP: srcIP, TLS: &tls.Config{InsecureSkipVerify: true}, doh: map[string]*DoHClient{}}
}

func (a *Asker) Close() {
	if a.udp != nil {
		a.udp.Close()
	}
	for _, c := range a.doh {
		c.Close()
	}
	if a.doq != nil {
		a.doq.Close()
	}
}

func (a *Asker) addr(kind string) string { return fmt.Sprintf("%s:%d", a.IP, ListenerPorts[kind]+a.PortOffset) }

// Result of one ask.
type AskResult struct {
	Resps  []*Resp // every DNS message received for this query
	Closed bool    // stream closed by the proxy without (further) data
	Status int     // HTTP status
	Err    error   // transport level error (dial failure etc.)
	Sent   time.Time
}

// Ask sends q through the listener and waits up to wait for the response; after the first response it
// lingers for `linger` to catch duplicates.
func (a *Asker) Ask(kind string, q []byte, wait, linger time.Duration) *AskResult {
	res := &AskResult{Sent: time.Now()}
	switch kind {
	case "udp":
		if a.udp == nil {
			c, err := NewUDPClient(a.SrcIP, a.addr("udp"))
			if err != nil {
				res.Err = err
				return res
			}
			a.udp = c
		}
		from := a.udp.Count()
		if err := a.udp.Send(q); err != nil {
			res.Err = err
			return res
		}
		id := uint16(0)
		if len(q) >= 2 {
			id = uint16(q[0])<<8 | uint16(q[1])
		}
		r := a.udp.WaitID(id, from, wait)
		if r == nil {
			// anything at all?
			res.Resps = a.udp.All()[min(from, a.udp.Count()):]
			return res
		}
		time.Sleep(linger)
		res.Resps = a.udp.All()[from:]
		return res
	case "tcp", "gnet", "tls":
		var cfg *tls.Config
		if kind == "tls" {
			cfg = a.TLS
		}
		c, err := DialStream(a.SrcIP, a.addr(kind), cfg, 3*time.Second)
		if err != nil {
			res.Err = err
			return res
		}
		defer c.Close()
		if _, err := c.C.Write(frame(q)); err != nil {
			res.Err = err
			return res
		}
		fr, _, closed := c.ReadFrames(1, wait)
		if len(fr) >= 1 && linger > 0 {
			more, _, cl := c.ReadFrames(1, linger)
			fr = append(fr, more...)
			closed = cl
		}
		res.Resps, res.Closed = fr, closed
		return res
	case "http", "fasthttp", "https":
		mode := map[string]string{"http": "http", "fasthttp": "http", "https": "h2"}[kind]
		c := a.doh[kind]
		if c == nil {
			c = NewDoHClient(mode, a.SrcIP, a.addr(kind), a.TLS)
			a.doh[kind] = c
		}
		method := "GET"
		if len(q) > 0 && q[len(q)-1]&1 == 1 {
			method = "POST"
		}
		var r *Resp
		var err error
		if method == "POST" && len(q) > 1 && q[1]&1 == 1 {
			// every other POST (odd query IDs) is sent without a Content-Length: a body of unknown length is chunked on
			// HTTP/1.1 and simply ends with the stream on HTTP/2
			r, err = c.DoStreamedHdr(q, len(q), 0, a.Header)
		} else {
			r, err = c.Do(method, q, a.Header)
		}
		if err != nil {
			res.Err = err
			return res
		}
		res.Status = r.Status
		if r.Status == 200 {
			res.Resps = []*Resp{r}
		}
		return res
	case "quic":
		if a.doq == nil {
			c, err := DialDoQ(a.SrcIP, a.addr("quic"), a.TLS, 3*time.Second)
			if err != nil {
				res.Err = err
				return res
			}
			a.doq = c
		}
		data, closed, err := a.doq.Exchange(frame(q), !a.DoQLateFIN, wait)
		if err != nil {
			// connection may have idled out: one reconnect
			a.doq.Close()
			a.doq = nil
			res.Err = err
			return res
		}
		res.Closed = closed
		for len(data) >= 2 {
			l := int(data[0])<<8 | int(data[1])
			if len(data) < 2+l {
				break
			}
			res.Resps = append(res.Resps, newResp(data[2:2+l]))
			data = data[2+l:]
		}
		if len(data) > 0 {
			res.Err = errors.New("trailing octets on the DoQ stream")
		}
		return res
	}
	res.Err = fmt.Errorf("unknown listener kind %s", kind)
	return res
}

// AskPatient is Ask for checks whose subject is not liveness. A query that gets no response within wait - a lost
// datagram, a handshake that timed out on a busy machine - is asked again, once, after a pause and with three times the
// patience, before the caller sees "no response". (C03 and C01 own the liveness oracles and do not use this.)
func (a *Asker) AskPatient(kind string, q []byte, wait time.Duration) *AskResult {
	res := a.Ask(kind, q, wait, 0)
	if res.Err == nil && len(res.Resps) > 0 {
		return res
	}
	if res.Err != nil {
		e := res.Err.Error()
		if !strings.Contains(e, "timeout") && !strings.Contains(e, "deadline exceeded") && !strings.Contains(e, "timed out") {
			return res
		}
	}
	time.Sleep(300 * time.Millisecond)
	return a.Ask(kind, q, 3*wait, 0)
}
