package vfe2e

// C03 with a second-level cache that stops answering: the request path looks a question up in the store before
// it asks the upstream. If the store hangs while lookups are pending, the queries behind them still have to get
// exactly one response each within the request deadline - the statement makes no exception for where the time
// was lost - and the proxy must keep serving afterwards.

import (
	"fmt"
	"os"
	"sync"
	"testing"
	"time"

	"pgregory.net/rapid"
	"vfkit"
)

func TestVfC03StoreStall(t *testing.T) {
	st := vfkit.Stats("TestVfC03StoreStall", "a proxy whose cache is the harness's RESP3 store (kit/fakeredis.go), upstream healthy; per case: the store is made to sit on every GET / SET for 9 s (or to hang up on every command), 0-1500 ms later 3-24 queries are sent over drawn listener kinds (all eight), all in flight together; oracle: each gets exactly one response with its ID and question within 8 s (6 s request deadline + 2 s), the process stays alive, and after the store has recovered a query on every listener kind is answered NOERROR within 3 s; non-trivial = the store stalled while lookups were pending (counted at the store)")
	defer vfkit.Flush()
	block := NextIPBlock()
	up, err := StartUpstream("udp", "up", block+"2", 0, nil, func(q *UpQuery) UpAction {
		if q.Msg.Err != nil || len(q.Msg.Q) != 1 {
			return UpAction{}
		}
		return UpAction{Reply: EncodeMsg(KeyedAnswer(q.Msg, "c03s", uint32(q.Seq), 60, 0))}
	})
	if err != nil {
		t.Fatal(err)
	}
	defer up.Close()
	store, err := vfkit.StartFakeRedis(block + "3")
	if err != nil {
		t.Fatal(err)
	}
	defer store.Close()
	pip := block + "10"
	cfg := &Config{Servers: StdServers(pip, AllListenerKinds, ""), Upstreams: []UpstreamCfg{{Tag: "up", Addr: up.Addr()}}, Rules: []Rule{{Forward: "up"}},
		Cache: &CacheCfg{Redis: store.URL()}}
	p, err := StartProxy(cfg.YAML(), nil, ProxyOpts{})
	if err != nil {
		t.Fatal(err)
	}
	defer p.Cleanup()
	if p.Exited() {
		t.Fatalf("proxy exited at start-up: %s", tail(p.Stderr(), 1500))
	}
	waitConnected := func() bool {
		// the proxy uses the store after a successful PING (one-second ticker): two more pings from now
		from := store.Pings.Load()
		for until := time.Now().Add(8 * time.Second); time.Now().Before(until); time.Sleep(30 * time.Millisecond) {
			if store.Pings.Load() >= from+2 {
				return true
			}
		}
		return false
	}
	caseNo := 0
	rapid.Check(t, func(t *rapid.T) {
		caseNo++
		if cr := p.Crashed(); cr != "" || p.Exited() {
			t.Fatalf("the proxy has died: %s", cr)
		}
		if !waitConnected() {
			vfkit.Inconclusive("C03 store stall: the proxy does not ping the recovered store")
		}
		mode := rapid.SampledFrom([]string{"sits-on-commands", "sits-on-commands", "hangs-up"}).Draw(t, "storeFault")
		n := rapid.IntRange(3, 24).Draw(t, "queries")
		kinds := make([]string, n)
		for i := range kinds {
			kinds[i] = rapid.SampledFrom(AllListenerKinds).Draw(t, "listener")
		}
		lead := time.Duration(rapid.SampledFrom([]int{0, 0, 200, 900, 1500}).Draw(t, "faultLeadMs")) * time.Millisecond
		getsBefore := len(store.Log())
		if mode == "hangs-up" {
			store.Down.Store(true)
			store.KillConns()
		} else {
			store.Delay.Store(int64(9 * time.Second))
		}
		time.Sleep(lead)
		type res struct {
			i    int
			r    *AskResult
			took time.Duration
		}
		out := make(chan res, n)
		var wg sync.WaitGroup
		for i := 0; i < n; i++ {
			wg.Add(1)
			go func(i int) {
				defer wg.Done()
				a := NewAsker(pip, "")
				defer a.Close()
				name := vfkit.Name{[]byte(fmt.Sprintf("s%dq%dp%d", caseNo, i, os.Getpid())), []byte("stall"), []byte("test")}
				t0 := time.Now()
				r := a.Ask(kinds[i], Query(uint16(caseNo*32+i), name, 1, 1, false), 9*time.Second, 100*time.Millisecond)
				out <- res{i, r, time.Since(t0)}
			}(i)
		}
		wg.Wait()
		close(out)
		store.Delay.Store(0)
		store.Down.Store(false)
		if cr := p.Crashed(); cr != "" || p.Exited() {
			t.Fatalf("the proxy died while its second-level store was %s: %s", mode, cr)
		}
		slowest := time.Duration(0)
		for x := range out {
			desc := fmt.Sprintf("query %d of %d over %s, store %s %v before the queries", x.i, n, kinds[x.i], mode, lead)
			if x.r.Err != nil || len(x.r.Resps) != 1 {
				t.Fatalf("%d responses (err=%v, closed=%v, status %d) within 9 s; %s\n%s", len(x.r.Resps), x.r.Err, x.r.Closed, x.r.Status, desc, tail(p.Stderr(), 1200))
			}
			r := x.r.Resps[0]
			if !r.Msg.Clean() || r.Msg.ID != uint16(caseNo*32+x.i) || !r.Msg.Has(vfkit.BitQR) || len(r.Msg.Q) > 1 {
				t.Fatalf("malformed or foreign response %s; %s", r.Msg.Msg.String(), desc)
			}
			if d := r.At.Sub(x.r.Sent); d > 8*time.Second {
				t.Fatalf("the response came %.2fs after the query (request deadline 6 s + 2 s); %s", d.Seconds(), desc)
			} else if d > slowest {
				slowest = d
			}
		}
		// and afterwards
		time.Sleep(300 * time.Millisecond)
		a := NewAsker(pip, "")
		defer a.Close()
		for i, k := range AllListenerKinds {
			name := vfkit.Name{[]byte(fmt.Sprintf("s%dafter%dp%d", caseNo, i, os.Getpid())), []byte("stall"), []byte("test")}
			r := a.Ask(k, Query(uint16(9000+i), name, 1, 1, false), 3*time.Second, 0)
			if len(r.Resps) != 1 || r.Resps[0].Msg.Rcode() != 0 {
				// once more: the store client may still be reconnecting, and a lookup may wait for that
				r = a.Ask(k, Query(uint16(9100+i), name, 1, 1, false), 8*time.Second, 0)
			}
			if len(r.Resps) != 1 || r.Resps[0].Msg.Rcode() != 0 {
				t.Fatalf("after the store had recovered a query over %s got %d responses (err %v); store was %s\n%s", k, len(r.Resps), r.Err, mode, tail(p.Stderr(), 1200))
			}
		}
		pending := 0
		for _, op := range store.Log()[getsBefore:] {
			if op.Cmd == "GET" {
				pending++
			}
		}
		st.Class("lookups-that-reached-the-stalled-store", pending)
		st.Case(vfkit.Fingerprint(caseNo, os.Getpid(), mode, n), pending > 0 || mode == "hangs-up", []string{"store=" + mode}, func() any {
			return map[string]any{"store": mode, "queries": n, "fault_lead_ms": lead.Milliseconds(), "slowest_response_s": slowest.Seconds(), "lookups_at_the_stalled_store": pending}
		})
	})
}
