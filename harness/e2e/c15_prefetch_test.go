package vfe2e

import (
	"fmt"
	"os"
	"strings"
	"sync"
	"testing"
	"time"

	"pgregory.net/rapid"
	"vfkit"
)

// TestVfC15PrefetchCharges: what a background refresh costs is nobody else's bill. Clients of many subnets fill a
// cache (TTL 4 s) and hit their entries in the refresh window; the refreshes are answered 400 ms later. Bystanders -
// one subnet each, none of them ever near its budget by its own traffic - have a query in flight at the upstream
// at that moment and afterwards send three quick queries that their own spending still covers: none may be refused.
func TestVfC15PrefetchCharges(t *testing.T) {
	st := vfkit.Stats("TestVfC15PrefetchCharges", "limiter 1/s burst 10 per /24, memory cache, upstream TTL 4 s for the hot names; per case 16-40 hot names, each filled over UDP by a subnet of its own and hit again 3.25-3.6 s later (the refresh is answered after 400 ms), and 12-24 bystander subnets that spend 4 at 1 s, have one query in flight at the upstream (700 ms) while the refreshes complete, and 1 s later send three cache hits in a row (their own names live 60 s); oracle: a bystander query is never REFUSED while burst + rate x (time since the bystander's first answer) covers everything the bystander has been charged at most (4 per miss, 2 per hit) plus this query's listener cost; non-trivial = bystanders were in flight while refreshes completed")
	defer vfkit.Flush()
	block := NextIPBlock()
	var mu sync.Mutex
	seen := map[string]int{}
	up, err := StartUpstream("udp", "up", block+"2", 0, nil, func(q *UpQuery) UpAction {
		if q.Msg.Err != nil || len(q.Msg.Q) != 1 {
			return UpAction{}
		}
		lbl := strings.ToLower(string(q.Msg.Q[0].Name[0]))
		mu.Lock()
		k := seen[lbl]
		seen[lbl]++
		mu.Unlock()
		ttl := uint32(60)
		if strings.HasPrefix(lbl, "hot") {
			ttl = 4
		}
		a := UpAction{Reply: EncodeMsg(KeyedAnswer(q.Msg, "c15p", uint32(q.Seq), ttl, 0))}
		switch {
		case strings.HasPrefix(lbl, "hot") && k > 0:
			a.Delay = 400 * time.Millisecond // the refresh
		case strings.HasPrefix(lbl, "by2"):
			a.Delay = 700 * time.Millisecond // the bystander's query that is in flight meanwhile
		}
		return a
	})
	if err != nil {
		t.Fatal(err)
	}
	defer up.Close()
	pip := block + "10"
	cfg := &Config{Servers: StdServers(pip, []string{"udp"}, ""), Upstreams: []UpstreamCfg{{Tag: "up", Addr: up.Addr()}}, Rules: []Rule{{Forward: "up"}},
		Cache: &CacheCfg{MemSize: 16 << 20}, Limiter: &LimiterCfg{Client: &ClientLimiterCfg{Limit: 1, Burst: 10}}}
	p, err := StartProxy(cfg.YAML(), nil, ProxyOpts{})
	if err != nil {
		t.Fatal(err)
	}
	defer p.Cleanup()
	if p.Exited() {
		t.Fatalf("proxy exited: %s", tail(p.Stderr(), 1500))
	}
	caseNo := 0
	rapid.Check(t, func(t *rapid.T) {
		caseNo++
		nHot := rapid.IntRange(16, 40).Draw(t, "hotNames")
		nBy := rapid.IntRange(12, 24).Draw(t, "bystanders")
		hitAt := make([]time.Duration, nHot)
		for i := range hitAt {
			hitAt[i] = time.Duration(rapid.IntRange(3250, 3600).Draw(t, "hitAtMs")) * time.Millisecond
		}
		byAt := make([]time.Duration, nBy)
		for i := range byAt {
			byAt[i] = time.Duration(rapid.IntRange(3300, 3650).Draw(t, "inFlightFromMs")) * time.Millisecond
		}
		var firstErr sync.Map
		fail := func(format string, args ...any) { firstErr.LoadOrStore("e", fmt.Sprintf(format, args...)) }
		start := time.Now().Add(30 * time.Millisecond)
		var wg sync.WaitGroup
		judged := 0
		var jmu sync.Mutex
		for i := 0; i < nHot; i++ {
			wg.Add(1)
			go func(i int) {
				defer wg.Done()
				src := fmt.Sprintf("127.%d.%d.9", 100+caseNo%100, i)
				a := NewAsker(pip, src)
				defer a.Close()
				name := vfkit.Name{[]byte(fmt.Sprintf("hot%dr%dp%d", i, caseNo, os.Getpid())), []byte("pfcost"), []byte("test")}
				time.Sleep(time.Until(start))
				a.Ask("udp", Query(2, name, 1, 1, false), 2*time.Second, 0)
				time.Sleep(time.Until(start.Add(hitAt[i])))
				a.Ask("udp", Query(4, name, 1, 1, false), 2*time.Second, 0)
			}(i)
		}
		for i := 0; i < nBy; i++ {
			wg.Add(1)
			go func(i int) {
				defer wg.Done()
				src := fmt.Sprintf("127.%d.%d.7", 100+caseNo%100, 100+i)
				a := NewAsker(pip, src)
				defer a.Close()
				mk := func(kind string) vfkit.Name {
					return vfkit.Name{[]byte(fmt.Sprintf("%s-%dr%dp%d", kind, i, caseNo, os.Getpid())), []byte("pfcost"), []byte("test")}
				}
				charged := 0.0 // the most this subnet can have been charged so far
				var since time.Time
				ask := func(id uint16, name vfkit.Name, cost float64, what string) {
					sent := time.Now()
					r := a.Ask("udp", Query(id, name, 1, 1, false), 3*time.Second, 0)
					if len(r.Resps) != 1 {
						return // a lost datagram: no verdict
					}
					if since.IsZero() {
						since = r.Resps[0].At
					}
					if r.Resps[0].Msg.Rcode() == 5 {
						// refused: was the subnet's own budget really used up?
						budget := 10 + sent.Sub(since).Seconds()
						if sent.Before(since) {
							budget = 10
						}
						if charged+1+0.15 <= budget {
							fail("bystander subnet %s/24: its %s was REFUSED although the subnet has been charged at most %.0f of a budget of %.2f (burst 10 + 1/s since its first answer); %d refreshes started by other subnets completed meanwhile", src, what, charged, budget, nHot)
						}
						return
					}
					charged += cost
					jmu.Lock()
					judged++
					jmu.Unlock()
				}
				time.Sleep(time.Until(start.Add(time.Second)))
				ask(2, mk("by1"), 4, "first query")
				time.Sleep(time.Until(start.Add(byAt[i])))
				ask(4, mk("by2"), 4, "second query (in flight while the refreshes complete)")
				time.Sleep(time.Until(start.Add(byAt[i] + 1000*time.Millisecond)))
				for k := 0; k < 3; k++ {
					ask(uint16(6+2*k), mk("by1"), 2, fmt.Sprintf("cache hit no. %d of three in a row", k+1))
				}
			}(i)
		}
		wg.Wait()
		if e, ok := firstErr.Load("e"); ok {
			t.Fatalf("%v", e)
		}
		if cr := p.Crashed(); cr != "" || p.Exited() {
			t.Fatalf("proxy died: %s", cr)
		}
		st.Case(vfkit.Fingerprint(caseNo, os.Getpid(), nHot, nBy), judged > 0, nil, func() any {
			return map[string]any{"hot_names": nHot, "bystanders": nBy, "bystander_queries_judged": judged}
		})
	})
}
