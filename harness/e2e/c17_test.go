package vfe2e

// C17 (authentication) - TLS-based upstreams are used only when their certificate verifies as configured;
// TLS-based listeners that verify client certificates serve only clients with a certificate from the CA.

import (
	"crypto/tls"
	"fmt"
	"testing"
	"time"

	"pgregory.net/rapid"
	"vfkit"
)

func TestVfC17UpstreamAuth(t *testing.T) {
	st := vfkit.Stats("TestVfC17UpstreamAuth", "upstream kinds tls / tls+pipeline / https / h3 / quic, URL host as IP or as a name with dial_addr, server certificate situation {valid, wrong name, unknown CA, expired, not yet valid, self-signed, valid from a CA in the system root store of the process (SSL_CERT_FILE) that is not the configured CA} x options {ca configured or not, insecure_skip_verify}; oracle: the client is answered from that upstream iff verification is disabled or the certificate chains to the configured CA (to the system roots when none is configured) and matches the URL host - otherwise SERVFAIL and the fake server receives no DNS query; a sibling upstream of the same configuration either names the same files with the opposite option, or reaches the same server under the same URL host with the CA that really issued its certificate and is used first; non-trivial = any certificate other than the valid one, or verification disabled")
	defer vfkit.Flush()
	ca := NewCA("vf c17 ca")
	otherCA := NewCA("vf c17 other ca")
	sysCA := NewCA("vf c17 system root") // the system root store of the proxy process (SSL_CERT_FILE) holds exactly this one
	rapid.Check(t, func(t *rapid.T) {
		block := NextIPBlock()
		defer FreeIPBlock(block)
		pip, uip := block+"1", block+"2"
		kind := rapid.SampledFrom([]string{"tls", "tls+pipeline", "https", "h3", "quic"}).Draw(t, "kind")
		byName := rapid.Bool().Draw(t, "hostIsName")
		situation := rapid.SampledFrom([]string{"valid", "valid", "wrong-name", "unknown-ca", "expired", "not-yet-valid", "self-signed", "system-ca", "system-ca"}).Draw(t, "cert")
		caConfigured := rapid.IntRange(0, 3).Draw(t, "caConfigured") > 0
		insecure := rapid.IntRange(0, 3).Draw(t, "insecure") == 0
		host := uip
		opts := LeafOpts{IPs: []string{uip}}
		if byName {
			host = "up.c17.test"
			opts = LeafOpts{DNSNames: []string{host}}
		}
		issuer := ca
		switch situation {
		case "wrong-name":
			opts = LeafOpts{DNSNames: []string{"other.c17.test"}, IPs: []string{block + "9"}}
		case "unknown-ca":
			issuer = otherCA
		case "system-ca":
			issuer = sysCA // valid, and trusted by the system store - but not the configured CA
		case "expired":
			opts.NotBefore, opts.NotAfter = time.Now().Add(-48*time.Hour), time.Now().Add(-time.Hour)
		case "not-yet-valid":
			opts.NotBefore, opts.NotAfter = time.Now().Add(time.Hour), time.Now().Add(48*time.Hour)
		case "self-signed":
			opts.SelfSigned = true
		}
		leaf := issuer.Issue(opts)
		up, err := StartUpstream(kind, "up", uip, 0, serverTLS(leaf), func(q *UpQuery) UpAction {
			return UpAction{Reply: EncodeMsg(KeyedAnswer(q.Msg, "c17", uint32(q.Seq), 60, 0))}
		})
		if err != nil {
			t.Fatalf("upstream: %v", err)
		}
		defer up.Close()
		addr := fmt.Sprintf("%s://%s:%d", kind, host, up.Port)
		if kind == "https" || kind == "h3" {
			addr += "/dns-query"
		}
		uc := UpstreamCfg{Tag: "up", Addr: addr, Tls: &TlsCfg{InsecureSkipVerify: insecure}}
		if byName {
			uc.DialAddr = fmt.Sprintf("%s:%d", uip, up.Port)
		}
		if caConfigured {
			uc.Tls.CA = "$DIR/ca.pem"
		}
		cfg := &Config{Servers: StdServers(pip, []string{"udp"}, ""), Upstreams: []UpstreamCfg{uc}, Rules: []Rule{{Forward: "up"}}}
		// a sibling in the same configuration that names the same files but sets the opposite option: every tls block
		// stands for itself
		sibling := rapid.SampledFrom([]string{"none", "before", "after", "trusting-first", "trusting-first"}).Draw(t, "siblingUpstream")
		files := map[string]string{"ca.pem": string(ca.CertPEM), "sys.pem": string(sysCA.CertPEM), "other.pem": string(otherCA.CertPEM)}
		switch sibling {
		case "before", "after":
			sib := UpstreamCfg{Tag: "sib", Addr: addr, DialAddr: uc.DialAddr, Tls: &TlsCfg{InsecureSkipVerify: !insecure, CA: uc.Tls.CA}}
			if sibling == "before" {
				cfg.Upstreams = []UpstreamCfg{sib, uc}
			} else {
				cfg.Upstreams = []UpstreamCfg{uc, sib}
			}
		case "trusting-first":
			// a sibling that reaches the same server under the same URL host but trusts the CA that really issued the
			// server's certificate, and completes an exchange before the upstream under test is used: whatever the
			// sibling's handshake established (sessions, tickets) must not vouch for the server towards this upstream
			sibCA := "$DIR/ca.pem"
			if issuer == otherCA {
				sibCA = "$DIR/other.pem"
			} else if issuer == sysCA {
				sibCA = "$DIR/sys.pem"
			}
			sib := UpstreamCfg{Tag: "sib", Addr: addr, DialAddr: uc.DialAddr, Tls: &TlsCfg{CA: sibCA}}
			cfg.Upstreams = []UpstreamCfg{uc, sib}
			files["sibset.txt"] = "domain:sib.c17.test\n"
			cfg.DomainSets = []DomainSet{{Tag: "sibset", Files: []string{"$DIR/sibset.txt"}}}
			cfg.Rules = []Rule{{Domain: "sibset", Forward: "sib"}, {Forward: "up"}}
		}
		p, err := StartProxy(cfg.YAML(), files, ProxyOpts{Env: []string{"SSL_CERT_FILE=$DIR/sys.pem", "SSL_CERT_DIR=$DIR/no-such-dir"}})
		if err != nil {
			t.Fatalf("%v", err)
		}
		defer p.Cleanup()
		if p.Exited() {
			t.Fatalf("proxy exited: %s", tail(p.Stderr(), 1500))
		}
		a := NewAsker(pip, "")
		defer a.Close()
		name := vfkit.Name{[]byte("auth"), []byte("c17"), []byte("test")}
		sibAnswered := 0
		if sibling == "trusting-first" {
			for i := 0; i < 2; i++ { // two exchanges, so that the second may already resume the first one's session
				wn := vfkit.Name{[]byte("warm" + itoa(i)), []byte("sib"), []byte("c17"), []byte("test")}
				if w := a.Ask("udp", Query(uint16(3+i), wn, 1, 1, false), 8*time.Second, 0); len(w.Resps) == 1 && w.Resps[0].Msg.Rcode() == 0 {
					sibAnswered++
				}
			}
		}
		res := a.Ask("udp", Query(7, name, 1, 1, false), 8*time.Second, 0)
		if len(res.Resps) == 0 {
			res = a.Ask("udp", Query(7, name, 1, 1, false), 8*time.Second, 0)
		}
		if len(res.Resps) != 1 {
			t.Fatalf("%d responses", len(res.Resps))
		}
		r := res.Resps[0].Msg
		// the configured CA replaces the system roots; without one the system roots decide
		shouldTrust := insecure || (situation == "valid" && caConfigured) || (situation == "system-ca" && !caConfigured)
		desc := fmt.Sprintf("upstream %s, certificate %s, ca configured %v, insecure_skip_verify %v (sibling upstream: %s)", addr, situation, caConfigured, insecure, sibling)
		dnsQueries := 0
		for _, q := range up.Queries() {
			if q.Msg.Err == nil && len(q.Msg.Q) == 1 && string(q.Msg.Q[0].Name[0]) == "auth" {
				dnsQueries++
			}
		}
		if sibling == "trusting-first" {
			desc += fmt.Sprintf("; the sibling had %d exchanges answered before", sibAnswered)
			if sibAnswered > 0 {
				st.Class("trusting-sibling-warmed-up", 1)
			}
		}
		if shouldTrust {
			if r.Rcode() != 0 {
				t.Fatalf("the upstream must be trusted but the client got rcode %d; %s\n%s", r.Rcode(), desc, tail(p.Stderr(), 800))
			}
		} else {
			if r.Rcode() != 2 {
				t.Fatalf("the upstream's certificate must be rejected but the client got rcode %d; %s", r.Rcode(), desc)
			}
			if dnsQueries != 0 {
				t.Fatalf("%d DNS queries reached an upstream whose certificate does not verify; %s", dnsQueries, desc)
			}
		}
		st.Case(vfkit.Fingerprint(kind, byName, situation, caConfigured, insecure), situation != "valid" || insecure, []string{"kind=" + kind, "cert=" + situation}, func() any {
			return map[string]any{"addr": addr, "cert": situation, "ca": caConfigured, "insecure": insecure, "rcode": r.Rcode(), "dns_queries_at_upstream": dnsQueries}
		})
	})
}

func TestVfC17ClientCert(t *testing.T) {
	st := vfkit.Stats("TestVfC17ClientCert", "listener kinds tls / https / quic with verify_client_cert on or off and a configured CA; clients presenting {no certificate, certificate from another CA, certificate from a CA of the system root store of the process, expired certificate, self-signed, valid}; oracle: with verification on only the valid client ever receives a DNS response, with verification off everybody does; non-trivial = verification on with a client that is not the valid one")
	defer vfkit.Flush()
	ca := NewCA("vf c17 client ca")
	otherCA := NewCA("vf c17 other client ca")
	sysCA := NewCA("vf c17 system root for clients")
	server := ca.Issue(LeafOpts{DNSNames: []string{"proxy.c17.test"}})
	rapid.Check(t, func(t *rapid.T) {
		block := NextIPBlock()
		defer FreeIPBlock(block)
		pip := block + "1"
		kind := rapid.SampledFrom([]string{"tls", "https", "quic"}).Draw(t, "listener")
		verify := rapid.IntRange(0, 3).Draw(t, "verify") > 0
		client := rapid.SampledFrom([]string{"none", "other-ca", "system-ca", "expired", "self-signed", "valid"}).Draw(t, "client")
		up, err := StartUpstream("udp", "up", block+"2", 0, nil, func(q *UpQuery) UpAction {
			return UpAction{Reply: EncodeMsg(KeyedAnswer(q.Msg, "c17", uint32(q.Seq), 60, 0))}
		})
		if err != nil {
			t.Fatalf("%v", err)
		}
		defer up.Close()
		srv := ServerCfg{Tag: kind, Protocol: kind, Listen: fmt.Sprintf("%s:%d", pip, ListenerPorts[kind]),
			Tls: &TlsCfg{Cert: "$DIR/cert.pem", Key: "$DIR/key.pem", CA: "$DIR/ca.pem", VerifyClientCert: verify}}
		cfg := &Config{Servers: []ServerCfg{srv}, Upstreams: []UpstreamCfg{{Tag: "up", Addr: up.Addr()}}, Rules: []Rule{{Forward: "up"}}}
		// siblings naming the same certificate / key / CA files with the opposite (or no) client verification
		sibling := rapid.SampledFrom([]string{"none", "listener-before", "listener-after", "upstream", "listener-of-another-ca", "listener-of-another-ca"}).Draw(t, "sibling")
		switch sibling {
		case "listener-of-another-ca":
			// a second listener with the same certificate and key that verifies client certificates against ANOTHER CA. A
			// client with a certificate of that CA visits it first (and leaves with whatever session state TLS gives
			// it); what the first listener demands of that client is not changed by the visit.
			sib := srv
			sib.Tag, sib.Listen = "sib", fmt.Sprintf("%s:%d", pip, ListenerPorts[kind]+100)
			t2 := *srv.Tls
			t2.VerifyClientCert, t2.CA = true, "$DIR/otherca.pem"
			sib.Tls = &t2
			cfg.Servers = []ServerCfg{srv, sib}
		case "listener-before", "listener-after":
			sib := srv
			sib.Tag, sib.Listen = "sib", fmt.Sprintf("%s:%d", pip, ListenerPorts[kind]+100)
			t2 := *srv.Tls
			t2.VerifyClientCert = !verify
			sib.Tls = &t2
			if sibling == "listener-before" {
				cfg.Servers = []ServerCfg{sib, srv}
			} else {
				cfg.Servers = []ServerCfg{srv, sib}
			}
		case "upstream":
			cfg.Upstreams = append(cfg.Upstreams, UpstreamCfg{Tag: "sib", Addr: "tls://" + block + "3:853", Tls: &TlsCfg{Cert: "$DIR/cert.pem", Key: "$DIR/key.pem", CA: "$DIR/ca.pem"}})
		}
		p, err := StartProxy(cfg.YAML(), map[string]string{"cert.pem": string(server.CertPEM), "key.pem": string(server.KeyPEM), "ca.pem": string(ca.CertPEM), "otherca.pem": string(otherCA.CertPEM), "sys.pem": string(sysCA.CertPEM)}, ProxyOpts{Env: []string{"SSL_CERT_FILE=$DIR/sys.pem", "SSL_CERT_DIR=$DIR/no-such-dir"}})
		if err != nil {
			t.Fatalf("%v", err)
		}
		defer p.Cleanup()
		if p.Exited() {
			t.Fatalf("proxy exited: %s", tail(p.Stderr(), 1500))
		}
		tc := &tls.Config{RootCAs: ca.Pool(), ServerName: "proxy.c17.test"}
		switch client {
		case "other-ca":
			tc.Certificates = []tls.Certificate{otherCA.Issue(LeafOpts{DNSNames: []string{"client"}, Client: true}).TLS}
		case "system-ca":
			tc.Certificates = []tls.Certificate{sysCA.Issue(LeafOpts{DNSNames: []string{"client"}, Client: true}).TLS}
		case "expired":
			tc.Certificates = []tls.Certificate{ca.Issue(LeafOpts{DNSNames: []string{"client"}, NotBefore: time.Now().Add(-48 * time.Hour), NotAfter: time.Now().Add(-time.Hour)}).TLS}
		case "self-signed":
			tc.Certificates = []tls.Certificate{ca.Issue(LeafOpts{DNSNames: []string{"client"}, SelfSigned: true}).TLS}
		case "valid":
			tc.Certificates = []tls.Certificate{ca.Issue(LeafOpts{DNSNames: []string{"client"}, Client: true}).TLS}
		}
		if sibling == "listener-of-another-ca" {
			tc.ClientSessionCache = tls.NewLRUClientSessionCache(16)
			// (the visitor is the client itself when its certificate is from that CA; otherwise another identity of the same
			// resolver process, sharing its session cache)
			visit := tc.Clone()
			visit.ClientSessionCache = tc.ClientSessionCache
			visit.Certificates = []tls.Certificate{otherCA.Issue(LeafOpts{DNSNames: []string{"client"}, Client: true}).TLS}
			for i := 0; i < 2; i++ {
				v := NewAsker(pip, "")
				v.TLS, v.PortOffset = visit, 100
				vr := v.Ask(kind, Query(8, vfkit.Name{[]byte("visit"), []byte("c17"), []byte("test")}, 1, 1, false), 3*time.Second, 0)
				v.Close()
				if len(vr.Resps) < 1 {
					t.Fatalf("the listener that verifies against the other CA did not serve a client with a certificate of that CA: %v\n%s", vr.Err, tail(p.Stderr(), 800))
				}
			}
		}
		a := NewAsker(pip, "")
		a.TLS = tc
		defer a.Close()
		res := a.Ask(kind, Query(9, vfkit.Name{[]byte("client"), []byte("c17"), []byte("test")}, 1, 1, false), 3*time.Second, 0)
		served := len(res.Resps) >= 1
		want := !verify || client == "valid"
		desc := fmt.Sprintf("listener %s verify_client_cert=%v client certificate %s (sibling tls block with the same files: %s): served=%v err=%v status=%d", kind, verify, client, sibling, served, res.Err, res.Status)
		if served && !want {
			t.Fatalf("a DNS response was served to a client without a certificate from the configured CA; %s", desc)
		}
		if !served && want {
			t.Fatalf("a client that must be served got no response; %s\n%s", desc, tail(p.Stderr(), 800))
		}
		st.Case(vfkit.Fingerprint(kind, verify, client), verify && client != "valid", []string{"listener=" + kind, "client=" + client, fmt.Sprintf("verify=%v", verify)}, func() any {
			return map[string]any{"listener": kind, "verify": verify, "client": client, "served": served}
		})
	})
}
