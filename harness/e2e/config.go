package vfe2e

import (
	"gopkg.in/yaml.v3"
)

// The configuration is written from the harness's own description of the YAML format
// (black box: nothing is imported from the repository).

type Config struct {
	Servers    []ServerCfg    `yaml:"servers,omitempty"`
	Upstreams  []UpstreamCfg  `yaml:"upstreams,omitempty"`
	DomainSets []DomainSet    `yaml:"domain_sets,omitempty"`
	Rules      []Rule         `yaml:"rules,omitempty"`
	Log        *LogCfg        `yaml:"log,omitempty"`
	Cache      *CacheCfg      `yaml:"cache,omitempty"`
	ECS        *ECSCfg        `yaml:"ecs,omitempty"`
	Limiter    *LimiterCfg    `yaml:"limiter,omitempty"`
	Extra      map[string]any `yaml:",inline"`
}

type ServerCfg struct {
	Tag         string         `yaml:"tag,omitempty"`
	Protocol    string         `yaml:"protocol,omitempty"`
	Listen      string         `yaml:"listen"`
	IdleTimeout int            `yaml:"idle_timeout,omitempty"`
	Tcp         *TcpCfg        `yaml:"tcp,omitempty"`
	Tls         *TlsCfg        `yaml:"tls,omitempty"`
	Http        *HttpCfg       `yaml:"http,omitempty"`
	Quic        *QuicCfg       `yaml:"quic,omitempty"`
	Extra       map[string]any `yaml:",inline"`
}

type TcpCfg struct {
	MaxConcurrentQueries int `yaml:"max_concurrent_queries,omitempty"`
}

type TlsCfg struct {
	Cert               string `yaml:"cert,omitempty"`
	Key                string `yaml:"key,omitempty"`
	CA                 string `yaml:"ca,omitempty"`
	InsecureSkipVerify bool   `yaml:"insecure_skip_verify,omitempty"`
	VerifyClientCert   bool   `yaml:"verify_client_cert,omitempty"`
	DebugUseTempCert   bool   `yaml:"debug_use_temp_cert,omitempty"`
}

type HttpCfg struct {
	Path             string `yaml:"path,omitempty"`
	ClientAddrHeader string `yaml:"client_addr_header,omitempty"`
}

type QuicCfg struct {
	MaxStreams int64 `yaml:"max_streams,omitempty"`
}

type UpstreamCfg struct {
	Tag      string         `yaml:"tag,omitempty"`
	Addr     string         `yaml:"addr,omitempty"`
	DialAddr string         `yaml:"dial_addr,omitempty"`
	Tls      *TlsCfg        `yaml:"tls,omitempty"`
	Extra    map[string]any `yaml:",inline"`
}

type DomainSet struct {
	Tag   string         `yaml:"tag,omitempty"`
	Files []string       `yaml:"files"`
	Extra map[string]any `yaml:",inline"`
}

type Rule struct {
	Reverse bool           `yaml:"reverse,omitempty"`
	Domain  string         `yaml:"domain,omitempty"`
	Reject  int            `yaml:"reject,omitempty"`
	Forward string         `yaml:"forward,omitempty"`
	Extra   map[string]any `yaml:",inline"`
}

type LogCfg struct {
	Queries bool `yaml:"queries,omitempty"`
}

type CacheCfg struct {
	MemSize    int    `yaml:"mem_size,omitempty"`
	MaximumTTL int    `yaml:"maximum_ttl,omitempty"`
	IpMarker   string `yaml:"ip_marker,omitempty"`
	Redis      string `yaml:"redis,omitempty"`
}

type ECSCfg struct {
	Enabled bool `yaml:"enabled"`
}

type LimiterCfg struct {
	GlobalLimit int               `yaml:"global_limit,omitempty"`
	Client      *ClientLimiterCfg `yaml:"client,omitempty"`
}

type ClientLimiterCfg struct {
	Limit  int `yaml:"limit,omitempty"`
	Burst  int `yaml:"burst,omitempty"`
	V4Mask int `yaml:"v4_mask,omitempty"`
	V6Mask int `yaml:"v6_mask,omitempty"`
}

func (c *Config) YAML() string {
	b, err := yaml.Marshal(c)
	if err != nil {
		panic(err)
	}
	return string(b)
}

// Listener ports used on the proxy's private address.
var ListenerPorts = map[string]int{"udp": 5301, "tcp": 5302, "gnet": 5303, "tls": 5304, "http": 5305, "fasthttp": 5306, "https": 5307, "quic": 5308}

var AllListenerKinds = []string{"udp", "tcp", "gnet", "tls", "http", "fasthttp", "https", "quic"}

// StdServers returns one listener of every requested kind on ip, using debug_use_temp_cert for the TLS based ones.
func StdServers(ip string, kinds []string, clientAddrHeader string) []ServerCfg {
	var out []ServerCfg
	for _, k := range kinds {
		s := ServerCfg{Tag: k, Protocol: k, Listen: ip + ":" + itoa(ListenerPorts[k])}
		switch k {
		case "tls", "https", "quic":
			s.Tls = &TlsCfg{DebugUseTempCert: true}
		}
		if (k == "http" || k == "https" || k == "fasthttp") && clientAddrHeader != "" {
			s.Http = &HttpCfg{ClientAddrHeader: clientAddrHeader}
		}
		out = append(out, s)
	}
	return out
}

func itoa(i int) string {
	if i == 0 {
		return "0"
	}
	var b []byte
	for i > 0 {
		b = append([]byte{byte('0' + i%10)}, b...)
		i /= 10
	}
	return string(b)
}
