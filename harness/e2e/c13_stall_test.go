package vfe2e

// C13, the reader's side of "every way the byte stream is split": a client that pipelines many queries with large
// answers and then does not read for a while. The listener's sends fill the socket buffers and stop; when the client
// reads again, what it gets must still be whole frames - a frame that was cut short at the stall must not be followed
// by other frames - and C03's clause on top: one response per query.

import (
	"bytes"
	"fmt"
	"os"
	"sync"
	"testing"
	"time"

	"pgregory.net/rapid"
	"vfkit"
)

func TestVfC13StalledReader(t *testing.T) {
	st := vfkit.Stats("TestVfC13StalledReader", "tcp / tls listener (default limits), a TCP upstream answering with 40-60 KiB; one client pipelines 60-98 queries in one write, reads nothing for 2.3-4.2 s (below the 10 s idle time-out; the answers, 3-5 MiB, exceed what the socket buffers hold), sends one more query and then reads everything; oracle: the stream is a sequence of whole frames (prefix = body length, each body decodes, each ID one of those sent, at most once, own question and answer), and every query is answered unless the listener closed the connection - a closed connection may cut the stream only at its very end; non-trivial = every case")
	defer vfkit.Flush()
	block := NextIPBlock()
	var sizes sync.Map
	up, err := StartUpstream("tcp", "up", block+"2", 0, nil, func(q *UpQuery) UpAction {
		if q.Msg.Err != nil || len(q.Msg.Q) != 1 {
			return UpAction{}
		}
		km := KeyedAnswer(q.Msg, "c13s", 0, 60, 0)
		if v, ok := sizes.Load(string(bytes.ToLower(q.Msg.Q[0].Name[0]))); ok {
			for i := 0; i < v.(int); i++ {
				km.Ar = append(km.Ar, vfkit.RR{Owner: km.Q[0].Name, Type: 65280, Class: 1, TTL: 60, RData: []vfkit.RDPart{{Raw: bytes.Repeat([]byte{byte(i)}, 1000)}}})
			}
		}
		return UpAction{Reply: EncodeMsg(km)}
	})
	if err != nil {
		t.Fatal(err)
	}
	defer up.Close()
	pip := block + "10"
	cfg := &Config{Servers: StdServers(pip, []string{"tcp", "tls"}, ""), Upstreams: []UpstreamCfg{{Tag: "up", Addr: up.Addr()}}, Rules: []Rule{{Forward: "up"}}}
	p, err := StartProxy(cfg.YAML(), nil, ProxyOpts{})
	if err != nil {
		t.Fatal(err)
	}
	defer p.Cleanup()
	caseNo := 0
	rapid.Check(t, func(t *rapid.T) {
		caseNo++
		listener := rapid.SampledFrom([]string{"tcp", "tls"}).Draw(t, "listener")
		k := rapid.IntRange(60, 98).Draw(t, "pipelined")
		kib := rapid.IntRange(40, 60).Draw(t, "answerKiB")
		stall := time.Duration(rapid.IntRange(2300, 4200).Draw(t, "stallMs")) * time.Millisecond
		a := NewAsker(pip, "")
		var tlsCfg = a.TLS
		if listener == "tcp" {
			tlsCfg = nil
		}
		c, err := DialStream("", fmt.Sprintf("%s:%d", pip, ListenerPorts[listener]), tlsCfg, 3*time.Second)
		if err != nil {
			t.Fatalf("dial %s: %v", listener, err)
		}
		defer c.Close()
		type qi struct {
			id   uint16
			name vfkit.Name
		}
		byID := map[uint16]qi{}
		var stream []byte
		mk := func(i int) {
			lbl := fmt.Sprintf("s%dq%dp%d", caseNo, i, os.Getpid())
			sizes.Store(lbl, kib)
			q := qi{id: uint16(caseNo*128 + i), name: vfkit.Name{[]byte(lbl), []byte("c13s"), []byte("test")}}
			byID[q.id] = q
			stream = append(stream, frame(Query(q.id, q.name, 1, 1, false))...)
		}
		for i := 0; i < k; i++ {
			mk(i)
		}
		defer func() {
			for _, q := range byID {
				sizes.Delete(string(q.name[0]))
			}
		}()
		if _, err := c.C.Write(stream); err != nil {
			t.Fatalf("write: %v", err)
		}
		time.Sleep(stall) // not reading
		stream = nil
		mk(k)
		_, lateErr := c.C.Write(stream)
		frames, rest, closed := c.ReadFrames(k+1, 12*time.Second)
		desc := fmt.Sprintf("listener=%s, %d queries pipelined, answers of %d KiB, client read nothing for %v, then one more query (write error: %v)", listener, k, kib, stall, lateErr)
		seen := map[uint16]bool{}
		for i, f := range frames {
			if !f.Msg.Clean() {
				t.Fatalf("frame %d of the return stream does not decode (%v): the stream is no longer a sequence of whole frames; %s", i, f.Msg.Err, desc)
			}
			q, ok := byID[f.Msg.ID]
			if !ok {
				t.Fatalf("frame %d carries ID %d that was never sent; %s", i, f.Msg.ID, desc)
			}
			if seen[f.Msg.ID] {
				t.Fatalf("two responses with ID %d; %s", f.Msg.ID, desc)
			}
			seen[f.Msg.ID] = true
			if len(f.Msg.Q) != 1 || !f.Msg.Q[0].Name.Equal(q.name) {
				t.Fatalf("response with ID %d carries another question; %s", f.Msg.ID, desc)
			}
			if f.Msg.Rcode() == 0 {
				if rd, _, _, ok := ParseKeyed(f.Msg); !ok || !bytes.Equal(rd, KeyedRData(q.name, 1, 1, "c13s")) {
					t.Fatalf("response with ID %d does not carry the answer of its own query; %s", f.Msg.ID, desc)
				}
			}
		}
		if !closed && len(frames) != k+1 {
			t.Fatalf("%d whole frames for %d queries on a connection the listener kept open (%d stray octets behind them); %s\n%s", len(frames), k+1, len(rest), desc, tail(p.Stderr(), 600))
		}
		// (a listener that gave the connection up may have cut the last frame; nothing may follow a cut frame, which
		// is what "rest" not parsing into further frames already shows: ReadFrames stops at the first incomplete one)
		if cr := p.Crashed(); cr != "" || p.Exited() {
			t.Fatalf("proxy died: %s", cr)
		}
		st.Case(vfkit.Fingerprint(caseNo, os.Getpid(), listener, k, kib, stall), true, []string{"listener=" + listener, fmt.Sprintf("closed=%v", closed)}, func() any {
			return map[string]any{"listener": listener, "pipelined": k, "answer_kib": kib, "stall_ms": stall.Milliseconds(), "whole_frames": len(frames), "closed_by_listener": closed}
		})
	})
}
