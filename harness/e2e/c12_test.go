package vfe2e

// C12 - EDNS0 ends at the proxy; ECS reveals only a truncated client prefix.

import (
	"bytes"
	"encoding/binary"
	"fmt"
	"net/netip"
	"os"
	"sync"
	"testing"
	"time"

	"pgregory.net/rapid"
	"vfkit"
)

var c12Marker = []byte("VFMARK")

// c12Options draws EDNS options whose payloads contain the marker (so that a relayed option is visible).
func c12Options(t *rapid.T, side byte) []byte {
	var b []byte
	for i := rapid.IntRange(0, 3).Draw(t, "nOpt"); i > 0; i-- {
		payload := append(append([]byte(nil), c12Marker...), side, byte(i))
		switch rapid.IntRange(0, 3).Draw(t, "optKind") {
		case 0: // cookie (8 octets)
			b = append(b, vfkit.EDNSOption(10, payload[:8])...)
		case 1: // ECS supplied by the peer: family 1, /32, scope, address = marker prefix
			d := []byte{0, 1, 32, byte(rapid.IntRange(0, 32).Draw(t, "scope"))}
			d = append(d, payload[:4]...)
			b = append(b, vfkit.EDNSOption(8, d)...)
		case 2: // padding / NSID with marker
			b = append(b, vfkit.EDNSOption(uint16(rapid.SampledFrom([]int{3, 12}).Draw(t, "code")), payload)...)
		default:
			b = append(b, vfkit.EDNSOption(uint16(rapid.IntRange(65001, 65534).Draw(t, "code")), payload)...)
		}
	}
	return b
}

func c12RefECS(a netip.Addr) []byte {
	a = a.Unmap()
	if a.Is4() {
		x := a.As4()
		return append([]byte{0, 8, 0, 7, 0, 1, 24, 0}, x[:3]...)
	}
	x := a.As16()
	return append([]byte{0, 8, 0, 11, 0, 2, 56, 0}, x[:7]...)
}

type c12Script struct {
	opt     *vfkit.RR
	optPos  int
	extraAr int
	rcode   uint16
	// nearLimit > 0: the answer is padded so that its compressed form (without any OPT) is nearLimit - delta octets
	// long, i.e. the client's size limit leaves room for the OPT only just, or not at all
	nearLimit, delta int
	padInAr          bool
}

func TestVfC12Edns(t *testing.T) {
	st := vfkit.Stats("TestVfC12Edns", "cases of (ECS on/off, client address via UDP source 127.a.b.c / HTTP client-address header with v4, v6, v4-mapped addresses / abstract-unix HTTP listener = unknown, query without OPT or with OPT carrying marker-bearing options, DO bit, version, size; upstream reply without OPT or with OPT + options at any additional position; outcome reply / REFUSED / SERVFAIL; one UDP reply in three padded to 0-45 octets below the client's size limit of 512 or 1232, so that the owed OPT fits only just or not at all), each question asked twice (uncached then cached, OPT presence varied); oracles on the client side (OPT iff query had one, empty RDATA, one constant size, no marker octets) and on the upstream side (one lower-cased question, RD=1, exactly one OPT, RDATA empty or exactly the reference ECS encoding, no marker octets); non-trivial = an option on either side or a client address with bits beyond /24 resp. /56")
	defer vfkit.Flush()
	block := NextIPBlock()
	var scripts sync.Map
	up, err := StartUpstream("udp", "up", block+"2", 0, nil, func(q *UpQuery) UpAction {
		if q.Msg.Err != nil || len(q.Msg.Q) != 1 {
			return UpAction{}
		}
		m := KeyedAnswer(q.Msg, "c12", uint32(q.Seq), 300, 0)
		if v, ok := scripts.Load(string(q.Msg.Q[0].Name[0])); ok {
			sc := v.(*c12Script)
			m.Bits |= sc.rcode
			for i := 0; i < sc.extraAr; i++ {
				m.Ar = append(m.Ar, vfkit.RR{Owner: q.Msg.Q[0].Name, Type: 1, Class: 1, TTL: 300, RData: []vfkit.RDPart{{Raw: []byte{192, 0, 2, byte(i)}}}})
			}
			if sc.nearLimit > 0 {
				// (owner: the root, which no encoder can shorten; the length is measured on the fully compressed form, which
				// is what ends up in the datagram)
				pad := vfkit.RR{Owner: vfkit.Name{}, Type: 65280, Class: 1, TTL: 300, RData: []vfkit.RDPart{{Raw: nil}}}
				sec := &m.An
				if sc.padInAr {
					sec = &m.Ar // glue-like: when it has to be dropped, the OPT (which comes after it) must not go with it
				}
				*sec = append(*sec, pad)
				packed, _ := vfkit.Encode(m, vfkit.EncOpts{Compress: func() bool { return true }})
				if n := sc.nearLimit - sc.delta - len(packed); n > 0 {
					(*sec)[len(*sec)-1].RData = []vfkit.RDPart{{Raw: bytes.Repeat([]byte{0x61}, n)}}
				}
			}
			if sc.opt != nil {
				pos := sc.optPos
				if pos > len(m.Ar) {
					pos = len(m.Ar)
				}
				m.Ar = append(m.Ar[:pos:pos], append([]vfkit.RR{*sc.opt}, m.Ar[pos:]...)...)
			}
		}
		return UpAction{Reply: EncodeMsg(m)}
	})
	if err != nil {
		t.Fatal(err)
	}
	defer up.Close()
	type px struct {
		p    *Proxy
		ip   string
		unix string
	}
	proxies := map[bool]*px{}
	for i, ecs := range []bool{false, true} {
		pip := block + itoa(10+i)
		unix := fmt.Sprintf("@vf-c12-%d-%d", os.Getpid(), i)
		cfg := &Config{Servers: StdServers(pip, []string{"udp", "http", "fasthttp"}, "X-Client"),
			Upstreams:  []UpstreamCfg{{Tag: "up", Addr: up.Addr()}, {Tag: "dead", Addr: "tcp://" + block + "3:9"}},
			DomainSets: []DomainSet{{Tag: "ok", Files: []string{"$DIR/ok.txt"}}, {Tag: "dead", Files: []string{"$DIR/dead.txt"}}},
			Rules:      []Rule{{Domain: "ok", Forward: "up"}, {Domain: "dead", Forward: "dead"}},
			Cache:      &CacheCfg{MemSize: 8 << 20}, ECS: &ECSCfg{Enabled: ecs}}
		cfg.Servers = append(cfg.Servers, ServerCfg{Tag: "unix", Protocol: "http", Listen: unix})
		p, err := StartProxy(cfg.YAML(), map[string]string{"ok.txt": "ok.test\n", "dead.txt": "dead.test\n"}, ProxyOpts{})
		if err != nil {
			t.Fatal(err)
		}
		defer p.Cleanup()
		if p.Exited() {
			t.Fatalf("proxy exited: %s", tail(p.Stderr(), 1500))
		}
		proxies[ecs] = &px{p, pip, unix}
	}
	sizes := map[uint16]bool{}
	seq := 0
	rapid.Check(t, func(t *rapid.T) {
		seq++
		ecs := rapid.Bool().Draw(t, "ecs")
		P := proxies[ecs]
		// client address
		var known bool
		var addr netip.Addr
		var ask func(q []byte) *AskResult
		var closer func()
		via := rapid.SampledFrom([]string{"udp", "http-header", "fasthttp-header", "unix", "http-noheader"}).Draw(t, "via")
		switch via {
		case "udp":
			addr = netip.AddrFrom4([4]byte{127, byte(rapid.IntRange(1, 250).Draw(t, "b")), byte(rapid.IntRange(0, 255).Draw(t, "c")), byte(rapid.IntRange(1, 254).Draw(t, "d"))})
			known = true
			a := NewAsker(P.ip, addr.String())
			ask = func(q []byte) *AskResult { return a.AskPatient("udp", q, 3*time.Second) }
			closer = a.Close
		case "http-header", "fasthttp-header":
			switch rapid.IntRange(0, 2).Draw(t, "family") {
			case 0:
				addr = netip.AddrFrom4([4]byte(rapid.SliceOfN(rapid.ByteRange(1, 255), 4, 4).Draw(t, "v4")))
			case 1:
				x := [16]byte(rapid.SliceOfN(rapid.ByteRange(1, 255), 16, 16).Draw(t, "v6"))
				x[0] = 0x20
				addr = netip.AddrFrom16(x)
			default:
				addr = netip.AddrFrom16(netip.AddrFrom4([4]byte(rapid.SliceOfN(rapid.ByteRange(1, 255), 4, 4).Draw(t, "v4m"))).As16())
			}
			known = true
			a := NewAsker(P.ip, "")
			a.Header = map[string]string{"X-Client": addr.String()}
			kind := map[string]string{"http-header": "http", "fasthttp-header": "fasthttp"}[via]
			ask = func(q []byte) *AskResult { return a.AskPatient(kind, q, 3*time.Second) }
			closer = a.Close
		case "http-noheader":
			// header configured but absent: the client address is unknown to the proxy
			a := NewAsker(P.ip, "")
			ask = func(q []byte) *AskResult { return a.AskPatient("http", q, 3*time.Second) }
			closer = a.Close
		default:
			c := NewDoHClient("http", "", P.unix, nil)
			ask = func(q []byte) *AskResult {
				r, err := c.Do("POST", q, nil)
				res := &AskResult{Err: err}
				if err == nil {
					res.Status = r.Status
					if r.Status == 200 {
						res.Resps = []*Resp{r}
					}
				}
				return res
			}
			closer = c.Close
		}
		defer closer()
		outcome := rapid.SampledFrom([]string{"reply", "reply", "reply", "rcode", "refused", "servfail", "notimp"}).Draw(t, "outcome")
		label := fmt.Sprintf("q%dp%d", seq, os.Getpid())
		var name vfkit.Name
		longName := false
		switch outcome {
		case "refused":
			name = vfkit.Name{[]byte(label), []byte("nowhere"), []byte("example")}
		case "servfail":
			name = vfkit.Name{[]byte(label), []byte("dead"), []byte("test")}
		default:
			name = vfkit.Name{[]byte(label), []byte("Ok"), []byte("TEST")}
			if rapid.IntRange(0, 7).Draw(t, "longName") == 0 {
				// a name of 240-255 octets: question and one answer record alone fill most of a 512-octet datagram, and the
				// OPT the client is owed still has to be in the response
				fill := rapid.IntRange(228, 243).Draw(t, "nameFill") - len(label)
				var mid vfkit.Name
				for fill > 1 {
					l := min(63, fill-1)
					mid = append(mid, bytes.Repeat([]byte{'w'}, l))
					fill -= l + 1
				}
				name = append(append(vfkit.Name{[]byte(label)}, mid...), []byte("Ok"), []byte("TEST"))
				longName = true
			}
		}
		sc := &c12Script{}
		if outcome == "rcode" {
			sc.rcode = uint16(rapid.SampledFrom([]int{3, 2, 5, 1, 1, 4, 9}).Draw(t, "upRcode")) // incl. FORMERR / NOTIMP, with or without an OPT: what a server without EDNS says
		}
		upOpts := false
		if rapid.Bool().Draw(t, "upOPT") {
			o := vfkit.RR{Type: 41, Class: rapid.SampledFrom([]uint16{512, 1232, 4096, 65535}).Draw(t, "upSize"), TTL: rapid.SampledFrom([]uint32{0, 0x8000, 0x01000000}).Draw(t, "upTTL"),
				RData: []vfkit.RDPart{{Raw: c12Options(t, 'U')}}}
			sc.opt = &o
			sc.extraAr = rapid.IntRange(0, 2).Draw(t, "extraAr")
			sc.optPos = rapid.IntRange(0, sc.extraAr).Draw(t, "optPos")
			upOpts = len(o.RDataWire()) > 0
		}
		if via == "udp" && outcome == "reply" && rapid.IntRange(0, 2).Draw(t, "nearLimit") == 0 {
			// the answer fills the client's UDP size limit up to a few octets: the OPT the client is owed fits only just,
			// or something has to give way to it
			sc.nearLimit = rapid.SampledFrom([]int{512, 1232}).Draw(t, "limit")
			sc.delta = rapid.IntRange(0, 45).Draw(t, "octetsBelowLimit")
			sc.padInAr = rapid.Bool().Draw(t, "padInAdditional")
		}
		scripts.Store(label, sc)
		defer scripts.Delete(label)
		qtype := rapid.SampledFrom([]uint16{1, 28, 16}).Draw(t, "qtype")
		clientOpts := false
		mkQuery := func(id uint16, withOPT bool) []byte {
			m := &vfkit.Msg{ID: id, Bits: vfkit.BitRD, Q: []vfkit.Question{{Name: name, Type: qtype, Class: 1}}}
			if outcome == "notimp" {
				m.Bits = 0 // RD=0: unsupported
			}
			if withOPT {
				cSizes := []uint16{0, 512, 1232, 4096, 65535}
				if sc.nearLimit == 512 {
					cSizes = []uint16{0, 300, 512}
				} else if sc.nearLimit == 1232 {
					cSizes = []uint16{1232}
				}
				o := vfkit.RR{Type: 41, Class: rapid.SampledFrom(cSizes).Draw(t, "cSize"), TTL: rapid.SampledFrom([]uint32{0, 0x8000, 0x00010000, 0x05000000}).Draw(t, "cTTL"),
					RData: []vfkit.RDPart{{Raw: c12Options(t, 'C')}}}
				if len(o.RDataWire()) > 0 {
					clientOpts = true
				}
				m.Ar = append(m.Ar, o)
				// (the OPT is not always the only or the last additional record of a query)
				other := vfkit.RR{Owner: vfkit.Name{[]byte("key")}, Type: 65281, Class: 255, RData: []vfkit.RDPart{{Raw: []byte{1, 2, 3, 4}}}}
				switch rapid.IntRange(0, 5).Draw(t, "optCompany") {
				case 0:
					m.Ar = append(m.Ar, other)
				case 1:
					m.Ar = append([]vfkit.RR{other}, m.Ar...)
				}
			}
			return EncodeMsg(m)
		}
		before := up.NumQueries()
		for round := 0; round < 2; round++ {
			withOPT := rapid.Bool().Draw(t, "withOPT")
			id := uint16(seq*4 + round)
			q := mkQuery(id, withOPT)
			res := ask(q)
			if via == "udp" && len(res.Resps) == 0 && res.Err == nil {
				res = ask(q)
			}
			desc := fmt.Sprintf("ecs=%v via=%s addr=%v outcome=%s round=%d withOPT=%v upstreamOPT=%v query=%s", ecs, via, addr, outcome, round, withOPT, sc.opt != nil, vfkit.Hex(q))
			if res.Err != nil || len(res.Resps) != 1 {
				t.Fatalf("no single response (err=%v n=%d status=%d); %s", res.Err, len(res.Resps), res.Status, desc)
			}
			r := res.Resps[0]
			if !r.Msg.Clean() {
				t.Fatalf("response does not decode: %v; %s", r.Msg.Err, desc)
			}
			nOPT := 0
			var opt vfkit.RR
			for _, rr := range r.Msg.Ar {
				if rr.Type == 41 {
					nOPT++
					opt = rr
				}
			}
			for _, s := range [][]vfkit.RR{r.Msg.An, r.Msg.Ns} {
				for _, rr := range s {
					if rr.Type == 41 {
						t.Fatalf("OPT outside the additional section; %s", desc)
					}
				}
			}
			if !withOPT && nOPT != 0 {
				t.Fatalf("response to a query without OPT contains %d OPT records (rcode %d); %s", nOPT, r.Msg.Rcode(), desc)
			}
			if withOPT && outcome == "notimp" {
				// an unsupported query with an OPT may get none or one (the statement leaves that open)
				if nOPT > 1 {
					t.Fatalf("%d OPT records in a NOTIMP response; %s", nOPT, desc)
				}
			} else if withOPT {
				if nOPT != 1 {
					t.Fatalf("response to a supported query with OPT contains %d OPT records (rcode %d); %s", nOPT, r.Msg.Rcode(), desc)
				}
				if len(opt.RDataWire()) != 0 {
					t.Fatalf("response OPT carries options %x; %s", opt.RDataWire(), desc)
				}
				if opt.Class < 512 {
					t.Fatalf("response OPT advertises UDP size %d; %s", opt.Class, desc)
				}
				// The fixed fields of the response OPT are the proxy's own statement: its upper RCODE bits are part of the
				// RCODE an EDNS client reads (RFC 6891 6.1.3), and the version is the one the proxy speaks (0). Whatever the
				// client (or the upstream) put there must not come back. (The DO/Z flag bits are left alone: copying DO is
				// permitted.)
				if ext := opt.TTL >> 24; ext != 0 {
					t.Fatalf("the response OPT carries extended RCODE bits %#x: an EDNS client reads RCODE %d where the proxy answered %d; %s", ext, int(ext)<<4|r.Msg.Rcode(), r.Msg.Rcode(), desc)
				}
				if ver := (opt.TTL >> 16) & 0xff; ver != 0 {
					t.Fatalf("the response OPT claims EDNS version %d; %s", ver, desc)
				}
				sizes[opt.Class] = true
				if len(sizes) > 1 {
					t.Fatalf("the advertised UDP size is not a constant of the proxy: seen %v; %s", sizes, desc)
				}
			}
			if bytes.Contains(r.Raw, c12Marker) {
				t.Fatalf("option octets of the client or the upstream appear in the response %s; %s", vfkit.Hex(r.Raw), desc)
			}
			wantRcode := map[string]int{"reply": 0, "rcode": int(sc.rcode), "refused": 5, "servfail": 2, "notimp": 4}[outcome]
			if r.Msg.Rcode() != wantRcode {
				t.Fatalf("rcode %d, expected %d; %s", r.Msg.Rcode(), wantRcode, desc)
			}
		}
		// upstream side
		time.Sleep(time.Millisecond)
		qs := up.Queries()[before:]
		mine := 0
		for _, uq := range qs {
			if uq.Msg.Err != nil || len(uq.Msg.Q) != 1 || !uq.Msg.Q[0].Name.Equal(name.Lower()) {
				continue
			}
			mine++
			desc := fmt.Sprintf("ecs=%v via=%s addr=%v upstream query %s", ecs, via, addr, vfkit.Hex(uq.Raw))
			if !uq.Msg.Clean() {
				t.Fatalf("upstream query is not a clean message; %s", desc)
			}
			if !uq.Msg.Has(vfkit.BitRD) || uq.Msg.Has(vfkit.BitQR) || uq.Msg.Q[0].Type != qtype || uq.Msg.Q[0].Class != 1 {
				t.Fatalf("upstream query header/question wrong; %s", desc)
			}
			n := 0
			var o vfkit.RR
			for _, rr := range uq.Msg.Ar {
				if rr.Type == 41 {
					n++
					o = rr
				}
			}
			if n != 1 || len(uq.Msg.An)+len(uq.Msg.Ns) != 0 || len(uq.Msg.Ar) != 1 {
				t.Fatalf("upstream query must carry exactly one OPT and nothing else (has %d OPT, %d other records); %s", n, len(uq.Msg.An)+len(uq.Msg.Ns)+len(uq.Msg.Ar)-n, desc)
			}
			var want []byte
			if ecs && known {
				want = c12RefECS(addr)
			}
			if !bytes.Equal(o.RDataWire(), want) {
				t.Fatalf("upstream OPT RDATA %x, expected %x (ECS enabled=%v, client address known=%v); %s", o.RDataWire(), want, ecs, known, desc)
			}
			if bytes.Contains(uq.Raw, c12Marker) {
				t.Fatalf("client option octets were relayed upstream; %s", desc)
			}
		}
		if outcome == "reply" || outcome == "rcode" {
			if mine < 1 {
				t.Fatalf("no upstream query seen for %s", name)
			}
		} else if (outcome == "refused" || outcome == "notimp") && mine != 0 {
			t.Fatalf("upstream contacted for an unrouted name")
		}
		beyond := false
		if known {
			u := addr.Unmap()
			if u.Is4() {
				beyond = u.As4()[3] != 0
			} else {
				x := u.As16()
				for _, c := range x[7:] {
					beyond = beyond || c != 0
				}
			}
		}
		classes := []string{"via=" + via, "outcome=" + outcome, fmt.Sprintf("ecs=%v", ecs)}
		if mine == 1 && (outcome == "reply" || outcome == "rcode") {
			classes = append(classes, "second-ask-from-cache")
		}
		if sc.nearLimit > 0 {
			classes = append(classes, "answer-within-45-octets-of-the-udp-limit")
		}
		if longName {
			classes = append(classes, "name-of-240-255-octets")
		}
		st.Case(vfkit.Fingerprint(ecs, via, addr.String(), outcome, seq), clientOpts || upOpts || beyond, classes, func() any {
			return map[string]any{"ecs": ecs, "via": via, "addr": addr.String(), "outcome": outcome, "upstream_queries": mine}
		})
		_ = binary.BigEndian
	})
}

// TestVfC12Prefetch: the upstream queries the proxy makes on its own initiative. An entry with a short lifetime is hit
// again in its last quarter, which makes the proxy refresh it in the background (or, if the entry has just left the
// cache, fetch it again on the request path): whichever it is, that upstream query still has to carry exactly one OPT with
// exactly the asking client's truncated prefix - not the listener's address, not nothing.
func TestVfC12Prefetch(t *testing.T) {
	st := vfkit.Stats("TestVfC12Prefetch", "ECS on, memory cache on, upstream TTL 4 s; per case 6-20 names in parallel, each asked by one client (UDP source 127.a.b.c, or the client-address header of the http / fasthttp listeners with v4, v6, v4-mapped addresses) at t=0 and again at t=3.1-3.8 s (refresh window); oracle: every upstream query for the name - first fetch, background refresh or re-fetch - carries exactly one OPT whose RDATA is the reference ECS encoding of that client; non-trivial = a second upstream query was seen for the name")
	defer vfkit.Flush()
	block := NextIPBlock()
	up, err := StartUpstream("udp", "up", block+"2", 0, nil, func(q *UpQuery) UpAction {
		if q.Msg.Err != nil || len(q.Msg.Q) != 1 {
			return UpAction{}
		}
		return UpAction{Reply: EncodeMsg(KeyedAnswer(q.Msg, "c12p", uint32(q.Seq), 4, 0))}
	})
	if err != nil {
		t.Fatal(err)
	}
	defer up.Close()
	pip := block + "10"
	cfg := &Config{Servers: StdServers(pip, []string{"udp", "tcp", "http", "fasthttp"}, "X-Client"),
		Upstreams: []UpstreamCfg{{Tag: "up", Addr: up.Addr()}}, Rules: []Rule{{Forward: "up"}},
		Cache: &CacheCfg{MemSize: 8 << 20}, ECS: &ECSCfg{Enabled: true}}
	p, err := StartProxy(cfg.YAML(), nil, ProxyOpts{})
	if err != nil {
		t.Fatal(err)
	}
	defer p.Cleanup()
	caseNo := 0
	rapid.Check(t, func(t *rapid.T) {
		caseNo++
		type nm struct {
			name   vfkit.Name
			via    string
			addr   netip.Addr
			second time.Duration
		}
		n := rapid.IntRange(6, 20).Draw(t, "names")
		names := make([]nm, n)
		for i := range names {
			x := nm{name: vfkit.Name{[]byte(fmt.Sprintf("f%dn%dp%d", caseNo, i, os.Getpid())), []byte("c12p"), []byte("test")}}
			x.via = rapid.SampledFrom([]string{"udp", "tcp", "http", "fasthttp"}).Draw(t, "via")
			switch {
			case x.via == "udp" || x.via == "tcp":
				x.addr = netip.AddrFrom4([4]byte{127, byte(rapid.IntRange(1, 250).Draw(t, "b")), byte(rapid.IntRange(0, 255).Draw(t, "c")), byte(rapid.IntRange(1, 254).Draw(t, "d"))})
			default:
				switch rapid.IntRange(0, 2).Draw(t, "family") {
				case 0:
					x.addr = netip.AddrFrom4([4]byte(rapid.SliceOfN(rapid.ByteRange(1, 255), 4, 4).Draw(t, "v4")))
				case 1:
					b := [16]byte(rapid.SliceOfN(rapid.ByteRange(1, 255), 16, 16).Draw(t, "v6"))
					b[0] = 0x20
					x.addr = netip.AddrFrom16(b)
				default:
					x.addr = netip.AddrFrom16(netip.AddrFrom4([4]byte(rapid.SliceOfN(rapid.ByteRange(1, 255), 4, 4).Draw(t, "v4m"))).As16())
				}
			}
			x.second = time.Duration(rapid.IntRange(3100, 3800).Draw(t, "secondAskMs")) * time.Millisecond
			names[i] = x
		}
		before := up.NumQueries()
		errs := make(chan string, n)
		for _, x := range names {
			go func(x nm) {
				src := ""
				if x.via == "udp" || x.via == "tcp" {
					src = x.addr.String()
				}
				a := NewAsker(pip, src)
				defer a.Close()
				if src == "" {
					a.Header = map[string]string{"X-Client": x.addr.String()}
				}
				start := time.Now()
				for round, at := range []time.Duration{0, x.second} {
					time.Sleep(time.Until(start.Add(at)))
					res := a.AskPatient(x.via, Query(uint16(caseNo*64+round), x.name, 1, 1, false), 3*time.Second)
					if x.via == "udp" && len(res.Resps) == 0 && res.Err == nil {
						res = a.Ask(x.via, Query(uint16(caseNo*64+round), x.name, 1, 1, false), 3*time.Second, 0)
					}
					if res.Err != nil || len(res.Resps) != 1 || res.Resps[0].Msg.Rcode() != 0 {
						errs <- fmt.Sprintf("%s via %s round %d: no single NOERROR response (err=%v n=%d)", x.name, x.via, round, res.Err, len(res.Resps))
						return
					}
				}
				errs <- ""
			}(x)
		}
		for range names {
			if e := <-errs; e != "" {
				t.Fatalf("%s", e)
			}
		}
		time.Sleep(300 * time.Millisecond) // background refreshes reach the upstream
		byName := map[string][]*UpQuery{}
		for _, uq := range up.Queries()[before:] {
			if uq.Msg.Err == nil && len(uq.Msg.Q) == 1 {
				k := string(uq.Msg.Q[0].Name.Lower().Wire())
				byName[k] = append(byName[k], uq)
			}
		}
		second := 0
		for _, x := range names {
			qs := byName[string(x.name.Lower().Wire())]
			if len(qs) == 0 {
				t.Fatalf("no upstream query for %s", x.name)
			}
			if len(qs) >= 2 {
				second++
			}
			for i, uq := range qs {
				n := 0
				var o vfkit.RR
				for _, rr := range uq.Msg.Ar {
					if rr.Type == 41 {
						n++
						o = rr
					}
				}
				want := c12RefECS(x.addr)
				if n != 1 || !bytes.Equal(o.RDataWire(), want) {
					which := "the first fetch"
					if i > 0 {
						which = fmt.Sprintf("upstream query #%d (background refresh or re-fetch, %v after the first)", i+1, uq.At.Sub(qs[0].At).Round(time.Millisecond))
					}
					t.Fatalf("%s for %s, asked by client %v via %s, carries %d OPT with RDATA %x; expected exactly the client's prefix %x", which, x.name, x.addr, x.via, n, o.RDataWire(), want)
				}
			}
		}
		st.Class("names", n)
		st.Class("names-with-a-second-upstream-query", second)
		st.Case(vfkit.Fingerprint(caseNo, os.Getpid(), fmt.Sprint(names)), second > 0, nil, func() any {
			return map[string]any{"names": n, "with_second_upstream_query": second}
		})
	})
}
