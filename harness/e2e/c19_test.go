package vfe2e

// C19 - prefetch is single-flight and never delays a cache hit.
// The fake upstream HOLDS every refresh reply until the harness has collected all responses of the
// burst (or 3 s passed), so "the hit waited for the refresh" is decided by the order of events.

import (
	"fmt"
	"net/netip"
	"os"
	"strings"
	"sync"
	"sync/atomic"
	"testing"
	"time"

	"pgregory.net/rapid"
	"vfkit"
)

type c19Name struct {
	label   string
	ttl     uint32
	groups  []string // source addresses, one per client group taking part
	burstAt time.Duration
	burst   []int  // burst size per group
	members []int  // number of distinct client addresses (same /24, same group) the burst of a group comes from
	outcome string // success, nxdomain, servfail, refused, garbage, silence, conn-closed
	viaTCP  bool   // routed to the TCP upstream (transport errors are immediate there) instead of the UDP one
	viaStore bool  // asked at the proxy whose cache is the second-level store only (kit/fakeredis.go)
	newTTL  uint32

	primes    int32
	fetches   atomic.Int32
	gate      chan struct{}
	gateOpen  atomic.Bool
	after     atomic.Bool     // the refresh phase is over: later fetches are ordinary misses
	held      atomic.Int32    // refresh fetches that arrived while the gate was closed
	heldBy    [3]atomic.Int32 // the same, per client group (attributed through the ECS option of the upstream query)
	nonPrime  [3]atomic.Int32 // every fetch after priming, per client group (held or not)
	misrouted atomic.Value    // description of an upstream query for this name that arrived at the other upstream
	serials   sync.Map        // serial -> fetch index
}

// c19GroupOf attributes an upstream query to a client group through its ECS option (ECS is enabled in this
// check's proxy; the three groups use three different /24s).
func c19GroupOf(q *UpQuery) int {
	if q.Msg.Err != nil {
		return -1
	}
	opt := q.Msg.Opt()
	if opt == nil {
		return -1
	}
	rd := opt.RDataWire()
	if len(rd) < 11 || rd[0] != 0 || rd[1] != 8 {
		return -1
	}
	switch {
	case rd[8] == 127 && rd[9] == 20:
		return 0
	case rd[8] == 127 && rd[9] == 21:
		return 1
	case rd[8] == 127 && rd[9] == 23:
		return 2
	}
	return -1
}

func TestVfC19Prefetch(t *testing.T) {
	st := vfkit.Stats("TestVfC19Prefetch", "runs of 20-80 independent names: TTL in {6,8,10,12} s, entries primed for 1-3 client groups, then a burst of 1-120 concurrent hits per group (from 1, 2 or 4 client addresses of the group) at a drawn instant inside the last quarter of the lifetime (in every other run the primings are staggered so that all bursts fall on one instant and every refresh is held until all bursts of the run are answered: 40-160 refreshes in flight at once); the upstream holds the refresh reply until all burst responses are collected (or 3 s), then the refresh ends as success (new TTL 30 / 60 s, or 1 / 2 s, i.e. less than what is left of the old entry) / success answered only after the old entry expired / NOERROR-NODATA / NXDOMAIN / SERVFAIL / REFUSED / a truncated (TC) reply / garbage / silence / connection closed, over a UDP or a TCP upstream (where transport errors are immediate), one name in three at a proxy whose cache is the harness's RESP3 store only; oracles: every hit of the burst is answered from the old entry while the refresh is held, exactly one refresh per group is started and in flight, after a successful refresh later hits carry the new fetch (without a further upstream query when the reply came after the old expiry), after a failed or negative refresh the old entry is served until its expiry and not 2 s beyond, and a further hit in the window starts a new refresh (the reservation ended with the refresh); non-trivial = burst >= 2 inside the window")
	defer vfkit.Flush()
	block := NextIPBlock()
	var names sync.Map
	handler := func(q *UpQuery) UpAction {
		if q.Msg.Err != nil || len(q.Msg.Q) != 1 {
			return UpAction{}
		}
		v, ok := names.Load(string(q.Msg.Q[0].Name[0]))
		if !ok {
			return UpAction{}
		}
		n := v.(*c19Name)
		if (q.Up.Tag == "uptcp") != n.viaTCP || q.Msg.Q[0].Type != 1 || q.Msg.Q[0].Class != 1 {
			// fetches and refreshes of a name go to the upstream its rule selects, for the question that was asked
			n.misrouted.CompareAndSwap(nil, fmt.Sprintf("upstream query #%d for %s arrived at upstream %q as type %d class %d (the rule for this name selects %q, the clients ask type 1 class 1)", n.fetches.Load()+1, n.label, q.Up.Tag, q.Msg.Q[0].Type, q.Msg.Q[0].Class, map[bool]string{true: "uptcp", false: "up"}[n.viaTCP]))
		}
		k := n.fetches.Add(1) - 1
		n.serials.Store(uint32(q.Seq), int(k))
		if k < n.primes {
			return UpAction{Reply: EncodeMsg(KeyedAnswer(q.Msg, "c19", uint32(q.Seq), n.ttl, 0))}
		}
		if !n.after.Load() {
			// a refresh (or a request-path fetch during the refresh phase): scripted outcome, held while the gate is closed
			a := UpAction{}
			if g := c19GroupOf(q); g >= 0 {
				n.nonPrime[g].Add(1)
			}
			if !n.gateOpen.Load() {
				n.held.Add(1)
				if g := c19GroupOf(q); g >= 0 {
					n.heldBy[g].Add(1)
				}
				a.Gate = n.gate
			}
			switch n.outcome {
			case "success", "slow-success":
				a.Reply = EncodeMsg(KeyedAnswer(q.Msg, "c19", uint32(q.Seq), n.newTTL, 0))
			case "nodata":
				// a successful answer that says "no such data any more": NOERROR, empty answer section, SOA in the authority
				m := KeyedAnswer(q.Msg, "c19", uint32(q.Seq), n.newTTL, 0)
				m.An = nil
				zone := q.Msg.Q[0].Name[1:]
				m.Ns = []vfkit.RR{{Owner: zone, Type: 6, Class: 1, TTL: n.newTTL, RData: []vfkit.RDPart{{IsName: true, Name: append(vfkit.Name{[]byte("ns")}, zone...)}, {IsName: true, Name: append(vfkit.Name{[]byte("hostmaster")}, zone...)}, {Raw: []byte{0, 0, 0, 1, 0, 0, 14, 16, 0, 0, 7, 8, 0, 9, 58, 128, 0, 0, 0, 60}}}}}
				a.Reply = EncodeMsg(m)
			case "nxdomain":
				m := KeyedAnswer(q.Msg, "c19", uint32(q.Seq), 30, 3)
				a.Reply = EncodeMsg(m)
			case "truncated":
				// NOERROR, TC=1, nothing in it (over the udp upstream the TCP leg gets the same reply): not an answer to keep
				m := KeyedAnswer(q.Msg, "c19", uint32(q.Seq), 30, 0)
				m.An = nil
				m.Bits |= vfkit.BitTC
				a.Reply = EncodeMsg(m)
			case "servfail":
				a.Reply = EncodeMsg(KeyedAnswer(q.Msg, "c19", uint32(q.Seq), 30, 2))
			case "refused":
				a.Reply = EncodeMsg(KeyedAnswer(q.Msg, "c19", uint32(q.Seq), 30, 5))
			case "garbage":
				a.Reply = []byte{q.Raw[0], q.Raw[1], 0x81, 0x80, 0xff, 0xff, 0xff, 0xff, 0, 0, 0, 0}
			case "conn-closed":
				a.CloseBefore = true // tcp: the exchange fails at once; udp: the same as silence
			}
			return a
		}
		// fetches after the refresh phase
		return UpAction{Reply: EncodeMsg(KeyedAnswer(q.Msg, "c19", uint32(q.Seq), 30, 0))}
	}
	up, err := StartUpstream("udp", "up", block+"2", 0, nil, handler)
	if err != nil {
		t.Fatal(err)
	}
	defer up.Close()
	upTCP, err := StartUpstream("tcp", "uptcp", block+"3", 0, nil, handler)
	if err != nil {
		t.Fatal(err)
	}
	defer upTCP.Close()
	pip := block + "10"
	cfg := &Config{Servers: StdServers(pip, []string{"udp"}, ""), Upstreams: []UpstreamCfg{{Tag: "up", Addr: up.Addr()}, {Tag: "uptcp", Addr: upTCP.Addr()}},
		DomainSets: []DomainSet{{Tag: "viatcp", Files: []string{"$DIR/viatcp.txt"}}},
		// (routing through a reversed rule: names outside the set go to "up", the ones inside fall through to "uptcp")
		Rules: []Rule{{Domain: "viatcp", Reverse: true, Forward: "up"}, {Forward: "uptcp"}},
		Cache: &CacheCfg{MemSize: 64 << 20, IpMarker: "$DIR/marker.txt"}, ECS: &ECSCfg{Enabled: true}}
	p, err := StartProxy(cfg.YAML(), map[string]string{"marker.txt": c07Marker, "viatcp.txt": "prefetchtcp.test\n"}, ProxyOpts{})
	if err != nil {
		t.Fatal(err)
	}
	defer p.Cleanup()
	// a second proxy with the same rules whose cache is the harness's RESP3 store only: hits, the refresh window (computed
	// from the whole-second times the store keeps) and the replacing store of a refresh all go through the store client
	store, err := vfkit.StartFakeRedis(block + "4")
	if err != nil {
		t.Fatal(err)
	}
	defer store.Close()
	pip2 := block + "11"
	cfg2 := *cfg
	cfg2.Servers = StdServers(pip2, []string{"udp"}, "")
	cfg2.Cache = &CacheCfg{Redis: store.URL(), IpMarker: "$DIR/marker.txt"}
	p2, err := StartProxy(cfg2.YAML(), map[string]string{"marker.txt": c07Marker, "viatcp.txt": "prefetchtcp.test\n"}, ProxyOpts{})
	if err != nil {
		t.Fatal(err)
	}
	defer p2.Cleanup()
	for until := time.Now().Add(5 * time.Second); store.Pings.Load() < 2 && time.Now().Before(until); {
		time.Sleep(20 * time.Millisecond)
	}
	groupAddr := []string{"127.20.9.", "127.21.0.", "127.23.0."} // g1, g2, none
	runNo := 0
	rapid.Check(t, func(t *rapid.T) {
		runNo++
		nNames := rapid.IntRange(20, 80).Draw(t, "nNames")
		all := make([]*c19Name, nNames)
		// "together": every name's burst falls on the same instant and every refresh reply is held until the bursts of ALL
		// names have been answered - so there are as many refreshes in flight at once as there are (name, group) pairs, far
		// more than any internal pool or limit of refresh workers would hold, and a hit that has to wait for a free one
		// waits for the release that waits for it.
		together := rapid.IntRange(0, 1).Draw(t, "burstsTogether") == 0
		budget := 6000
		if together {
			budget = 1500
		}
		for i := range all {
			n := &c19Name{label: fmt.Sprintf("r%dn%dp%d", runNo, i, os.Getpid()), gate: make(chan struct{})}
			n.ttl = rapid.SampledFrom([]uint32{6, 8, 10, 12}).Draw(t, "ttl")
			ng := rapid.IntRange(1, 3).Draw(t, "nGroups")
			for g := 0; g < ng; g++ {
				n.groups = append(n.groups, groupAddr[g]+itoa(1+rapid.IntRange(0, 200).Draw(t, "host")))
				b := rapid.IntRange(1, 8).Draw(t, "burst")
				if rapid.IntRange(0, 5).Draw(t, "bigBurst") == 0 {
					b = rapid.IntRange(20, 120).Draw(t, "bigBurstSize")
				}
				if budget-b < 0 {
					b = 1
				}
				budget -= b
				n.burst = append(n.burst, b)
				n.members = append(n.members, rapid.SampledFrom([]int{1, 1, 2, 4}).Draw(t, "members"))
			}
			n.primes = int32(ng)
			// last quarter: (0.75 T, T). The cache clock has a granularity of one second (an entry may leave the
			// cache up to 1 s before its nominal expiry), so the burst is placed where more than 1.3 s of the
			// lifetime remain, and 150 ms after the start of the window.
			q := time.Duration(n.ttl) * time.Second / 4
			n.burstAt = 3*q + 150*time.Millisecond + time.Duration(rapid.IntRange(0, int((q-1450*time.Millisecond)/time.Millisecond)).Draw(t, "intoWindowMs"))*time.Millisecond
			n.outcome = rapid.SampledFrom([]string{"success", "success", "slow-success", "nodata", "nxdomain", "servfail", "refused", "truncated", "garbage", "silence", "conn-closed"}).Draw(t, "outcome")
			n.viaTCP = rapid.Bool().Draw(t, "viaTCP")
			n.viaStore = rapid.IntRange(0, 2).Draw(t, "viaStore") == 0
			n.newTTL = rapid.SampledFrom([]uint32{30, 60}).Draw(t, "newTTL")
			if n.outcome == "success" && rapid.IntRange(0, 2).Draw(t, "shortRefresh") == 0 {
				// the refreshed answer lives shorter than what is left of the old entry: it still replaces it
				n.newTTL = rapid.SampledFrom([]uint32{1, 2}).Draw(t, "shortTTL")
			}
			all[i] = n
			names.Store(n.label, n)
		}
		defer func() {
			for _, n := range all {
				names.Delete(n.label)
			}
		}()
		var firstErr atomic.Value
		fail := func(format string, args ...any) { firstErr.CompareAndSwap(nil, fmt.Sprintf(format, args...)) }
		var bursts2, relChecked atomic.Int32
		var wg sync.WaitGroup
		var pendingBursts atomic.Int32
		pendingBursts.Store(int32(len(all)))
		allAnswered := make(chan struct{})
		var maxBurstAt time.Duration
		for _, n := range all {
			if n.burstAt > maxBurstAt {
				maxBurstAt = n.burstAt
			}
		}
		burstInstant := time.Now().Add(maxBurstAt + 500*time.Millisecond)
		for _, n := range all {
			wg.Add(1)
			go func(n *c19Name) {
				defer wg.Done()
				var burstCounted atomic.Bool
				burstDone := func() {
					if !burstCounted.Swap(true) && pendingBursts.Add(-1) == 0 {
						close(allAnswered)
					}
				}
				defer burstDone()
				if together {
					// prime so late that this name's burst (burstAt after priming) falls on the common instant
					time.Sleep(time.Until(burstInstant.Add(-n.burstAt)))
				}
				defer func() {
					if !n.gateOpen.Swap(true) {
						close(n.gate)
					}
				}()
				pip := pip
				if n.viaStore {
					pip = pip2
				}
				name := vfkit.Name{[]byte(n.label), []byte("prefetch"), []byte("test")}
				if n.viaTCP {
					name[1] = []byte("prefetchtcp")
				}
				clients := make([]*UDPClient, len(n.groups))
				for g, src := range n.groups {
					c, err := NewUDPClient(src, fmt.Sprintf("%s:%d", pip, ListenerPorts["udp"]))
					if err != nil {
						fail("udp client %s: %v", src, err)
						return
					}
					defer c.Close()
					clients[g] = c
				}
				// further members of the same client group: other hosts of the same /24 (the group is a property of the
				// subnet, the single-flight rule is per group, not per address)
				extra := make([][]*UDPClient, len(n.groups))
				for g, src := range n.groups {
					base := src[:strings.LastIndex(src, ".")+1]
					for k := 0; k < n.members[g]-1; k++ {
						c, err := NewUDPClient(base+itoa(201+k), fmt.Sprintf("%s:%d", pip, ListenerPorts["udp"]))
						if err != nil {
							fail("udp client: %v", err)
							return
						}
						defer c.Close()
						extra[g] = append(extra[g], c)
					}
				}
				member := func(g, i int) *UDPClient {
					if k := i % n.members[g]; k > 0 {
						return extra[g][k-1]
					}
					return clients[g]
				}
				groupResps := func(g int) []*Resp {
					out := clients[g].All()
					for _, c := range extra[g] {
						out = append(out, c.All()...)
					}
					return out
				}
				serialOf := func(r *Resp) (uint32, bool) {
					_, _, s, ok := ParseKeyed(r.Msg)
					return s, ok
				}
				ask := func(g int, id uint16) *Resp {
					from := clients[g].Count()
					clients[g].Send(Query(id, name, 1, 1, false))
					r := clients[g].WaitID(id, from, 7*time.Second)
					if r == nil {
						clients[g].Send(Query(id, name, 1, 1, false))
						r = clients[g].WaitID(id, from, 7*time.Second)
					}
					return r
				}
				// 1. prime one entry per group, sequentially
				old := make([]uint32, len(n.groups))
				var primedAt time.Time
				for g := range n.groups {
					r := ask(g, uint16(1+g))
					if r == nil {
						fail("%s: priming query of group %d got no response", n.label, g)
						return
					}
					s, ok := serialOf(r)
					if !ok {
						fail("%s: priming response without serial", n.label)
						return
					}
					old[g] = s
					if g == 0 {
						primedAt = time.Now()
					}
				}
				if int(n.fetches.Load()) != len(n.groups) {
					fail("%s: %d upstream fetches while priming %d client groups (one entry per group expected)", n.label, n.fetches.Load(), len(n.groups))
					return
				}
				lastPrime := time.Now()
				// 2. the burst inside the refresh window (relative to the last prime, so that every group's entry is in its last quarter)
				if lastPrime.Sub(primedAt) > 300*time.Millisecond {
					return // priming took too long to place the burst soundly; skip this name
				}
				time.Sleep(time.Until(lastPrime.Add(n.burstAt)))
				burstStart := time.Now()
				total := 0
				for g := range n.groups {
					for i := 0; i < n.burst[g]; i++ {
						member(g, i).Send(Query(uint16(100+i), name, 1, 1, false))
						total++
					}
				}
				if total >= 2 {
					bursts2.Add(1)
				}
				// collect: all burst responses, or 3 s. A hit whose response is missing after 250 ms without
				// progress is re-sent once on its own (UDP loss on a busy loopback must not count).
				deadline := time.Now().Add(3 * time.Second)
				got, lastGot, lastProgress, resent := 0, 0, time.Now(), false
				for time.Now().Before(deadline) {
					got = 0
					seen := make([]map[uint16]bool, len(n.groups))
					for g := range n.groups {
						seen[g] = map[uint16]bool{}
						for _, r := range groupResps(g) {
							if r.Msg.ID >= 100 && !seen[g][r.Msg.ID] {
								seen[g][r.Msg.ID] = true
								got++
							}
						}
					}
					if got >= total {
						break
					}
					if got != lastGot {
						lastGot, lastProgress = got, time.Now()
					}
					if !resent && time.Since(lastProgress) > 250*time.Millisecond {
						resent = true
						for g := range n.groups {
							for i := 0; i < n.burst[g]; i++ {
								if !seen[g][uint16(100+i)] {
									member(g, i).Send(Query(uint16(100+i), name, 1, 1, false))
									time.Sleep(200 * time.Microsecond)
								}
							}
						}
						lastProgress = time.Now()
					}
					time.Sleep(time.Millisecond)
				}
				// every group's burst lay inside the refresh window of its entry (150 ms and more after its start), and nothing
				// was in flight before: each group's refresh must have started (it reaches the upstream within milliseconds)
				for until := time.Now().Add(600 * time.Millisecond); time.Now().Before(until); time.Sleep(2 * time.Millisecond) {
					all := true
					for g := range n.groups {
						all = all && n.heldBy[g].Load() >= 1
					}
					if all {
						break
					}
				}
				var startedBy [3]int32
				for g := range n.groups {
					startedBy[g] = n.heldBy[g].Load()
				}
				heldNow := n.held.Load()
				// (the refreshes this burst started were counted above, while every refresh of the run is still held)
				burstDone()
				if together {
					// hold this name's refresh until every name's burst has been answered (or this name's own 3 s are over)
					select {
					case <-allAnswered:
					case <-time.After(time.Until(deadline)):
					}
				}
				if n.outcome == "slow-success" {
					// the upstream answers the refresh only after the old entry has expired (but well inside the 6 s an
					// upstream exchange may take): the refresh is still a successful one
					time.Sleep(time.Until(lastPrime.Add(time.Duration(n.ttl)*time.Second + 300*time.Millisecond)))
				}
				n.gateOpen.Store(true)
				close(n.gate)
				collected := time.Now()
				if n.outcome == "slow-success" && collected.Sub(burstStart) > 4500*time.Millisecond {
					return // the refresh was held close to its own time limit (slow collection): no verdict for this name
				}
				if got < total {
					// was it lost (UDP) or did it wait for the refresh? anything that arrives after the gate opened waited.
					time.Sleep(300 * time.Millisecond)
					late := 0
					for g := range n.groups {
						for _, r := range groupResps(g) {
							if r.Msg.ID >= 100 && r.At.After(collected) {
								late++
							}
						}
					}
					if late > 0 {
						fail("%s: %d of %d hits of the burst were answered only after the refresh reply was released (they waited for the refresh; outcome %s)", n.label, late, total, n.outcome)
						return
					}
					if total-got > total/50+2 {
						fail("%s: %d of %d burst hits never answered", n.label, total-got, total)
						return
					}
				}
				for g := range n.groups {
					for _, r := range groupResps(g) {
						if r.Msg.ID < 100 {
							continue
						}
						s, ok := serialOf(r)
						if !ok || s != old[g] {
							idx, _ := n.serials.Load(s)
							fail("%s: a hit of the burst (group %d, +%.3fs after priming, TTL %d) was not answered from the cached entry (serial %d, want %d; fetch index %v, rcode %d)", n.label, g, burstStart.Sub(lastPrime).Seconds(), n.ttl, s, old[g], idx, r.Msg.Rcode())
							return
						}
					}
				}
				if int(heldNow) > len(n.groups) {
					fail("%s: %d refresh queries in flight at once for %d client groups (burst sizes %v): prefetch is not single-flight", n.label, heldNow, len(n.groups), n.burst)
					return
				}
				var refreshed [3]bool
				for g := range n.groups {
					hb := n.heldBy[g].Load()
					if hb > 1 {
						fail("%s: %d refresh queries in flight at once for the single client group %d (burst of %d hits): prefetch is not single-flight per (question, group)", n.label, hb, g, n.burst[g])
						return
					}
					refreshed[g] = hb == 1
					if startedBy[g] == 0 && got >= total {
						fail("%s: the burst of group %d (%d hits, %.3fs after priming an entry with TTL %d s, i.e. %.3fs into its last quarter) started no refresh at all", n.label, g, n.burst[g], burstStart.Sub(lastPrime).Seconds(), n.ttl, burstStart.Sub(lastPrime).Seconds()-0.75*float64(n.ttl))
						return
					}
				}
				// 3. after the refresh
				time.Sleep(400 * time.Millisecond)
				expiry := lastPrime.Add(time.Duration(n.ttl) * time.Second)
				for g := range n.groups {
					if time.Until(expiry) < 1300*time.Millisecond && n.outcome != "success" && n.outcome != "nodata" && n.outcome != "slow-success" {
						continue // within the cache clock's granularity of the old entry's expiry: cannot be judged
					}
					fetchesBefore := n.nonPrime[g].Load()
					r := ask(g, uint16(50+g))
					if r == nil {
						fail("%s: no response after the refresh", n.label)
						return
					}
					s, ok := serialOf(r)
					switch n.outcome {
					case "nodata":
						// a successful refresh as well: the positive entry is replaced by what the upstream says now
						if !refreshed[g] {
							continue
						}
						if r.Msg.Rcode() != 0 || len(r.Msg.An) != 0 {
							fail("%s: after a successful refresh that came back as NOERROR/NODATA, group %d is still served the old positive entry (%d answers, rcode %d)", n.label, g, len(r.Msg.An), r.Msg.Rcode())
							return
						}
					case "slow-success":
						if !refreshed[g] {
							continue
						}
						idx, _ := n.serials.Load(s)
						if !ok || s == old[g] || r.Msg.Rcode() != 0 {
							fail("%s: after a refresh answered after the old entry's expiry group %d is served serial %d (fetch index %v, rcode %d)", n.label, g, s, idx, r.Msg.Rcode())
							return
						}
						if now := n.nonPrime[g].Load(); now != fetchesBefore {
							fail("%s: the upstream answered the refresh of group %d %.2fs after it was asked (TTL %d, so after the old entry had expired, and well inside the time an upstream exchange may take), yet the next query %.0f ms later was not served from the refreshed entry but fetched again (upstream queries of the group %d -> %d): the answer of a successful refresh was not stored", n.label, g, collected.Sub(burstStart).Seconds(), n.ttl, 400.0, fetchesBefore, now)
							return
						}
					case "success":
						if !refreshed[g] {
							continue // no refresh was started for this group (allowed: the statement says at most one)
						}
						idx, _ := n.serials.Load(s)
						if !ok || s == old[g] || r.Msg.Rcode() != 0 {
							fail("%s: after a successful refresh group %d is still served the old fetch (serial %d, fetch index %v)", n.label, g, s, idx)
							return
						}
						if len(r.Msg.An) > 0 && r.Msg.An[0].TTL > n.newTTL {
							fail("%s: refreshed entry served with TTL %d > %d", n.label, r.Msg.An[0].TTL, n.newTTL)
							return
						}
					default:
						if !ok || s != old[g] || r.Msg.Rcode() != 0 {
							idx, _ := n.serials.Load(s)
							fail("%s: after a %s refresh the old positive entry of group %d is no longer served before its expiry (rcode %d serial %d fetch index %v, %.2fs before expiry)", n.label, n.outcome, g, r.Msg.Rcode(), s, idx, time.Until(expiry).Seconds())
							return
						}
						// The failed refresh has ended (its reply was released 400 ms ago), so nothing is in flight for this
						// key: this hit - still inside the window - must be able to start a refresh of its own. A single-flight
						// reservation that outlives its refresh would silently switch prefetching off for the key.
						ended := n.outcome == "servfail" || n.outcome == "refused" || n.outcome == "nxdomain" || n.outcome == "truncated" || (n.viaTCP && (n.outcome == "garbage" || n.outcome == "conn-closed"))
						if refreshed[g] && ended {
							relChecked.Add(1)
							again := false
							for until := time.Now().Add(600 * time.Millisecond); time.Now().Before(until); time.Sleep(5 * time.Millisecond) {
								if n.nonPrime[g].Load() > fetchesBefore {
									again = true
									break
								}
							}
							if !again {
								fail("%s: after the %s refresh of group %d had ended, a further hit inside the refresh window (%.2fs before expiry) started no new refresh: the single-flight reservation was not released", n.label, n.outcome, g, time.Until(expiry).Seconds())
								return
							}
						}
					}
				}
				n.after.Store(true)
				if n.outcome != "success" && n.outcome != "slow-success" && n.outcome != "nodata" && n.outcome != "silence" && n.outcome != "conn-closed" {
					// and not beyond its expiry (+2 s)
					time.Sleep(time.Until(expiry.Add(2200 * time.Millisecond)))
					r := ask(0, 70)
					if r != nil {
						if s, ok := serialOf(r); ok && s == old[0] {
							fail("%s: the old entry is still served %.1fs after its expiry", n.label, time.Since(expiry).Seconds())
						}
					}
				}
			}(n)
		}
		wg.Wait()
		for _, n := range all {
			if m := n.misrouted.Load(); m != nil {
				fail("%s: %s", n.label, m)
			}
		}
		if e := firstErr.Load(); e != nil {
			lbl := strings.SplitN(e.(string), ":", 2)[0]
			viaStore := false
			for _, n := range all {
				if n.label == lbl {
					viaStore = n.viaStore
				}
			}
			if viaStore {
				t.Fatalf("%v\n(proxy whose cache is the second-level store only)\nproxy log for %s:\n%s", e, lbl, p2.LogLines(lbl, 40))
			}
			t.Fatalf("%v\nproxy log for %s:\n%s", e, lbl, p.LogLines(lbl, 40))
		}
		if cr := p.Crashed(); cr != "" || p.Exited() {
			t.Fatalf("proxy died: %s", cr)
		}
		if cr := p2.Crashed(); cr != "" || p2.Exited() {
			t.Fatalf("proxy (second-level store) died: %s", cr)
		}
		outcomes := map[string]int{}
		for _, n := range all {
			outcomes[n.outcome]++
			if n.viaStore {
				outcomes["names-at-the-store-only-proxy"]++
			}
			if n.outcome == "success" && n.newTTL <= 2 {
				outcomes["success-with-ttl-below-the-old-remainder"]++
			}
		}
		for k, v := range outcomes {
			st.Class("outcome="+k, v)
		}
		if together {
			st.Class("runs-with-all-bursts-together", 1)
		}
		st.Class("names", nNames)
		st.Class("bursts>=2", int(bursts2.Load()))
		st.Class("reservation-release-checked", int(relChecked.Load()))
		st.Case(vfkit.Fingerprint(runNo, os.Getpid(), nNames), bursts2.Load() > 0, nil, func() any {
			return map[string]any{"names": nNames, "bursts_ge_2": bursts2.Load(), "example": fmt.Sprintf("ttl=%d groups=%v burst=%v at=%v outcome=%s", all[0].ttl, all[0].groups, all[0].burst, all[0].burstAt, all[0].outcome)}
		})
		_ = netip.Addr{}
	})
}
