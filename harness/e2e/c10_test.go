package vfe2e

// C10 - rules are first-match and a query reaches only the selected upstream; bad configurations are
// rejected at start-up. Every rapid case is a generated YAML configuration run by the real binary.

import (
	"fmt"
	"regexp"
	"strings"
	"testing"
	"time"

	"gopkg.in/yaml.v3"
	"pgregory.net/rapid"
	"vfkit"
)

type c10Entry struct {
	kind string // full, domain, bare, regexp
	name []string
	re   string
}

func (e c10Entry) line(t *rapid.T) string {
	n := strings.Join(e.name, ".")
	if rapid.Bool().Draw(t, "upper") {
		n = strings.ToUpper(n)
	}
	if rapid.Bool().Draw(t, "fqdn") && len(e.name) > 0 {
		n += "."
	}
	if len(e.name) == 0 {
		n = "."
	}
	switch e.kind {
	case "full":
		return "full:" + n
	case "domain":
		return "domain:" + n
	case "regexp":
		return "regexp:" + e.re
	}
	return n
}

func c10Match(entries []c10Entry, name []string) bool {
	text := strings.Join(name, ".")
	for _, e := range entries {
		switch e.kind {
		case "full":
			if strings.Join(e.name, ".") == text {
				return true
			}
		case "domain", "bare":
			if len(e.name) <= len(name) && strings.Join(name[len(name)-len(e.name):], ".") == strings.Join(e.name, ".") {
				return true
			}
		case "regexp":
			if regexp.MustCompile(e.re).MatchString(text) {
				return true
			}
		}
	}
	return false
}

// together the labels use every letter, so that the case folding of every letter is on the path
var c10Labels = []string{"a", "b", "c", "com", "net", "example", "x-1", "zq", "jvkwhy", "dfgiu-09"}

func c10GenName(t *rapid.T, min int) []string {
	n := rapid.IntRange(min, 3).Draw(t, "nLabels")
	if min > 0 && rapid.IntRange(0, 11).Draw(t, "rootName") == 0 {
		n = 0 // the root name: as an entry ".", as a query name the empty name
	}
	out := make([]string, n)
	for i := range out {
		out[i] = rapid.SampledFrom(c10Labels).Draw(t, "label")
	}
	return out
}

type c10Rule struct {
	set     int // -1 = no condition
	reverse bool
	reject  int
	forward int // -1 = none
}

func TestVfC10Rules(t *testing.T) {
	st := vfkit.Stats("TestVfC10Rules", "generated configurations (1-3 upstreams of which some answer SERVFAIL / REFUSED, in one configuration of three all written with one addr and told apart by dial_addr, 0-3 domain sets with shared files incl. empty sets and entries that are relatives of the entry before them (below, above, beside), 0-6 rules with optional domain / reverse / reject 0-15 / forward / no action) each run by the real binary (cache off / memory / a second-level store shared by all configurations of the run), x 25 queries (names in/out of the sets, mixed case, several types and classes); oracle: reference first-match model -> client rcode (a failing upstream's own rcode) and answering upstream tag, the selected upstream and no other receives exactly one lower-cased RD=1 query, reject/REFUSED decisions cause no upstream traffic; non-trivial = deciding rule is not the first, or reverse decides, or a reject precedes a forward that would also match")
	defer vfkit.Flush()
	// One second-level store (kit/fakeredis.go) for the whole run: configurations that use it inherit what earlier
	// configurations - with other rule lists - left there. Names come from a small label set, so they meet again.
	store, err := vfkit.StartFakeRedis("127.0.0.1")
	if err != nil {
		t.Fatal(err)
	}
	defer store.Close()
	rapid.Check(t, func(t *rapid.T) {
		block := NextIPBlock()
		defer FreeIPBlock(block)
		pip := block + "1"
		nUp := rapid.IntRange(1, 3).Draw(t, "nUpstreams")
		var ups []*FakeUpstream
		// an upstream may be a failing one: its error answer is the answer (the first matching rule decides, a later rule
		// is no fall-back for a failing upstream)
		upMode := make([]string, nUp)
		for i := 0; i < nUp; i++ {
			mode := rapid.SampledFrom([]string{"ok", "ok", "ok", "servfail", "refused"}).Draw(t, "upstreamMode")
			upMode[i] = mode
			u, err := StartUpstream("udp", fmt.Sprintf("up-%d", i), block+"2", 0, nil, func(q *UpQuery) UpAction {
				switch mode {
				case "servfail":
					return UpAction{Reply: EncodeMsg(KeyedAnswer(q.Msg, q.Up.Tag, uint32(q.Seq), 60, 2))}
				case "refused":
					return UpAction{Reply: EncodeMsg(KeyedAnswer(q.Msg, q.Up.Tag, uint32(q.Seq), 60, 5))}
				}
				return UpAction{Reply: EncodeMsg(KeyedAnswer(q.Msg, q.Up.Tag, uint32(q.Seq), 60, 0))}
			})
			if err != nil {
				t.Fatalf("upstream: %v", err)
			}
			defer u.Close()
			ups = append(ups, u)
		}
		// domain files
		nFiles := rapid.IntRange(0, 3).Draw(t, "nFiles")
		fileEntries := make([][]c10Entry, nFiles)
		files := map[string]string{}
		for f := 0; f < nFiles; f++ {
			var sb strings.Builder
			// the file's dress: line terminator, a last line without one, comment / blank lines around the entries
			eol := rapid.SampledFrom([]string{"\n", "\n", "\r\n"}).Draw(t, "eol")
			if rapid.IntRange(0, 3).Draw(t, "leadingNoise") == 0 {
				sb.WriteString("# a comment" + eol + eol + "   \t" + eol)
			}
			for i := rapid.IntRange(0, 6).Draw(t, "nEntries"); i > 0; i-- {
				e := c10Entry{kind: rapid.SampledFrom([]string{"full", "domain", "bare", "bare", "regexp"}).Draw(t, "kind")}
				if e.kind == "regexp" {
					e.re = rapid.SampledFrom([]string{`^a\.`, `\.net$`, `^[a-c]\.com$`, `example`, `^x-1$`}).Draw(t, "re")
				} else {
					e.name = c10GenName(t, 1)
					// every other name is a relative of the entry written before it (a name below it, the name above it, a
					// sibling): lists name a domain and hosts of it, in either order
					if prev := fileEntries[f]; len(prev) > 0 && len(prev[len(prev)-1].name) > 0 && rapid.Bool().Draw(t, "relative") {
						pn := prev[len(prev)-1].name
						switch rapid.IntRange(0, 3).Draw(t, "relation") {
						case 0, 1:
							e.name = append([]string{rapid.SampledFrom(c10Labels).Draw(t, "below")}, pn...)
						case 2:
							if len(pn) > 1 {
								e.name = append([]string(nil), pn[1:]...)
							}
						default:
							e.name = append([]string{rapid.SampledFrom(c10Labels).Draw(t, "sibling")}, pn[1:]...)
						}
					}
				}
				fileEntries[f] = append(fileEntries[f], e)
				sb.WriteString(e.line(t) + eol)
			}
			content := sb.String()
			if rapid.IntRange(0, 3).Draw(t, "noFinalNewline") == 0 {
				content = strings.TrimSuffix(content, eol)
			}
			files[fmt.Sprintf("f%d.txt", f)] = content
		}
		nSets := rapid.IntRange(0, 3).Draw(t, "nSets")
		setEntries := make([][]c10Entry, nSets)
		cfg := &Config{Servers: StdServers(pip, []string{"udp"}, "")}
		// In one configuration of three every upstream is written with the same addr (one server name, as it were) and
		// told apart by dial_addr only: they are still different upstreams, each rule's questions go to its own.
		sameAddr := rapid.IntRange(0, 2).Draw(t, "sameAddrDifferentDialAddr") == 0
		for i, u := range ups {
			_ = i
			uc := UpstreamCfg{Tag: u.Tag, Addr: u.Addr()}
			if sameAddr {
				uc.Addr, uc.DialAddr = "udp://"+block+"200:53", strings.TrimPrefix(u.Addr(), "udp://")
			}
			cfg.Upstreams = append(cfg.Upstreams, uc)
		}
		for s := 0; s < nSets; s++ {
			ds := DomainSet{Tag: fmt.Sprintf("set-%d", s), Files: []string{}}
			if nFiles > 0 {
				for _, f := range rapid.SliceOfNDistinct(rapid.IntRange(0, nFiles-1), 0, nFiles, func(i int) int { return i }).Draw(t, "setFiles") {
					ds.Files = append(ds.Files, fmt.Sprintf("$DIR/f%d.txt", f))
					setEntries[s] = append(setEntries[s], fileEntries[f]...)
				}
			}
			cfg.DomainSets = append(cfg.DomainSets, ds)
		}
		// names that an entry covers and a later entry of the same set lies below (the domain, then a host of it): the
		// domain itself and its other hosts are still in the set
		var covered [][]string
		var coveredSets []int
		for si, es := range setEntries {
			for i, e := range es {
				if (e.kind != "domain" && e.kind != "bare") || len(e.name) == 0 {
					continue
				}
				for _, l := range es[i+1:] {
					if l.kind != "regexp" && len(l.name) > len(e.name) && strings.Join(l.name[len(l.name)-len(e.name):], ".") == strings.Join(e.name, ".") {
						covered = append(covered, e.name)
						coveredSets = append(coveredSets, si)
						break
					}
				}
			}
		}
		nRules := rapid.IntRange(0, 6).Draw(t, "nRules")
		rules := make([]c10Rule, nRules)
		for i := range rules {
			r := c10Rule{set: -1, forward: -1}
			if nSets > 0 && rapid.IntRange(0, 3).Draw(t, "hasDomain") > 0 {
				r.set = rapid.IntRange(0, nSets-1).Draw(t, "set")
				if len(coveredSets) > 0 && rapid.Bool().Draw(t, "aSetWithRelatives") {
					r.set = coveredSets[rapid.IntRange(0, len(coveredSets)-1).Draw(t, "which")]
				}
				r.reverse = rapid.IntRange(0, 2).Draw(t, "reverse") == 0
			} else if rapid.IntRange(0, 3).Draw(t, "reverseWithoutDomain") == 0 {
				// `reverse` negates a domain condition; a rule without one has nothing to negate and always holds
				r.reverse = true
			}
			switch rapid.IntRange(0, 5).Draw(t, "action") {
			case 0:
				r.reject = rapid.IntRange(1, 15).Draw(t, "reject")
			case 1: // both: reject wins
				r.reject = rapid.IntRange(1, 15).Draw(t, "reject")
				r.forward = rapid.IntRange(0, nUp-1).Draw(t, "forward")
			case 2: // no action
			default:
				r.forward = rapid.IntRange(0, nUp-1).Draw(t, "forward")
			}
			rules[i] = r
			yr := Rule{Reverse: r.reverse, Reject: r.reject}
			if r.set >= 0 {
				yr.Domain = fmt.Sprintf("set-%d", r.set)
			}
			if r.forward >= 0 {
				yr.Forward = ups[r.forward].Tag
			}
			cfg.Rules = append(cfg.Rules, yr)
		}
		cacheMode := rapid.SampledFrom([]string{"off", "off", "off", "off", "memory", "memory", "shared-store", "shared-store"}).Draw(t, "cache")
		switch cacheMode {
		case "memory":
			// with a cache a forward decision still means exactly one upstream query for a question asked
			// for the first time (every question is asked once per configuration)
			cfg.Cache = &CacheCfg{MemSize: 1 << 20}
		case "shared-store":
			// the store outlives the configuration: a forward decision may be served from what another configuration
			// fetched ("unless its cache already holds the answer"), every other decision is the rule list's alone
			cfg.Cache = &CacheCfg{Redis: store.URL()}
		}
		pingsBefore := store.Pings.Load()
		p, err := StartProxy(cfg.YAML(), files, ProxyOpts{})
		if err != nil {
			t.Fatalf("%v", err)
		}
		defer p.Cleanup()
		if p.Exited() {
			t.Fatalf("a valid configuration was rejected (exit %d):\n%s\n%s", p.ExitCode, cfg.YAML(), tail(p.Stderr(), 1500))
		}
		if cacheMode == "shared-store" {
			for until := time.Now().Add(4 * time.Second); store.Pings.Load() < pingsBefore+1 && time.Now().Before(until); {
				time.Sleep(20 * time.Millisecond) // the proxy uses the store after its first successful PING
			}
			time.Sleep(20 * time.Millisecond)
		}
		storeHitsBefore := store.Hits.Load()
		a := NewAsker(pip, "")
		defer a.Close()
		nontrivial := false
		seen := map[string]bool{}
		for qi := 0; qi < 25; qi++ {
			var name []string
			// derive from an entry (child / equal / parent) or random
			var all []c10Entry
			for _, es := range setEntries {
				all = append(all, es...)
			}
			if len(covered) > 0 && rapid.IntRange(0, 2).Draw(t, "fromCovered") == 0 {
				name = append([]string(nil), covered[rapid.IntRange(0, len(covered)-1).Draw(t, "covered")]...)
				if rapid.Bool().Draw(t, "otherHost") {
					name = append([]string{rapid.SampledFrom(c10Labels).Draw(t, "host")}, name...)
				}
				st.Class("queries-at-a-domain-listed-before-one-of-its-hosts", 1)
			} else if len(all) > 0 && rapid.IntRange(0, 2).Draw(t, "fromEntry") > 0 {
				e := all[rapid.IntRange(0, len(all)-1).Draw(t, "entry")]
				name = append([]string(nil), e.name...)
				switch rapid.IntRange(0, 3).Draw(t, "derive") {
				case 0:
					name = append([]string{rapid.SampledFrom(c10Labels).Draw(t, "child")}, name...)
				case 1:
					if len(name) > 1 {
						name = name[1:]
					}
				}
			}
			if len(name) == 0 {
				name = c10GenName(t, 1)
			}
			deepName := false
			if rapid.IntRange(0, 9).Draw(t, "deepName") == 0 {
				deepName = true // (asked with an OPT, so that the answer is not cut to 512 octets)
				// a name of 30-120 labels (a reverse name of an IPv6 address has 34): whatever it ends in still decides
				deep := rapid.IntRange(30, 120).Draw(t, "labels")
				for len(name) < deep && 2*(len(name)+1)+8 < 250 {
					name = append([]string{string("abcdef0123456789"[len(name)%16])}, name...)
				}
				w := 1
				for _, l := range name {
					w += 1 + len(l)
				}
				for w > 255 {
					w -= 1 + len(name[0])
					name = name[1:]
				}
			}
			qtype := rapid.SampledFrom([]uint16{1, 28, 16}).Draw(t, "qtype")
			qclass := rapid.SampledFrom([]uint16{1, 1, 3}).Draw(t, "qclass")
			key := fmt.Sprint(name, qtype, qclass)
			if seen[key] {
				continue
			}
			seen[key] = true
			// reference decision
			decision, by := "REFUSED", -1
			for i, r := range rules {
				m := true
				if r.set >= 0 {
					m = c10Match(setEntries[r.set], name)
					if r.reverse {
						m = !m
					}
				}
				if !m {
					continue
				}
				by = i
				switch {
				case r.reject > 0:
					decision = fmt.Sprintf("reject-%d", r.reject)
				case r.forward >= 0:
					decision = ups[r.forward].Tag
				}
				break
			}
			if by > 0 || (by >= 0 && rules[by].reverse) {
				nontrivial = true
			}
			// mixed case on the wire
			var wn vfkit.Name
			mask := rapid.Uint64().Draw(t, "case")
			allUpper := rapid.IntRange(0, 3).Draw(t, "allUpper") == 0
			for i, l := range name {
				b := []byte(l)
				for j := range b {
					if (allUpper || mask&(1<<uint((i*11+j)%64)) != 0) && 'a' <= b[j] && b[j] <= 'z' {
						b[j] -= 'a' - 'A' // per character: "wWw.eXaMpLe"
					}
				}
				wn = append(wn, b)
			}
			before := make([]int, len(ups))
			for i, u := range ups {
				before[i] = u.NumQueries()
			}
			id := uint16(1000 + qi)
			res := a.AskPatient("udp", Query(id, wn, qtype, qclass, deepName), 3*time.Second)
			if len(res.Resps) == 0 {
				res = a.Ask("udp", Query(id, wn, qtype, qclass, deepName), 3*time.Second, 0)
			}
			desc := fmt.Sprintf("query %s type %d class %d; reference decision %s by rule %d\nconfiguration:\n%s\nfiles: %q", strings.Join(name, "."), qtype, qclass, decision, by, cfg.YAML(), files)
			if len(res.Resps) != 1 {
				t.Fatalf("%d responses; %s", len(res.Resps), desc)
			}
			r := res.Resps[0].Msg
			time.Sleep(2 * time.Millisecond)
			got := make([]int, len(ups))
			for i, u := range ups {
				got[i] = u.NumQueries() - before[i]
			}
			switch {
			case decision == "REFUSED" || strings.HasPrefix(decision, "reject-"):
				want := 5
				if decision != "REFUSED" {
					fmt.Sscanf(decision, "reject-%d", &want)
				}
				if r.Rcode() != want {
					t.Fatalf("rcode %d, expected %d; %s", r.Rcode(), want, desc)
				}
				for i := range ups {
					if got[i] != 0 {
						t.Fatalf("upstream %s was contacted for a query that must be answered locally; %s", ups[i].Tag, desc)
					}
				}
			case cacheMode == "shared-store":
				// A forward decision under a store that other configurations have filled: the answer may be a stored one
				// ("unless its cache already holds the answer"), without an upstream query or - when the stored entry is in
				// its refresh window - with one background query to the selected upstream. What stays the rule list's alone:
				// no other upstream is ever asked, the selected one at most once, and with the right question.
				for i, u := range ups {
					if u.Tag != decision && got[i] != 0 {
						t.Fatalf("upstream %s received %d queries, the rule selects %s; %s", u.Tag, got[i], decision, desc)
					}
					if u.Tag == decision {
						if got[i] > 1 {
							t.Fatalf("the selected upstream %s received %d queries for one client query; %s", u.Tag, got[i], desc)
						}
						if got[i] == 1 {
							qs := u.Queries()
							uq := qs[len(qs)-1].Msg
							if uq.Err != nil || len(uq.Q) != 1 || !uq.Q[0].Name.Equal(wn.Lower()) || uq.Q[0].Type != qtype || uq.Q[0].Class != qclass || !uq.Has(vfkit.BitRD) || uq.Has(vfkit.BitQR) || uq.Opcode() != 0 {
								t.Fatalf("upstream query is not the lower-cased question with RD=1: %s; %s", uq.Msg.String(), desc)
							}
						} else {
							st.Class("forward-served-from-the-shared-store", 1)
						}
					}
				}
				if _, _, _, ok := ParseKeyed(r); !ok && len(r.An) > 0 {
					t.Fatalf("forward decision, and the response is neither an upstream answer nor a stored one: %s; %s", r.Msg.String(), desc)
				}
			default:
				_, tag, _, ok := ParseKeyed(r)
				mode := "ok"
				for i, u := range ups {
					if u.Tag == decision {
						mode = upMode[i]
					}
				}
				switch mode {
				case "ok":
					if r.Rcode() != 0 || !ok || tag != decision {
						t.Fatalf("rcode %d answered by %q, expected upstream %s; %s", r.Rcode(), tag, decision, desc)
					}
				default:
					if want := map[string]int{"servfail": 2, "refused": 5}[mode]; r.Rcode() != want || (ok && tag != decision) {
						t.Fatalf("rcode %d (answer tagged %q), expected the selected upstream %s's own rcode %d; %s", r.Rcode(), tag, decision, want, desc)
					}
				}
				for i, u := range ups {
					wantN := 0
					if u.Tag == decision {
						wantN = 1
					}
					if got[i] != wantN {
						t.Fatalf("upstream %s received %d queries, expected %d; %s", u.Tag, got[i], wantN, desc)
					}
					if wantN == 1 {
						qs := u.Queries()
						uq := qs[len(qs)-1].Msg
						if uq.Err != nil || len(uq.Q) != 1 || !uq.Q[0].Name.Equal(wn.Lower()) || uq.Q[0].Type != qtype || uq.Q[0].Class != qclass || !uq.Has(vfkit.BitRD) || uq.Has(vfkit.BitQR) || uq.Opcode() != 0 {
							t.Fatalf("upstream query is not the lower-cased question with RD=1: %s; %s", uq.Msg.String(), desc)
						}
					}
				}
			}
			st.Class("decision="+strings.SplitN(decision, "-", 2)[0], 1)
		}
		if c := p.Crashed(); c != "" {
			t.Fatalf("proxy crashed: %s", c)
		}
		if cacheMode == "shared-store" {
			st.Class("store-hits", int(store.Hits.Load()-storeHitsBefore))
		}
		st.Case(vfkit.Fingerprint(cfg.YAML(), fmt.Sprint(files)), nontrivial && nRules >= 2, []string{fmt.Sprintf("rules=%d", nRules), "cache=" + cacheMode, fmt.Sprintf("same-addr-different-dial_addr=%v", sameAddr && nUp > 1)}, func() any {
			return map[string]any{"config": cfg.YAML(), "files": files}
		})
	})
}

func TestVfC10BadConfig(t *testing.T) {
	st := vfkit.Stats("TestVfC10BadConfig", "valid configurations (drawn rule lists of conditional and unconditional rules in any order) mutated in one place: a rule with an unknown upstream tag or an unknown domain-set tag inserted at any position (also behind a catch-all rule), duplicate upstream tag, duplicate set tag, missing tag, missing addr, unknown key at a drawn nesting level; oracle: the process exits non-zero within 3 s and never answers a query; non-trivial = every case")
	defer vfkit.Flush()
	rapid.Check(t, func(t *rapid.T) {
		block := NextIPBlock()
		defer FreeIPBlock(block)
		pip := block + "1"
		cfg := &Config{Servers: StdServers(pip, []string{"udp", "tcp"}, ""),
			Upstreams:  []UpstreamCfg{{Tag: "Up-One", Addr: "udp://" + block + "2:53"}, {Tag: "u2", Addr: "tcp://" + block + "2:53"}},
			DomainSets: []DomainSet{{Tag: "Set-One", Files: []string{"$DIR/a.txt"}}, {Tag: "s2", Files: []string{}}},
			Rules:      []Rule{{Domain: "Set-One", Forward: "Up-One"}, {Domain: "s2", Reject: 3}, {Forward: "u2"}},
			Cache:      &CacheCfg{MemSize: 1 << 20},
			Limiter:    &LimiterCfg{Client: &ClientLimiterCfg{Limit: 1000}},
		}
		files := map[string]string{"a.txt": "example.com\n"}
		kind0 := ""
		// the valid base: a drawn rule list (conditional and unconditional rules in any order), then one mutation
		templates := []Rule{{Domain: "Set-One", Forward: "Up-One"}, {Domain: "s2", Reject: 3}, {Forward: "u2"}, {Reject: 2}, {Domain: "Set-One", Forward: "u2"}}
		nRules := rapid.IntRange(1, 5).Draw(t, "nRules")
		cfg.Rules = nil
		for i := 0; i < nRules; i++ {
			cfg.Rules = append(cfg.Rules, templates[rapid.IntRange(0, len(templates)-1).Draw(t, "rule")])
		}
		insert := func(r Rule) {
			at := rapid.IntRange(0, len(cfg.Rules)).Draw(t, "insertAt")
			cfg.Rules = append(cfg.Rules[:at], append([]Rule{r}, cfg.Rules[at:]...)...)
			for _, b := range cfg.Rules[:at] {
				if b.Domain == "" {
					kind0 = "after-catch-all"
				}
			}
		}
		retag := func(from, to string) {
			for i := range cfg.Rules {
				if cfg.Rules[i].Forward == from {
					cfg.Rules[i].Forward = to
				}
				if cfg.Rules[i].Domain == from {
					cfg.Rules[i].Domain = to
				}
			}
		}
		kind := rapid.SampledFrom([]string{"unknown-upstream", "unknown-set", "dup-upstream", "dup-set", "missing-tag", "missing-addr", "missing-set-tag", "unknown-key"}).Draw(t, "mutation")
		yml := ""
		switch kind {
		case "unknown-upstream":
			insert(Rule{Domain: rapid.SampledFrom([]string{"", "Set-One", "s2"}).Draw(t, "badRuleDomain"), Forward: "nope"})
		case "unknown-set":
			bad := Rule{Domain: "nope"}
			switch rapid.IntRange(0, 2).Draw(t, "badRuleAction") {
			case 0:
				bad.Forward = "Up-One"
			case 1:
				bad.Reject = 3
			}
			insert(bad)
		case "dup-upstream":
			cfg.Upstreams[1].Tag = "Up-One"
			retag("u2", "Up-One")
		case "dup-set":
			cfg.DomainSets[1].Tag = "Set-One"
			retag("s2", "Set-One")
		case "missing-tag":
			cfg.Upstreams[1].Tag = ""
			retag("u2", "Up-One")
		case "missing-addr":
			cfg.Upstreams[1].Addr = ""
		case "missing-set-tag":
			cfg.DomainSets[1].Tag = ""
			retag("s2", "Set-One")
		case "unknown-key":
			var tree map[string]any
			if err := yaml.Unmarshal([]byte(cfg.YAML()), &tree); err != nil {
				t.Fatalf("yaml: %v", err)
			}
			path := rapid.SampledFrom([]string{"", "servers", "servers.tls?", "servers.tcp?", "servers.udp?", "servers.http?", "servers.quic?", "servers.socket?", "upstreams", "upstreams.tls?", "upstreams.socket?", "domain_sets", "rules", "cache", "limiter", "limiter.client", "log", "ecs", "metrics", "addons"}).Draw(t, "path")
			key := rapid.SampledFrom([]string{"bogus", "forwards", "Tag", "listen_addr", "ttl"}).Draw(t, "key")
			node := any(tree)
			for _, seg := range strings.Split(path, ".") {
				if seg == "" {
					break
				}
				m := node.(map[string]any)
				name := strings.TrimSuffix(seg, "?")
				child, ok := m[name]
				if !ok {
					child = map[string]any{}
					m[name] = child
				}
				if l, isList := child.([]any); isList {
					child = l[rapid.IntRange(0, len(l)-1).Draw(t, "idx")]
				}
				node = child
			}
			node.(map[string]any)[key] = 1
			b, _ := yaml.Marshal(tree)
			yml = string(b)
			kind += ":" + path
		}
		if yml == "" {
			yml = cfg.YAML()
		}
		p, err := StartProxy(yml, files, ProxyOpts{})
		if err != nil {
			t.Fatalf("%v", err)
		}
		defer p.Cleanup()
		deadline := time.Now().Add(3 * time.Second)
		for !p.Exited() && time.Now().Before(deadline) {
			time.Sleep(5 * time.Millisecond)
		}
		if !p.Exited() {
			a := NewAsker(pip, "")
			res := a.Ask("udp", Query(7, vfkit.Name{[]byte("example"), []byte("com")}, 1, 1, false), time.Second, 0)
			a.Close()
			t.Fatalf("configuration with %s was accepted (process still running, answered a query: %v):\n%s", kind, len(res.Resps) > 0, yml)
		}
		if p.ExitCode == 0 {
			t.Fatalf("configuration with %s: process exited with status 0:\n%s", kind, yml)
		}
		if c := p.Crashed(); c != "" {
			t.Fatalf("configuration with %s crashed the process instead of being rejected: %s", kind, c)
		}
		classes := []string{strings.SplitN(kind, ":", 2)[0]}
		if kind0 != "" {
			classes = append(classes, kind0)
		}
		st.Case(vfkit.Fingerprint(yml), true, classes, func() any { return map[string]any{"mutation": kind, "exit": p.ExitCode, "rules": len(cfg.Rules)} })
	})
}
