package vfe2e

// C08 / C07 over the second-level cache. No redis server exists in the sandbox, so the harness brings its own
// (kit/fakeredis.go, written from the protocol description: RESP3 HELLO, PING, GET, SET [NX] PX). Pairs of proxies
// share one such server: one proxy without a memory cache (every hit comes from the shared store) and one with a
// memory cache in front of it. What one proxy fetched is served by the other, so the stored-time / expire-time
// bookkeeping has to survive the trip through the store.

import (
	"bytes"
	"encoding/binary"
	"fmt"
	"os"
	"sync"
	"sync/atomic"
	"testing"
	"time"

	"github.com/klauspost/compress/s2"
	"pgregory.net/rapid"
	"vfkit"
)

type c08rName struct {
	label    string
	typ, cls uint16
	replies  []c08Reply
	asks     []c08rAsk
	fetches  atomic.Int32
}

type c08rAsk struct {
	at    time.Duration
	proxy int // index inside the pair
	group int // 0 g1, 1 g2, 2 none
}

type c08rFetch struct {
	name   *c08rName
	group  int
	reply  c08Reply
	sentAt time.Time
}

// c08rDecodeValue parses what the proxy keeps in the shared store: 8 octets stored time, 8 octets expire time (unix
// seconds), then the s2-compressed wire message.
func c08rDecodeValue(v []byte) (stored, expire time.Time, m *vfkit.Decoded, err error) {
	if len(v) < 16 {
		return stored, expire, nil, fmt.Errorf("value of %d octets", len(v))
	}
	stored = time.Unix(int64(binary.BigEndian.Uint64(v)), 0)
	expire = time.Unix(int64(binary.BigEndian.Uint64(v[8:])), 0)
	raw, err := s2.Decode(nil, v[16:])
	if err != nil {
		return stored, expire, nil, err
	}
	return stored, expire, vfkit.Decode(raw), nil
}

func c08rSerial(m *vfkit.Decoded) (uint32, bool) {
	for _, rr := range m.Ar {
		if rr.Type == 16 {
			d := &vfkit.Decoded{}
			d.An = []vfkit.RR{{Type: 1}, rr}
			if _, _, s, ok := ParseKeyed(d); ok {
				return s, true
			}
		}
	}
	return 0, false
}

func TestVfC08Redis(t *testing.T) {
	st := vfkit.Stats("TestVfC08Redis", "two pairs of proxies, each pair sharing one harness-made RESP3 store as second-level cache (one proxy without memory cache, one with; maximum_ttl unset for one pair and 2 for the other; ip marker and ECS on); runs of 40-160 names x (type, class) variants, each with a script of upstream replies (rcode, TC, TTL vectors) and 3-8 asks over 9 s, every ask drawn to one proxy of the pair and one client group; oracles: a response carrying the serial of a fetch belongs to the same name, type, class and client group as that fetch; served TTL <= max(1, T - whole seconds since t_ref) - for a hit at the proxy without memory cache counted up to the earliest moment the store can have answered a lookup of that name made while the query was open (in every other run 4-16 names have lookups of 1.1-2.6 s, half of them with answers that live 8 s and all their asks at that proxy); not served from a fetch once its lifetime + 2 s has passed; truncated replies never served later; all responses with one serial agree in rcode, flags and records; at the store: an error response never replaces a live positive value that has more than 1 s left; non-trivial = a run with hits served out of the shared store (counted at the store) and >= 1 aged or expired observation")
	defer vfkit.Flush()
	block := NextIPBlock()
	var names sync.Map   // key(label,typ,cls) -> *c08rName
	var fetches sync.Map // serial -> *c08rFetch
	key := func(label string, typ, cls uint16) string { return fmt.Sprintf("%s/%d/%d", label, typ, cls) }
	up, err := StartUpstream("tcp", "up", block+"2", 0, nil, func(q *UpQuery) UpAction {
		if q.Msg.Err != nil || len(q.Msg.Q) != 1 {
			return UpAction{}
		}
		qq := q.Msg.Q[0]
		v, ok := names.Load(key(string(qq.Name[0]), qq.Type, qq.Class))
		if !ok {
			return UpAction{}
		}
		n := v.(*c08rName)
		g := c19GroupOf(q)
		k := int(n.fetches.Add(1)) - 1
		r := n.replies[k%len(n.replies)]
		m := KeyedAnswer(q.Msg, "c08r", uint32(q.Seq), 0, r.rcode)
		txt := m.An[1]
		m.An = nil
		for i, ttl := range r.ttls {
			m.An = append(m.An, vfkit.RR{Owner: qq.Name, Type: qq.Type, Class: qq.Class, TTL: ttl, RData: []vfkit.RDPart{{Raw: []byte{10, 0, byte(i), 1}}}})
		}
		if r.nsTTL >= 0 {
			m.Ns = []vfkit.RR{{Owner: qq.Name[1:], Type: 2, Class: qq.Class, TTL: uint32(r.nsTTL), RData: []vfkit.RDPart{{IsName: true, Name: vfkit.Name{[]byte("ns"), []byte("vf")}}}}}
		}
		txt.TTL = 1 << 30
		txt.Class = 1
		m.Ar = []vfkit.RR{txt}
		if r.tc {
			m.Bits |= vfkit.BitTC
		}
		if r.rcode == 0 && len(r.ttls) > 0 && k%2 == 1 {
			m.Bits |= vfkit.BitAA // some answers are authoritative: the flag has to survive the store
		}
		fetches.Store(uint32(q.Seq), &c08rFetch{name: n, group: g, reply: r, sentAt: time.Now()})
		return UpAction{Reply: EncodeMsg(m)}
	})
	if err != nil {
		t.Fatal(err)
	}
	defer up.Close()
	type pair struct {
		redis *vfkit.FakeRedis
		ips   [2]string
		ps    [2]*Proxy
		max   time.Duration
	}
	var pairs []*pair
	for i, mx := range []int{0, 2} {
		rd, err := vfkit.StartFakeRedis(block + "3")
		if err != nil {
			t.Fatal(err)
		}
		defer rd.Close()
		pr := &pair{redis: rd, max: 6 * time.Hour}
		if mx > 0 {
			pr.max = time.Duration(mx) * time.Second
		}
		for j, mem := range []int{0, 64 << 20} {
			pip := block + itoa(10+2*i+j)
			cfg := &Config{Servers: StdServers(pip, []string{"udp", "tcp"}, ""), Upstreams: []UpstreamCfg{{Tag: "up", Addr: up.Addr()}}, Rules: []Rule{{Forward: "up"}},
				Cache: &CacheCfg{MemSize: mem, MaximumTTL: mx, Redis: rd.URL(), IpMarker: "$DIR/marker.txt"}, ECS: &ECSCfg{Enabled: true}}
			p, err := StartProxy(cfg.YAML(), map[string]string{"marker.txt": c07Marker}, ProxyOpts{})
			if err != nil {
				t.Fatal(err)
			}
			defer p.Cleanup()
			if p.Exited() {
				t.Fatalf("proxy with a second-level cache exited at start-up: %s", tail(p.Stderr(), 1500))
			}
			pr.ips[j], pr.ps[j] = pip, p
		}
		pairs = append(pairs, pr)
	}
	// the proxies use the store only after their first successful PING (a one-second ticker)
	for until := time.Now().Add(10 * time.Second); ; time.Sleep(50 * time.Millisecond) {
		if pairs[0].redis.Pings.Load() >= 4 && pairs[1].redis.Pings.Load() >= 4 {
			break
		}
		if time.Now().After(until) {
			vfkit.Inconclusive("the proxies did not ping the harness's store within 10 s")
			t.FailNow()
		}
	}
	groupAddr := []string{"127.20.9.", "127.21.0.", "127.23.0."} // g1, g2, none (as in the C19 check)
	variants := [][2]uint16{{1, 1}, {28, 1}, {1, 3}, {16, 1}, {257, 1}}
	runNo := 0
	rapid.Check(t, func(t *rapid.T) {
		runNo++
		P := pairs[rapid.IntRange(0, 1).Draw(t, "pair")]
		nLabels := rapid.IntRange(40, 160).Draw(t, "nNames")
		var all []*c08rName
		for i := 0; i < nLabels; i++ {
			label := fmt.Sprintf("r%dn%dp%d", runNo, i, os.Getpid())
			nv := rapid.SampledFrom([]int{1, 1, 1, 2, 3}).Draw(t, "nVariants")
			vs := rapid.Permutation(variants).Draw(t, "variants")[:nv]
			// one group for most names, so that asks meet each other's entries; sometimes a second one
			g0 := rapid.IntRange(0, 2).Draw(t, "group")
			twoGroups := rapid.IntRange(0, 3).Draw(t, "twoGroups") == 0
			for _, v := range vs {
				n := &c08rName{label: label, typ: v[0], cls: v[1]}
				for k := rapid.IntRange(1, 3).Draw(t, "nReplies"); k > 0; k-- {
					r := c08Reply{rcode: rapid.SampledFrom([]uint16{0, 0, 0, 0, 3, 2, 5}).Draw(t, "rcode"), tc: rapid.IntRange(0, 9).Draw(t, "tc") == 0, nsTTL: -1}
					for j := rapid.IntRange(0, 3).Draw(t, "nAns"); j > 0; j-- {
						r.ttls = append(r.ttls, rapid.SampledFrom([]uint32{0, 1, 2, 3, 5, 8, 8}).Draw(t, "ttl"))
					}
					if rapid.IntRange(0, 3).Draw(t, "hasNs") == 0 {
						r.nsTTL = int64(rapid.SampledFrom([]uint32{1, 2, 4, 30}).Draw(t, "nsTTL"))
					}
					if r.rcode != 0 {
						r.ttls = nil
					}
					n.replies = append(n.replies, r)
				}
				for k := rapid.IntRange(3, 8).Draw(t, "nAsks"); k > 0; k-- {
					a := c08rAsk{at: time.Duration(rapid.IntRange(0, 9000).Draw(t, "atMs")) * time.Millisecond, proxy: rapid.IntRange(0, 1).Draw(t, "proxy"), group: g0}
					if twoGroups && rapid.Bool().Draw(t, "otherGroup") {
						a.group = (g0 + 1) % 3
					}
					n.asks = append(n.asks, a)
				}
				all = append(all, n)
				names.Store(key(n.label, n.typ, n.cls), n)
			}
		}
		defer func() {
			for _, n := range all {
				names.Delete(key(n.label, n.typ, n.cls))
			}
		}()
		// the store answers at once, or after a latency under which the proxies' writes to it queue up
		P.redis.Delay.Store(int64(time.Duration(rapid.SampledFrom([]int{0, 0, 1000, 3000}).Draw(t, "storeLatencyMicros")) * time.Microsecond))
		defer P.redis.Delay.Store(0)
		// In every other run the store is slow for 4-16 of the names: the second and third lookup of their keys are answered
		// after 1.1-2.6 s (a latency spike). The time a lookup takes is time the entry ages: the TTLs of a hit served out of
		// the store count from the fetch to the moment the store's answer is there, not to the moment the question came in.
		slow := map[string]time.Duration{}
		if rapid.Bool().Draw(t, "slowLookups") {
			for i := rapid.IntRange(4, 16).Draw(t, "slowNames"); i > 0; i-- {
				n := all[rapid.IntRange(0, len(all)-1).Draw(t, "slowName")]
				slow[n.label] = time.Duration(rapid.IntRange(1100, 2600).Draw(t, "lookupMs")) * time.Millisecond
				if rapid.Bool().Draw(t, "longLived") {
					// an answer that outlives the slow lookup, asked at the proxy without memory cache by one group
					n.replies = []c08Reply{{ttls: []uint32{8, 8}, nsTTL: -1}}
					for j := range n.asks {
						n.asks[j].proxy, n.asks[j].group = 0, n.asks[0].group
					}
				}
			}
			P.redis.SetGetDelay(func(key []byte, n int) time.Duration {
				if n == 0 || n > 2 {
					return 0
				}
				for lbl, d := range slow {
					if bytes.Contains(key, []byte(lbl)) {
						return d
					}
				}
				return 0
			})
			defer P.redis.SetGetDelay(nil)
		}
		logFrom := len(P.redis.Log())
		type obs struct {
			n      *c08rName
			ask    c08rAsk
			tq, tr time.Time
			r      *Resp
			serial uint32
			ok     bool
		}
		var mu sync.Mutex
		var observations []obs
		start := time.Now().Add(50 * time.Millisecond)
		var wg sync.WaitGroup
		for ni, n := range all {
			wg.Add(1)
			go func(ni int, n *c08rName) {
				defer wg.Done()
				askers := map[[2]int]*Asker{}
				defer func() {
					for _, a := range askers {
						a.Close()
					}
				}()
				asks := append([]c08rAsk(nil), n.asks...)
				for i := range asks {
					for j := i + 1; j < len(asks); j++ {
						if asks[j].at < asks[i].at {
							asks[i], asks[j] = asks[j], asks[i]
						}
					}
				}
				for qi, ak := range asks {
					time.Sleep(time.Until(start.Add(ak.at)))
					a := askers[[2]int{ak.proxy, ak.group}]
					if a == nil {
						a = NewAsker(P.ips[ak.proxy], groupAddr[ak.group]+itoa(1+ni%200))
						askers[[2]int{ak.proxy, ak.group}] = a
					}
					name := vfkit.Name{[]byte(n.label), []byte("shared"), []byte("test")}
					tq := time.Now()
					res := a.Ask("tcp", Query(uint16(qi+1), name, n.typ, n.cls, false), 8*time.Second, 0)
					tr := time.Now()
					o := obs{n: n, ask: ak, tq: tq, tr: tr}
					if res.Err == nil && len(res.Resps) == 1 {
						o.r = res.Resps[0]
						o.serial, o.ok = c08rSerial(o.r.Msg)
					}
					mu.Lock()
					observations = append(observations, o)
					mu.Unlock()
				}
			}(ni, n)
		}
		wg.Wait()
		for j, p := range P.ps {
			if cr := p.Crashed(); cr != "" || p.Exited() {
				t.Fatalf("proxy %d of the pair died: %s", j, cr)
			}
		}
		tref := map[uint32]time.Time{}
		first := map[uint32]*Resp{}
		for _, o := range observations {
			if !o.ok {
				continue
			}
			f, found := fetches.Load(o.serial)
			if !found {
				t.Fatalf("response carries serial %d that no fetch produced", o.serial)
			}
			cand := f.(*c08rFetch).sentAt.Add(time.Second)
			if o.tr.Before(cand) {
				cand = o.tr
			}
			if cur, ok := tref[o.serial]; !ok || cand.Before(cur) {
				tref[o.serial] = cand
			}
			if fr, ok := first[o.serial]; !ok || o.r.At.Before(fr.At) {
				first[o.serial] = o.r
			}
		}
		aged, expired, negative, slowHits := 0, 0, 0, 0
		storeLog := P.redis.Log()[logFrom:]
		for _, o := range observations {
			if o.r == nil {
				t.Fatalf("name %s: no response to a query sent at +%v to proxy %d", o.n.label, o.tq.Sub(start), o.ask.proxy)
			}
			if !o.ok {
				if o.r.Msg.Rcode() == 2 && len(o.r.Msg.Ar) == 0 {
					continue // SERVFAIL produced by the proxy itself
				}
				t.Fatalf("name %s: response without serial: %s", o.n.label, o.r.Msg.Msg.String())
			}
			fv, _ := fetches.Load(o.serial)
			f := fv.(*c08rFetch)
			elapsed := o.tq.Sub(tref[o.serial])
			// A hit at the proxy without memory cache comes out of the store: the proxy cannot have built it before the
			// store answered one of the lookups of this name that arrived while the query was open - the earliest of those
			// answers is a lower bound for the moment the response was made.
			if o.ask.proxy == 0 && fv.(*c08rFetch).sentAt.Before(o.tq) {
				var earliest time.Time
				for _, op := range storeLog {
					if op.Cmd == "GET" && !op.At.Before(o.tq) && !op.At.After(o.tr) && bytes.Contains(op.Key, []byte(o.n.label)) {
						if earliest.IsZero() || op.ReplyNotBefore.Before(earliest) {
							earliest = op.ReplyNotBefore
						}
					}
				}
				if !earliest.IsZero() && earliest.Sub(tref[o.serial]) > elapsed {
					elapsed = earliest.Sub(tref[o.serial])
					if earliest.Sub(o.tq) > time.Second {
						slowHits++
					}
				}
			}
			whole := int64(0)
			if elapsed > 0 {
				whole = int64(elapsed / time.Second)
			}
			desc := fmt.Sprintf("name %s type %d class %d group %d asked at proxy %d (memory cache: %v) of a pair sharing one store; serial %d reply %+v: query sent %.3fs after t_ref (upstream sent the reply at +%.3fs), max_ttl %v", o.n.label, o.n.typ, o.n.cls, o.ask.group, o.ask.proxy, o.ask.proxy == 1, o.serial, f.reply, elapsed.Seconds(), f.sentAt.Sub(start).Seconds(), P.max)
			if f.name != o.n {
				t.Fatalf("answered with the fetch made for name %s type %d class %d; %s", f.name.label, f.name.typ, f.name.cls, desc)
			}
			if f.group != o.ask.group {
				t.Fatalf("answered with the fetch made for client group %d; %s", f.group, desc)
			}
			if f.reply.tc && o.tq.After(f.sentAt) {
				t.Fatalf("a truncated upstream reply was served from cache; %s", desc)
			}
			life := c08Lifetime(f.reply, P.max)
			if elapsed >= life+2*time.Second {
				t.Fatalf("served from a fetch whose lifetime (%v) ended more than 2 s ago; %s", life, desc)
			}
			if elapsed > life {
				expired++
			}
			check := func(got []vfkit.RR, want []uint32, sec string) {
				if len(got) != len(want) {
					t.Fatalf("%s section has %d records, upstream sent %d; %s", sec, len(got), len(want), desc)
				}
				for i := range got {
					bound := int64(1)
					if int64(want[i])-whole > 1 {
						bound = int64(want[i]) - whole
					}
					if int64(got[i].TTL) > bound {
						t.Fatalf("%s record %d: upstream TTL %d served as %d after %d whole seconds (bound %d); %s", sec, i, want[i], got[i].TTL, whole, bound, desc)
					}
				}
			}
			check(o.r.Msg.An, f.reply.ttls, "answer")
			if f.reply.nsTTL >= 0 {
				check(o.r.Msg.Ns, []uint32{uint32(f.reply.nsTTL)}, "authority")
			}
			// unchanged apart from ID and TTLs
			fr := first[o.serial].Msg
			if fr.Bits != o.r.Msg.Bits {
				t.Fatalf("header flags/rcode %#04x differ from the first response relayed for this fetch (%#04x); %s", o.r.Msg.Bits, fr.Bits, desc)
			}
			fs, os_ := fr.Sections(), o.r.Msg.Sections()
			for si := range fs {
				if len(fs[si]) != len(os_[si]) {
					t.Fatalf("section %d has %d records, the first response relayed for this fetch had %d; %s", si, len(os_[si]), len(fs[si]), desc)
				}
				for i := range fs[si] {
					a, b := fs[si][i], os_[si][i]
					a.TTL, b.TTL = 0, 0
					if string(a.Canon()) != string(b.Canon()) {
						t.Fatalf("section %d record %d differs from the first response relayed for this fetch: %s vs %s; %s", si, i, b.String(), a.String(), desc)
					}
				}
			}
			if whole >= 1 {
				aged++
			}
			if f.reply.rcode != 0 || f.reply.tc {
				negative++
			}
		}
		// what happened at the store
		storeHits, sets, nxSets, displaced := 0, 0, 0, 0
		for _, op := range P.redis.Log()[logFrom:] {
			switch op.Cmd {
			case "GET":
				if op.Hit {
					storeHits++
				}
			case "SET":
				sets++
				if op.NX {
					nxSets++
				}
				_, _, nm, err := c08rDecodeValue(op.Value)
				if err != nil || nm.Err != nil {
					t.Fatalf("the proxy stored a value the harness cannot read back (%v): % x", err, op.Value[:min(len(op.Value), 48)])
				}
				if nm.Has(vfkit.BitTC) {
					t.Fatalf("a truncated response was written to the shared store: %s", nm.Msg.String())
				}
				if !op.Hit || op.Prev == nil {
					continue
				}
				_, _, pm, err := c08rDecodeValue(op.Prev)
				if err != nil || pm.Err != nil {
					continue
				}
				if pm.Rcode() == 0 && len(pm.An) > 0 && nm.Rcode() != 0 && op.PrevExpire.Sub(op.At) > time.Second {
					ps, _ := c08rSerial(pm)
					ns, _ := c08rSerial(nm)
					t.Fatalf("at the shared store an error response (rcode %d, fetch serial %d) replaced a live positive entry (fetch serial %d, %.2fs of lifetime left): key %q", nm.Rcode(), ns, ps, op.PrevExpire.Sub(op.At).Seconds(), op.Key)
					displaced++
				}
			}
		}
		st.Class("observations", len(observations))
		st.Class("hits-aged>=1s", aged)
		st.Class("queries-after-lifetime", expired)
		st.Class("tc-or-negative-fetch", negative)
		st.Class("store-GET-hits", storeHits)
		st.Class("hits-behind-a-lookup-of-more-than-1s", slowHits)
		st.Class("store-SETs", sets)
		st.Class("store-SET-NX", nxSets)
		st.Case(vfkit.Fingerprint(runNo, os.Getpid(), len(all)), storeHits > 0 && (aged > 0 || expired > 0), []string{fmt.Sprintf("max_ttl=%v", P.max)}, func() any {
			return map[string]any{"names": len(all), "observations": len(observations), "aged_hits": aged, "after_lifetime": expired, "hits_at_the_shared_store": storeHits, "sets": sets, "sample_script": fmt.Sprintf("%+v asks %+v", all[0].replies, all[0].asks)}
		})
	})
}
