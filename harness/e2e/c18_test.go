package vfe2e

// C18 (router level) - shutdown and failed start-up are orderly.

import (
	"fmt"
	"net"
	"os"
	"strings"
	"sync"
	"sync/atomic"
	"testing"
	"time"

	"pgregory.net/rapid"
	"vfkit"
)

func TestVfC18Startup(t *testing.T) {
	st := vfkit.Stats("TestVfC18Startup", "configurations with 1-6 listeners of generated kinds (plus metrics endpoint on/off, cache on/off) in which component i fails to start: listener address held by the harness, certificate file missing, key not matching the certificate, unknown protocol, unparsable upstream address, missing ip_marker file, missing domain file; oracle: exit status 1 with a fatal log line within 3 s - not a Go panic (status 2, 'panic:' / SIGSEGV on stderr) - and afterwards every address named in the configuration can be bound by the harness; non-trivial = failing listener is not the first")
	defer vfkit.Flush()
	ca := NewCA("vf c18")
	good := ca.Issue(LeafOpts{DNSNames: []string{"x.test"}})
	other := ca.Issue(LeafOpts{DNSNames: []string{"y.test"}})
	rapid.Check(t, func(t *rapid.T) {
		block := NextIPBlock()
		defer FreeIPBlock(block)
		pip := block + "1"
		n := rapid.IntRange(1, 6).Draw(t, "nServers")
		kinds := make([]string, n)
		cfg := &Config{Upstreams: []UpstreamCfg{{Tag: "up", Addr: "udp://" + block + "2:53"}}, Rules: []Rule{{Forward: "up"}}}
		files := map[string]string{"cert.pem": string(good.CertPEM), "key.pem": string(good.KeyPEM), "otherkey.pem": string(other.KeyPEM), "dom.txt": "example.com\n", "marker.txt": "10.0.0.0,10.0.0.255,x\n"}
		var addrs []string // "tcp|udp ip:port"
		for i := range kinds {
			k := rapid.SampledFrom(AllListenerKinds).Draw(t, "kind")
			kinds[i] = k
			port := 6000 + i
			s := ServerCfg{Tag: fmt.Sprintf("s%d", i), Protocol: k, Listen: fmt.Sprintf("%s:%d", pip, port)}
			if k == "tls" || k == "https" || k == "quic" {
				s.Tls = &TlsCfg{Cert: "$DIR/cert.pem", Key: "$DIR/key.pem"}
			}
			cfg.Servers = append(cfg.Servers, s)
			proto := "tcp"
			if k == "udp" || k == "quic" {
				proto = "udp"
			}
			addrs = append(addrs, proto+" "+s.Listen)
		}
		if rapid.Bool().Draw(t, "cache") {
			cfg.Cache = &CacheCfg{MemSize: 1 << 20, IpMarker: "$DIR/marker.txt"}
		}
		cfg.DomainSets = []DomainSet{{Tag: "d", Files: []string{"$DIR/dom.txt"}}}
		failure := rapid.SampledFrom([]string{"addr-in-use", "addr-in-use", "cert-missing", "key-mismatch", "unknown-protocol", "bad-upstream", "missing-marker", "missing-domain-file", "odd-domain-line"}).Draw(t, "failure")
		idx := rapid.IntRange(0, n-1).Draw(t, "failIdx")
		var held []interface{ Close() error }
		defer func() {
			for _, h := range held {
				h.Close()
			}
		}()
		switch failure {
		case "addr-in-use":
			parts := strings.SplitN(addrs[idx], " ", 2)
			if parts[0] == "tcp" {
				l, err := net.Listen("tcp", parts[1])
				if err != nil {
					t.Skip("cannot pre-bind")
				}
				held = append(held, l)
			} else {
				l, err := net.ListenPacket("udp", parts[1])
				if err != nil {
					t.Skip("cannot pre-bind")
				}
				held = append(held, l)
			}
		case "cert-missing", "key-mismatch":
			// make server idx a TLS based one
			k := rapid.SampledFrom([]string{"tls", "https", "quic"}).Draw(t, "tlsKind")
			cfg.Servers[idx].Protocol = k
			kinds[idx] = k
			cfg.Servers[idx].Tls = &TlsCfg{Cert: "$DIR/cert.pem", Key: "$DIR/key.pem"}
			if failure == "cert-missing" {
				cfg.Servers[idx].Tls.Cert = "$DIR/nope.pem"
			} else {
				cfg.Servers[idx].Tls.Key = "$DIR/otherkey.pem"
			}
			proto := "tcp"
			if k == "quic" {
				proto = "udp"
			}
			addrs[idx] = proto + " " + cfg.Servers[idx].Listen
		case "unknown-protocol":
			cfg.Servers[idx].Protocol = rapid.SampledFrom([]string{"bogus", "UDP", "dot", "doh"}).Draw(t, "proto")
		case "bad-upstream":
			cfg.Upstreams = append(cfg.Upstreams, UpstreamCfg{Tag: "bad", Addr: rapid.SampledFrom([]string{"bogus://1.2.3.4", "tls://[::1", "http://a b/"}).Draw(t, "badAddr")})
		case "missing-marker":
			cfg.Cache = &CacheCfg{MemSize: 1 << 20, IpMarker: "$DIR/absent.txt"}
		case "missing-domain-file":
			cfg.DomainSets = append(cfg.DomainSets, DomainSet{Tag: "d2", Files: []string{"$DIR/dom.txt", "$DIR/absent-domains.txt"}})
		case "odd-domain-line":
			// a line of a domain file that is no entry, or an entry of nothing: whether the loader takes it (and the proxy
			// runs) or refuses it (a start-up error) is its choice
			odd := rapid.SampledFrom([]string{"full:", "domain:", ":", "regexp:", "domain:..", "full:.a", "a..b", "keyword:x", "regexp:(", "regexp:[z-a]",
				"full:" + strings.Repeat("a", 64), strings.Repeat("abcdefg.", 32) + "x", "domain: ", "full:\t", "\\", "full:\\", "domain:\\."}).Draw(t, "oddLine")
			files["odd.txt"] = "example.org\n" + odd + "\nexample.net\n"
			cfg.DomainSets = append(cfg.DomainSets, DomainSet{Tag: "d2", Files: []string{"$DIR/odd.txt"}})
		}
		p, err := StartProxy(cfg.YAML(), files, ProxyOpts{ExpectBindFailure: true})
		if err != nil {
			t.Fatalf("%v", err)
		}
		defer p.Cleanup()
		deadline := time.Now().Add(3 * time.Second)
		for !p.Exited() && time.Now().Before(deadline) {
			time.Sleep(2 * time.Millisecond)
		}
		desc := fmt.Sprintf("failure=%s at server %d of kinds %v\n%s", failure, idx, kinds, cfg.YAML())
		if failure == "odd-domain-line" {
			desc += "\nodd.txt: " + fmt.Sprintf("%q", files["odd.txt"])
			if !p.Exited() {
				// accepted: the proxy runs
				st.Case(vfkit.Fingerprint(failure, files["odd.txt"]), true, []string{"failure=" + failure, "odd-line-accepted"}, func() any {
					return map[string]any{"failure": failure, "file": files["odd.txt"], "outcome": "runs"}
				})
				return
			}
		}
		if !p.Exited() {
			t.Fatalf("the process keeps running although a component cannot start; %s\n%s", desc, tail(p.Stderr(), 1500))
		}
		if c := p.Crashed(); c != "" {
			t.Fatalf("start-up error reported as a crash (exit status %d) instead of an error; %s\n%s", p.ExitCode, desc, c)
		}
		if p.ExitCode != 1 {
			t.Fatalf("exit status %d, expected 1; %s\n%s", p.ExitCode, desc, tail(p.Stderr(), 1500))
		}
		if !strings.Contains(p.Stderr(), `"level":"fatal"`) {
			t.Fatalf("no fatal log line; %s\n%s", desc, tail(p.Stderr(), 1500))
		}
		for _, h := range held {
			h.Close()
		}
		held = nil
		for _, a := range addrs {
			parts := strings.SplitN(a, " ", 2)
			if parts[0] == "tcp" {
				l, err := net.Listen("tcp", parts[1])
				if err != nil {
					t.Fatalf("address %s is still in use after the failed start: %v", a, err)
				}
				l.Close()
			} else {
				l, err := net.ListenPacket("udp", parts[1])
				if err != nil {
					t.Fatalf("address %s is still in use after the failed start: %v", a, err)
				}
				l.Close()
			}
		}
		serverFailure := failure == "addr-in-use" || failure == "cert-missing" || failure == "key-mismatch" || failure == "unknown-protocol"
		st.Case(vfkit.Fingerprint(failure, idx, fmt.Sprint(kinds)), !serverFailure || idx > 0, []string{"failure=" + failure}, func() any {
			return map[string]any{"failure": failure, "index": idx, "kinds": kinds, "exit": p.ExitCode}
		})
	})
}

func TestVfC18Shutdown(t *testing.T) {
	st := vfkit.Stats("TestVfC18Shutdown", "a proxy with every listener kind and every upstream kind under generated client traffic (some queries held by the upstream) receives SIGTERM at a drawn instant; oracle: exit status 0 within 8 s (the 6 s request deadline, which a graceful listener shutdown may wait out, plus 2 s), no panic / fatal error on stderr; non-trivial = queries were in flight at the signal")
	defer vfkit.Flush()
	rapid.Check(t, func(t *rapid.T) {
		block := NextIPBlock()
		defer FreeIPBlock(block)
		pip := block + "1"
		ca := NewCA("vf c18 shutdown")
		leaf := ca.Issue(LeafOpts{IPs: []string{block + "2"}})
		gate := make(chan struct{})
		var held atomic.Int32
		handler := func(q *UpQuery) UpAction {
			a := UpAction{Reply: EncodeMsg(KeyedAnswer(q.Msg, q.Up.Tag, uint32(q.Seq), 5, 0))}
			if q.Seq%3 == 0 {
				held.Add(1)
				a.Gate = gate
			}
			return a
		}
		kinds := []string{"udp", "tcp", "tcp+pipeline", "tls", "tls+pipeline", "https", "h3", "quic"}
		cfg := &Config{Servers: StdServers(pip, AllListenerKinds, ""), Cache: &CacheCfg{MemSize: 1 << 20}}
		files := map[string]string{"ca.pem": string(ca.CertPEM)}
		for i, k := range kinds {
			u, err := StartUpstream(k, "up"+itoa(i), block+"2", 0, serverTLS(leaf), handler)
			if err != nil {
				t.Fatalf("%v", err)
			}
			defer u.Close()
			uc := UpstreamCfg{Tag: u.Tag, Addr: u.Addr()}
			if i >= 3 {
				uc.Tls = &TlsCfg{CA: "$DIR/ca.pem"}
			}
			cfg.Upstreams = append(cfg.Upstreams, uc)
			files["s"+itoa(i)+".txt"] = "k" + itoa(i) + ".test\n"
			cfg.DomainSets = append(cfg.DomainSets, DomainSet{Tag: "s" + itoa(i), Files: []string{"$DIR/s" + itoa(i) + ".txt"}})
			cfg.Rules = append(cfg.Rules, Rule{Domain: "s" + itoa(i), Forward: u.Tag})
		}
		p, err := StartProxy(cfg.YAML(), files, ProxyOpts{})
		if err != nil {
			t.Fatalf("%v", err)
		}
		defer p.Cleanup()
		defer close(gate)
		if p.Exited() {
			t.Fatalf("proxy exited at start: %s", tail(p.Stderr(), 1500))
		}
		nClients := rapid.IntRange(2, 12).Draw(t, "clients")
		stop := make(chan struct{})
		var wg sync.WaitGroup
		var sent atomic.Int32
		for c := 0; c < nClients; c++ {
			wg.Add(1)
			lk := rapid.SampledFrom(AllListenerKinds).Draw(t, "listener")
			go func(c int, lk string) {
				defer wg.Done()
				a := NewAsker(pip, "")
				defer a.Close()
				for i := 0; ; i++ {
					select {
					case <-stop:
						return
					default:
					}
					name := vfkit.Name{[]byte(fmt.Sprintf("c%dq%dp%d", c, i, os.Getpid())), []byte("k" + itoa((c+i)%len(kinds))), []byte("test")}
					sent.Add(1)
					a.Ask(lk, Query(uint16(i), name, 1, 1, false), 1500*time.Millisecond, 0)
				}
			}(c, lk)
		}
		time.Sleep(time.Duration(rapid.IntRange(20, 400).Draw(t, "signalAfterMs")) * time.Millisecond)
		inflight := held.Load()
		ok := p.TerminateOrDump(8 * time.Second)
		close(stop)
		wg.Wait()
		if !ok {
			t.Fatalf("the proxy did not exit within 8 s of SIGTERM (%d queries held at upstreams); main goroutine:\n%s", inflight, p.MainStack())
		}
		if c := p.Crashed(); c != "" {
			t.Fatalf("crash during shutdown: %s", c)
		}
		if p.ExitCode != 0 {
			t.Fatalf("exit status %d after SIGTERM\n%s", p.ExitCode, tail(p.Stderr(), 2000))
		}
		st.Case(vfkit.Fingerprint(nClients, inflight, sent.Load()), inflight > 0, nil, func() any {
			return map[string]any{"clients": nClients, "queries_sent": sent.Load(), "held_at_upstream": inflight}
		})
	})
}
