package vfe2e

// C03 on connections that have been idle for a while before they ask: the listener's idle timer and the request
// deadline are two clocks on one connection. A query sent after 0.5-8.5 s of silence (the idle time-out is 10 s) to an
// upstream that never answers still gets its one response - SERVFAIL after the 6 s request deadline - on that
// connection.

import (
	"fmt"
	"os"
	"sync"
	"testing"
	"time"

	"pgregory.net/rapid"
	"vfkit"
)

func TestVfC03IdleThenSilent(t *testing.T) {
	st := vfkit.Stats("TestVfC03IdleThenSilent", "tcp / gnet / tls listeners with the default idle time-out (10 s) and an upstream that never answers: 6-18 connections per case, each opened, left idle for a drawn 0.5-8.5 s (some first ask a query that is answered at once, which re-arms the idle timer at a drawn point) and then asked one query; oracle: exactly one response (SERVFAIL, own ID and question) on that connection within 8 s of the query; non-trivial = idle for more than 3 s before the query")
	defer vfkit.Flush()
	block := NextIPBlock()
	up, err := StartUpstream("udp", "up", block+"2", 0, nil, func(q *UpQuery) UpAction {
		if q.Msg.Err == nil && len(q.Msg.Q) == 1 && string(q.Msg.Q[0].Name[1]) == "fast" {
			return UpAction{Reply: EncodeMsg(KeyedAnswer(q.Msg, "c03i", 0, 60, 0))}
		}
		return UpAction{}
	})
	if err != nil {
		t.Fatal(err)
	}
	defer up.Close()
	pip := block + "10"
	cfg := &Config{Servers: StdServers(pip, []string{"tcp", "gnet", "tls"}, ""), Upstreams: []UpstreamCfg{{Tag: "up", Addr: up.Addr()}}, Rules: []Rule{{Forward: "up"}}}
	p, err := StartProxy(cfg.YAML(), nil, ProxyOpts{})
	if err != nil {
		t.Fatal(err)
	}
	defer p.Cleanup()
	caseNo := 0
	rapid.Check(t, func(t *rapid.T) {
		caseNo++
		n := rapid.IntRange(6, 18).Draw(t, "connections")
		type plan struct {
			listener string
			warmAt   time.Duration // > 0: a query answered at once is asked at this point of the idle period
			idle     time.Duration
		}
		plans := make([]plan, n)
		long := 0
		for i := range plans {
			plans[i] = plan{listener: rapid.SampledFrom([]string{"tcp", "gnet", "tls"}).Draw(t, "listener"), idle: time.Duration(rapid.IntRange(500, 8500).Draw(t, "idleMs")) * time.Millisecond}
			if rapid.IntRange(0, 2).Draw(t, "warmQuery") == 0 {
				plans[i].warmAt = time.Duration(rapid.IntRange(100, int(plans[i].idle/time.Millisecond)-100).Draw(t, "warmAtMs")) * time.Millisecond
			}
			if plans[i].idle-plans[i].warmAt > 3*time.Second {
				long++
			}
		}
		var firstErr sync.Map
		var wg sync.WaitGroup
		for i, pl := range plans {
			wg.Add(1)
			go func(i int, pl plan) {
				defer wg.Done()
				fail := func(format string, args ...any) { firstErr.LoadOrStore("e", fmt.Sprintf(format, args...)) }
				a := NewAsker(pip, "")
				tlsCfg := a.TLS
				if pl.listener != "tls" {
					tlsCfg = nil
				}
				c, err := DialStream("", fmt.Sprintf("%s:%d", pip, ListenerPorts[pl.listener]), tlsCfg, 3*time.Second)
				if err != nil {
					fail("dial %s: %v", pl.listener, err)
					return
				}
				defer c.Close()
				opened := time.Now()
				if pl.warmAt > 0 {
					time.Sleep(pl.warmAt)
					wn := vfkit.Name{[]byte(fmt.Sprintf("i%dw%dp%d", caseNo, i, os.Getpid())), []byte("fast"), []byte("test")}
					c.C.Write(frame(Query(uint16(1000+i), wn, 1, 1, false)))
					if fr, _, closed := c.ReadFrames(1, 3*time.Second); len(fr) != 1 || closed {
						fail("%s: the warm-up query %v after connecting got %d responses (closed=%v)", pl.listener, pl.warmAt, len(fr), closed)
						return
					}
				}
				time.Sleep(time.Until(opened.Add(pl.idle)))
				name := vfkit.Name{[]byte(fmt.Sprintf("i%dq%dp%d", caseNo, i, os.Getpid())), []byte("silent"), []byte("test")}
				id := uint16(2000 + i)
				sent := time.Now()
				if _, err := c.C.Write(frame(Query(id, name, 1, 1, false))); err != nil {
					fail("%s: write after %v of idle time: %v", pl.listener, pl.idle, err)
					return
				}
				fr, _, closed := c.ReadFrames(1, 9*time.Second)
				desc := fmt.Sprintf("%s connection, idle for %v before the query (last activity %v before it), upstream silent", pl.listener, pl.idle, pl.idle-pl.warmAt)
				if len(fr) != 1 {
					fail("no response within 9 s (connection closed by the listener: %v, %.1fs after the query); %s", closed, time.Since(sent).Seconds(), desc)
					return
				}
				r := fr[0]
				if d := r.At.Sub(sent); d > 8*time.Second {
					fail("response %.2fs after the query; %s", d.Seconds(), desc)
				}
				if !r.Msg.Clean() || r.Msg.ID != id || r.Msg.Rcode() != 2 || len(r.Msg.Q) != 1 || !r.Msg.Q[0].Name.Equal(name) {
					fail("unexpected response %s; %s", r.Msg.Msg.String(), desc)
				}
				if more, _, _ := c.ReadFrames(1, 100*time.Millisecond); len(more) > 0 {
					fail("a second response; %s", desc)
				}
			}(i, pl)
		}
		wg.Wait()
		if e, ok := firstErr.Load("e"); ok {
			t.Fatalf("%v\n%s", e, tail(p.Stderr(), 800))
		}
		if cr := p.Crashed(); cr != "" || p.Exited() {
			t.Fatalf("proxy died: %s", cr)
		}
		st.Case(vfkit.Fingerprint(caseNo, os.Getpid(), fmt.Sprint(plans)), long > 0, []string{fmt.Sprintf("connections=%d", n)}, func() any {
			return map[string]any{"connections": n, "idle_over_3s_before_the_query": long, "example": fmt.Sprintf("%+v", plans[0])}
		})
	})
}
