package vfe2e

// C04 on shared connections: many clients behind one HTTP connection (a reverse proxy in front of the DoH listeners
// multiplexes its clients over few connections and names each in the client-address header). With ECS enabled the
// upstream's answer depends on the client, so a response carrying the answer produced for another request's client is a
// mix-up even when the names differ: nothing of a request may live in per-connection state.

import (
	"crypto/tls"
	"encoding/hex"
	"fmt"
	"net/netip"
	"os"
	"testing"

	"pgregory.net/rapid"
	"vfkit"
)

func TestVfC04SharedConn(t *testing.T) {
	st := vfkit.Stats("TestVfC04SharedConn", "4-48 concurrent DoH requests (GET / POST) over ONE shared client per listener kind (https = one HTTP/2 connection, http / fasthttp = a keep-alive pool), each naming its own client (v4, v6, v4-mapped) in the configured client-address header, ECS enabled, cache off; the fake upstream answers with a tag that spells the ECS option it received; oracle: every response is 200, carries its own ID and question, and the tag is the reference ECS encoding of that request's own client; non-trivial = >= 2 requests with different clients on the HTTP/2 connection")
	defer vfkit.Flush()
	block := NextIPBlock()
	up, err := StartUpstream("udp", "up", block+"2", 0, nil, func(q *UpQuery) UpAction {
		if q.Msg.Err != nil || len(q.Msg.Q) != 1 {
			return UpAction{}
		}
		tag := "no-opt"
		for _, rr := range q.Msg.Ar {
			if rr.Type == 41 {
				tag = "ecs-" + hex.EncodeToString(rr.RDataWire())
			}
		}
		return UpAction{Reply: EncodeMsg(KeyedAnswer(q.Msg, tag, uint32(q.Seq), 60, 0))}
	})
	if err != nil {
		t.Fatal(err)
	}
	defer up.Close()
	pip := block + "10"
	kinds := []string{"http", "fasthttp", "https"}
	cfg := &Config{Servers: StdServers(pip, kinds, "X-Client"), Upstreams: []UpstreamCfg{{Tag: "up", Addr: up.Addr()}}, Rules: []Rule{{Forward: "up"}}, ECS: &ECSCfg{Enabled: true}}
	p, err := StartProxy(cfg.YAML(), nil, ProxyOpts{})
	if err != nil {
		t.Fatal(err)
	}
	defer p.Cleanup()
	clients := map[string]*DoHClient{}
	for _, k := range kinds {
		mode := map[string]string{"http": "http", "fasthttp": "http", "https": "h2"}[k]
		clients[k] = NewDoHClient(mode, "", fmt.Sprintf("%s:%d", pip, ListenerPorts[k]), &tls.Config{InsecureSkipVerify: true})
		defer clients[k].Close()
	}
	caseNo := 0
	rapid.Check(t, func(t *rapid.T) {
		caseNo++
		type rq struct {
			kind, method string
			addr         netip.Addr
			name         vfkit.Name
			id           uint16
		}
		n := rapid.IntRange(4, 48).Draw(t, "requests")
		onlyH2 := rapid.Bool().Draw(t, "allOverHTTP2")
		rs := make([]rq, n)
		h2 := 0
		for i := range rs {
			r := rq{kind: rapid.SampledFrom(kinds).Draw(t, "kind"), method: rapid.SampledFrom([]string{"GET", "POST", "POST"}).Draw(t, "method"), id: uint16(caseNo*64 + i)}
			if onlyH2 {
				r.kind = "https"
			}
			if r.kind == "https" {
				h2++
			}
			switch rapid.IntRange(0, 2).Draw(t, "family") {
			case 0:
				r.addr = netip.AddrFrom4([4]byte{byte(rapid.IntRange(1, 223).Draw(t, "a")), byte(i), byte(rapid.IntRange(0, 255).Draw(t, "c")), byte(rapid.IntRange(1, 254).Draw(t, "d"))})
			case 1:
				b := [16]byte(rapid.SliceOfN(rapid.ByteRange(1, 255), 16, 16).Draw(t, "v6"))
				b[0], b[5] = 0x20, byte(i)
				r.addr = netip.AddrFrom16(b)
			default:
				r.addr = netip.AddrFrom16(netip.AddrFrom4([4]byte{byte(rapid.IntRange(1, 223).Draw(t, "a")), byte(i), 7, 9}).As16())
			}
			r.name = vfkit.Name{[]byte(fmt.Sprintf("s%dr%dp%d", caseNo, i, os.Getpid())), []byte("c04s"), []byte("test")}
			rs[i] = r
		}
		errs := make(chan string, n)
		for _, r := range rs {
			go func(r rq) {
				resp, err := clients[r.kind].Do(r.method, Query(r.id, r.name, 1, 1, false), map[string]string{"X-Client": r.addr.String()})
				if err != nil {
					// one retry on a transport error (a keep-alive connection the server had just closed)
					resp, err = clients[r.kind].Do(r.method, Query(r.id, r.name, 1, 1, false), map[string]string{"X-Client": r.addr.String()})
				}
				what := fmt.Sprintf("%s %s for %s from client %s", r.kind, r.method, r.name, r.addr)
				if err != nil {
					errs <- fmt.Sprintf("%s: %v", what, err)
					return
				}
				if resp.Status != 200 || !resp.Msg.Clean() || resp.Msg.ID != r.id || len(resp.Msg.Q) != 1 || !resp.Msg.Q[0].Name.EqualFold(r.name) || resp.Msg.Rcode() != 0 {
					errs <- fmt.Sprintf("%s: status %d, response %s", what, resp.Status, resp.Msg.Msg.String())
					return
				}
				rd, tag, _, ok := ParseKeyed(resp.Msg)
				want := "ecs-" + hex.EncodeToString(c12RefECS(r.addr))
				if !ok || string(rd) != string(KeyedRData(r.name, 1, 1, tag)) {
					errs <- fmt.Sprintf("%s: the answer is not the upstream's answer to this question: %s", what, resp.Msg.Msg.String())
					return
				}
				if tag != want {
					errs <- fmt.Sprintf("%s: the answer was produced for another client: the upstream saw %s, this request's client gives %s (%d requests in flight, %d of them on the HTTP/2 connection)", what, tag, want, n, h2)
					return
				}
				errs <- ""
			}(r)
		}
		bad := ""
		for range rs {
			if e := <-errs; e != "" && bad == "" {
				bad = e
			}
		}
		if bad != "" {
			t.Fatalf("%s", bad)
		}
		if p.Exited() {
			t.Fatalf("proxy exited\n%s", tail(p.Stderr(), 800))
		}
		st.Case(vfkit.Fingerprint(caseNo, os.Getpid()), h2 >= 2, []string{fmt.Sprintf("h2-requests>=2=%v", h2 >= 2)}, func() any {
			return map[string]any{"requests": n, "on_http2_connection": h2}
		})
	})
}
