package vfe2e

import (
	"bytes"
	"context"
	"crypto/sha256"
	"crypto/tls"
	"encoding/base64"
	"encoding/binary"
	"errors"
	"fmt"
	"io"
	"net"
	"net/http"
	"strings"
	"sync"
	"time"

	"github.com/quic-go/quic-go"
	"golang.org/x/net/http2"
	"vfkit"
)

// Resp is one response as a client received it.
type Resp struct {
	Raw    []byte
	Msg    *vfkit.Decoded
	At     time.Time
	Status int // HTTP status for DoH (0 otherwise)
}

func newResp(raw []byte) *Resp {
	return &Resp{Raw: append([]byte(nil), raw...), Msg: vfkit.Decode(raw), At: time.Now()}
}

// ---------------------------------------------------------------------------------------
// UDP

type UDPClient struct {
	c    *net.UDPConn
	mu   sync.Mutex
	got  []*Resp
	cond *sync.Cond
	From []string
}

func NewUDPClient(srcIP, dst string) (*UDPClient, error) {
	raddr, err := net.ResolveUDPAddr("udp", dst)
	if err != nil {
		return nil, err
	}
	var laddr *net.UDPAddr
	if srcIP != "" {
		laddr = &net.UDPAddr{IP: net.ParseIP(srcIP)}
	}
	c, err := net.DialUDP("udp", laddr, raddr)
	if err != nil {
		return nil, err
	}
	c.SetReadBuffer(4 << 20)
	u := &UDPClient{c: c}
	u.cond = sync.NewCond(&u.mu)
	go func() {
		buf := make([]byte, 70000)
		for {
			n, err := c.Read(buf)
			if err != nil {
				var ne net.Error
				if errors.As(err, &ne) && !ne.Timeout() && !errors.Is(err, net.ErrClosed) {
					// e.g. ICMP port unreachable: keep reading
					time.Sleep(time.Millisecond)
					continue
				}
				if errors.Is(err, net.ErrClosed) {
					return
				}
				continue
			}
			r := newResp(buf[:n])
			u.mu.Lock()
			u.got = append(u.got, r)
			u.cond.Broadcast()
			u.mu.Unlock()
		}
	}()
	return u, nil
}

func (u *UDPClient) Send(q []byte) error {
	_, err := u.c.Write(q)
	return err
}

func (u *UDPClient) Close() { u.c.Close() }

// All returns every datagram received so far.
func (u *UDPClient) All() []*Resp {
	u.mu.Lock()
	defer u.mu.Unlock()
	return append([]*Resp(nil), u.got...)
}

// WaitID waits for a datagram with the given DNS ID (received after index from).
func (u *UDPClient) WaitID(id uint16, from int, timeout time.Duration) *Resp {
	deadline := time.Now().Add(timeout)
	for {
		u.mu.Lock()
		for _, r := range u.got[min(from, len(u.got)):] {
			if len(r.Raw) >= 2 && binary.BigEndian.Uint16(r.Raw) == id {
				u.mu.Unlock()
				return r
			}
		}
		u.mu.Unlock()
		if time.Now().After(deadline) {
			return nil
		}
		time.Sleep(200 * time.Microsecond)
	}
}

func (u *UDPClient) Count() int {
	u.mu.Lock()
	defer u.mu.Unlock()
	return len(u.got)
}

// ---------------------------------------------------------------------------------------
// Stream (TCP, gnet, DoT)

type StreamClient struct {
	C   net.Conn
	buf []byte
}

func DialStream(srcIP, dst string, tlsCfg *tls.Config, timeout time.Duration) (*StreamClient, error) {
	d := net.Dialer{Timeout: timeout}
	if srcIP != "" {
		d.LocalAddr = &net.TCPAddr{IP: net.ParseIP(srcIP)}
	}
	c, err := d.Dial("tcp", dst)
	if err != nil {
		return nil, err
	}
	if tc, ok := c.(*net.TCPConn); ok {
		tc.SetNoDelay(true)
	}
	if tlsCfg != nil {
		tc := tls.Client(c, tlsCfg)
		c.SetDeadline(time.Now().Add(timeout))
		if err := tc.Handshake(); err != nil {
			c.Close()
			return nil, err
		}
		c.SetDeadline(time.Time{})
		c = tc
	}
	return &StreamClient{C: c}, nil
}

func (s *StreamClient) Close() { s.C.Close() }

// WriteSegments writes the byte stream cut at the given offsets, pausing between segments.
func (s *StreamClient) WriteSegments(stream []byte, cuts []int, pause time.Duration) error {
	prev := 0
	for _, c := range append(cuts, len(stream)) {
		if c <= prev || c > len(stream) {
			continue
		}
		if _, err := s.C.Write(stream[prev:c]); err != nil {
			return err
		}
		prev = c
		if pause > 0 && c < len(stream) {
			time.Sleep(pause)
		}
	}
	return nil
}

// ReadFrames reads until n complete frames were received, the peer closed, or the timeout passed.
// It returns the frames, the unconsumed remainder and whether the peer closed the stream.
func (s *StreamClient) ReadFrames(n int, timeout time.Duration) (frames []*Resp, rest []byte, closed bool) {
	deadline := time.Now().Add(timeout)
	tmp := make([]byte, 65536)
	for {
		for len(s.buf) >= 2 {
			l := int(binary.BigEndian.Uint16(s.buf))
			if len(s.buf) < 2+l {
				break
			}
			frames = append(frames, newResp(s.buf[2:2+l]))
			s.buf = s.buf[2+l:]
		}
		if len(frames) >= n {
			return frames, s.buf, false
		}
		s.C.SetReadDeadline(deadline)
		k, err := s.C.Read(tmp)
		s.buf = append(s.buf, tmp[:k]...)
		if err != nil {
			for len(s.buf) >= 2 {
				l := int(binary.BigEndian.Uint16(s.buf))
				if len(s.buf) < 2+l {
					break
				}
				frames = append(frames, newResp(s.buf[2:2+l]))
				s.buf = s.buf[2+l:]
			}
			var ne net.Error
			if errors.As(err, &ne) && ne.Timeout() {
				return frames, s.buf, false
			}
			return frames, s.buf, true
		}
	}
}

// ---------------------------------------------------------------------------------------
// DoH

type DoHClient struct {
	hc  *http.Client
	URL string
}

// NewDoHClient: scheme "http" (HTTP/1.1), "https" (HTTP/1.1 over TLS) or "h2" (HTTP/2 over TLS).
// A dst starting with "@" is an abstract unix socket (plain HTTP).
func NewDoHClient(mode, srcIP, dst string, tlsCfg *tls.Config) *DoHClient {
	dial := func(ctx context.Context, network, addr string) (net.Conn, error) {
		d := net.Dialer{Timeout: 3 * time.Second}
		if len(dst) > 0 && dst[0] == '@' {
			return d.DialContext(ctx, "unix", dst)
		}
		if srcIP != "" {
			d.LocalAddr = &net.TCPAddr{IP: net.ParseIP(srcIP)}
		}
		return d.DialContext(ctx, "tcp", dst)
	}
	host := dst
	if len(dst) > 0 && dst[0] == '@' {
		host = "unix.local"
	}
	c := &DoHClient{}
	switch mode {
	case "http":
		c.hc = &http.Client{Transport: &http.Transport{DialContext: dial, MaxIdleConnsPerHost: 64}}
		c.URL = "http://" + host + "/dns-query"
	case "https":
		c.hc = &http.Client{Transport: &http.Transport{DialContext: dial, TLSClientConfig: tlsCfg, MaxIdleConnsPerHost: 64, TLSNextProto: map[string]func(string, *tls.Conn) http.RoundTripper{}}}
		c.URL = "https://" + host + "/dns-query"
	case "h2":
		c.hc = &http.Client{Transport: &http2.Transport{TLSClientConfig: tlsCfg, DialTLSContext: func(ctx context.Context, network, addr string, cfg *tls.Config) (net.Conn, error) {
			raw, err := dial(ctx, network, addr)
			if err != nil {
				return nil, err
			}
			tc := tls.Client(raw, cfg)
			if err := tc.HandshakeContext(ctx); err != nil {
				raw.Close()
				return nil, err
			}
			return tc, nil
		}}}
		c.URL = "https://" + host + "/dns-query"
	}
	c.hc.Timeout = 12 * time.Second
	return c
}

func (c *DoHClient) Close() { c.hc.CloseIdleConnections() }

// Do sends one DoH request. method is GET or POST (or anything else, verbatim).
func (c *DoHClient) Do(method string, q []byte, hdr map[string]string) (*Resp, error) {
	var req *http.Request
	var err error
	if method == http.MethodGet {
		req, err = http.NewRequest(method, c.URL+"?dns="+base64.RawURLEncoding.EncodeToString(q), nil)
		if err == nil {
			req.Header.Set("Accept", "application/dns-message")
		}
	} else {
		req, err = http.NewRequest(method, c.URL, bytes.NewReader(q))
		if err == nil {
			req.Header.Set("Content-Type", "application/dns-message")
		}
	}
	if err != nil {
		return nil, err
	}
	for k, v := range hdr {
		if v == "" {
			req.Header.Del(k)
		} else {
			req.Header.Set(k, v)
		}
	}
	resp, err := c.hc.Do(req)
	if err != nil {
		return nil, err
	}
	defer resp.Body.Close()
	body, err := io.ReadAll(io.LimitReader(resp.Body, 1<<20))
	if err != nil {
		return nil, err
	}
	r := newResp(body)
	r.Status = resp.StatusCode
	return r, nil
}

// DoRaw sends a request with a verbatim query string / body (for hostile inputs).
func (c *DoHClient) DoRaw(method, rawQuery string, body []byte, hdr map[string]string) (*Resp, error) {
	u := c.URL
	if rawQuery != "" {
		u += "?" + rawQuery
	}
	var rd io.Reader
	if body != nil {
		rd = bytes.NewReader(body)
	}
	req, err := http.NewRequest(method, u, rd)
	if err != nil {
		return nil, err
	}
	for k, v := range hdr {
		req.Header.Set(k, v)
	}
	resp, err := c.hc.Do(req)
	if err != nil {
		return nil, err
	}
	defer resp.Body.Close()
	b, _ := io.ReadAll(io.LimitReader(resp.Body, 1<<20))
	r := newResp(b)
	r.Status = resp.StatusCode
	return r, nil
}

// ---------------------------------------------------------------------------------------
// DoQ

type DoQClient struct {
	Conn quic.Connection
	tr   *quic.Transport
}

func DialDoQ(srcIP, dst string, tlsCfg *tls.Config, timeout time.Duration) (*DoQClient, error) {
	raddr, err := net.ResolveUDPAddr("udp", dst)
	if err != nil {
		return nil, err
	}
	pc, err := net.ListenUDP("udp", &net.UDPAddr{IP: net.ParseIP(srcIP)})
	if err != nil {
		return nil, err
	}
	cfg := tlsCfg.Clone()
	cfg.NextProtos = []string{"doq"}
	tr := &quic.Transport{Conn: pc}
	ctx, cancel := context.WithTimeout(context.Background(), timeout)
	defer cancel()
	c, err := tr.Dial(ctx, raddr, cfg, &quic.Config{MaxIdleTimeout: 20 * time.Second})
	if err != nil {
		tr.Close()
		pc.Close()
		return nil, err
	}
	return &DoQClient{Conn: c, tr: tr}, nil
}

func (c *DoQClient) Close() {
	c.Conn.CloseWithError(0, "")
	c.tr.Close()
}

// Exchange opens a stream, writes payload (already framed or hostile), optionally sends FIN, and reads
// everything the server sends until it closes the stream or the timeout passes.
func (c *DoQClient) Exchange(payload []byte, fin bool, timeout time.Duration) (data []byte, closed bool, err error) {
	ctx, cancel := context.WithTimeout(context.Background(), timeout)
	defer cancel()
	s, err := c.Conn.OpenStreamSync(ctx)
	if err != nil {
		return nil, false, err
	}
	s.SetDeadline(time.Now().Add(timeout))
	if _, err := s.Write(payload); err != nil {
		return nil, false, err
	}
	if fin {
		s.Close()
	}
	data, err = io.ReadAll(s)
	if err != nil {
		var ne net.Error
		if errors.As(err, &ne) && ne.Timeout() {
			s.CancelRead(0)
			if !fin {
				s.CancelWrite(0)
			}
			return data, false, nil
		}
		return data, true, nil
	}
	if !fin {
		s.Close() // late FIN: the response has been read
	}
	return data, true, nil
}

// ---------------------------------------------------------------------------------------
// Queries and keyed answers

// Query builds a plain recursive query.
func Query(id uint16, name vfkit.Name, typ, class uint16, withOPT bool) []byte {
	m := &vfkit.Msg{ID: id, Bits: vfkit.BitRD, Q: []vfkit.Question{{Name: name, Type: typ, Class: class}}}
	if withOPT {
		m.Ar = append(m.Ar, vfkit.RR{Type: 41, Class: 1232, RData: []vfkit.RDPart{{Raw: []byte{}}}})
	}
	w, _ := vfkit.Encode(m, vfkit.EncOpts{})
	return w
}

// KeyedRData is the 4-octet answer that identifies (name, type, class, tag).
func KeyedRData(name vfkit.Name, typ, class uint16, tag string) []byte {
	h := sha256.New()
	h.Write(name.Lower().Wire())
	fmt.Fprintf(h, "|%d|%d|%s", typ, class, tag)
	return h.Sum(nil)[:4]
}

// KeyedAnswer builds the reply a fake upstream gives: an A-typed record whose RDATA is a keyed function of
// the question, and a TXT record carrying "tag/serial".
func KeyedAnswer(q *vfkit.Decoded, tag string, serial uint32, ttl uint32, rcode uint16) *vfkit.Msg {
	m := &vfkit.Msg{ID: q.ID, Bits: vfkit.BitQR | vfkit.BitRD | vfkit.BitRA | rcode}
	if len(q.Q) > 0 {
		qq := q.Q[0]
		m.Q = []vfkit.Question{qq}
		txt := []byte(fmt.Sprintf("%s/%d", tag, serial))
		m.An = []vfkit.RR{
			{Owner: qq.Name, Type: 1, Class: qq.Class, TTL: ttl, RData: []vfkit.RDPart{{Raw: KeyedRData(qq.Name, qq.Type, qq.Class, tag)}}},
			{Owner: qq.Name, Type: 16, Class: qq.Class, TTL: ttl, RData: []vfkit.RDPart{{Raw: append([]byte{byte(len(txt))}, txt...)}}},
		}
	}
	return m
}

func EncodeMsg(m *vfkit.Msg) []byte {
	w, _ := vfkit.Encode(m, vfkit.EncOpts{})
	return w
}

// ParseKeyed extracts (keyed rdata, tag, serial) from a response built by KeyedAnswer.
func ParseKeyed(d *vfkit.Decoded) (rd []byte, tag string, serial uint32, ok bool) {
	if len(d.An) < 2 || d.An[0].Type != 1 || d.An[1].Type != 16 {
		return nil, "", 0, false
	}
	rd = d.An[0].RDataWire()
	t := d.An[1].RDataWire()
	if len(t) < 1 || int(t[0]) != len(t)-1 {
		return nil, "", 0, false
	}
	s := string(t[1:])
	for i := len(s) - 1; i >= 0; i-- {
		if s[i] == '/' {
			tag = s[:i]
			var n uint32
			for _, c := range s[i+1:] {
				if c < '0' || c > '9' {
					return nil, "", 0, false
				}
				n = n*10 + uint32(c-'0')
			}
			return rd, tag, n, true
		}
	}
	return nil, "", 0, false
}

// RichExtras returns authority and additional records that are a keyed function of the question name and cover every
// record kind the proxy's codec has a dedicated (pooled) representation for: MX, SRV, SOA, NS/CNAME/PTR style single-name
// records, A, AAAA and an opaque type. Every embedded name carries the question's labels, so a response whose extras
// do not match its question is a mix-up (or a buffer shared between two live messages).
func RichExtras(qname vfkit.Name) (ns, ar []vfkit.RR) {
	if qname.WireLen() > 180 {
		return nil, nil
	}
	low := qname.Lower()
	hs := sha256.Sum256(append([]byte("extras|"), low.Wire()...))
	h := hs[:]
	if h[3]%4 == 0 {
		return nil, nil
	}
	sub := func(l string) vfkit.Name { return append(vfkit.Name{[]byte(l)}, low...) }
	nm := func(n vfkit.Name) vfkit.RDPart { return vfkit.RDPart{IsName: true, Name: n} }
	raw := func(b ...byte) vfkit.RDPart { return vfkit.RDPart{Raw: b} }
	soa := vfkit.RR{Owner: low, Type: 6, Class: 1, TTL: 3600, RData: []vfkit.RDPart{nm(sub("ns")), nm(sub("hostmaster")), raw(h[0], h[1], h[2], h[3], 0, 0, 14, 16, 0, 0, 7, 8, 0, 9, 58, 128, 0, 0, 1, 44)}}
	mx := vfkit.RR{Owner: low, Type: 15, Class: 1, TTL: 3600, RData: []vfkit.RDPart{raw(0, h[0]), nm(sub("mx"))}}
	srv := vfkit.RR{Owner: sub("_dns"), Type: 33, Class: 1, TTL: 3600, RData: []vfkit.RDPart{raw(0, 1, 0, 2, h[1], h[2]), nm(sub("srv"))}}
	nsr := vfkit.RR{Owner: low, Type: 2, Class: 1, TTL: 3600, RData: []vfkit.RDPart{nm(sub("ns"))}}
	ptr := vfkit.RR{Owner: sub("ptr"), Type: 12, Class: 1, TTL: 3600, RData: []vfkit.RDPart{nm(low)}}
	a6 := vfkit.RR{Owner: sub("ns"), Type: 28, Class: 1, TTL: 3600, RData: []vfkit.RDPart{raw(append([]byte{0x20, 0x01, 0x0d, 0xb8}, h[:12]...)...)}}
	opaque := vfkit.RR{Owner: sub("x"), Type: 65, Class: 1, TTL: 3600, RData: []vfkit.RDPart{raw(h[:9]...)}}
	if h[4]%4 == 0 {
		// a bulky answer for one name in four: some 2 KiB on the wire even with compression, above every "small
		// response" threshold a listener might have
		bulk := []vfkit.RR{mx, srv, ptr, a6, opaque}
		for i := 0; i < 40; i++ {
			bulk = append(bulk, vfkit.RR{Owner: sub("glue"), Type: 16, Class: 1, TTL: 3600, RData: []vfkit.RDPart{raw(append([]byte{31}, bytes.Repeat([]byte{(h[5] ^ byte(i)) & 0x7f}, 31)...)...)}})
		}
		return []vfkit.RR{nsr, soa}, bulk
	}
	switch h[3] % 4 {
	case 1:
		return []vfkit.RR{soa}, []vfkit.RR{mx}
	case 2:
		return []vfkit.RR{nsr}, []vfkit.RR{srv, a6, opaque}
	}
	return []vfkit.RR{nsr, soa}, []vfkit.RR{mx, srv, ptr, a6, opaque}
}

// ExtrasMismatch compares the authority and additional (non OPT) records of a decoded response with RichExtras(qname);
// it returns "" when they agree, case-insensitively.
func ExtrasMismatch(d *vfkit.Decoded, qname vfkit.Name) string {
	ns, ar := RichExtras(qname)
	canon := func(rs []vfkit.RR) []string {
		var out []string
		for i := range rs {
			if rs[i].Type == 41 {
				continue
			}
			out = append(out, strings.ToLower(string(rs[i].Owner.Wire()))+fmt.Sprintf("/%d/%x", rs[i].Type, bytes.ToLower(rs[i].RDataWire())))
		}
		return out
	}
	for _, pair := range [][2][]string{{canon(ns), canon(d.Ns)}, {canon(ar), canon(d.Ar)}} {
		if len(pair[0]) != len(pair[1]) {
			return fmt.Sprintf("%d records where the upstream sent %d", len(pair[1]), len(pair[0]))
		}
		for i := range pair[0] {
			if pair[0][i] != pair[1][i] {
				return fmt.Sprintf("record %q where the upstream sent %q", pair[1][i], pair[0][i])
			}
		}
	}
	return ""
}

// DoStreamed sends a POST whose body reaches the server in two parts with a pause in between (no Content-Length), so
// that the body-read phases of requests multiplexed on one HTTP/2 connection overlap.
func (c *DoHClient) DoStreamed(q []byte, cut int, pause time.Duration) (*Resp, error) {
	return c.DoStreamedHdr(q, cut, pause, nil)
}

// DoStreamedHdr is DoStreamed with extra request headers.
func (c *DoHClient) DoStreamedHdr(q []byte, cut int, pause time.Duration, hdr map[string]string) (*Resp, error) {
	pr, pw := io.Pipe()
	go func() {
		if cut > len(q) {
			cut = len(q)
		}
		pw.Write(q[:cut])
		if pause > 0 {
			time.Sleep(pause)
		}
		pw.Write(q[cut:])
		pw.Close()
	}()
	req, err := http.NewRequest(http.MethodPost, c.URL, pr)
	if err != nil {
		return nil, err
	}
	req.Header.Set("Content-Type", "application/dns-message")
	for k, v := range hdr {
		req.Header.Set(k, v)
	}
	resp, err := c.hc.Do(req)
	if err != nil {
		return nil, err
	}
	defer resp.Body.Close()
	b, _ := io.ReadAll(io.LimitReader(resp.Body, 1<<20))
	r := newResp(b)
	r.Status = resp.StatusCode
	return r, nil
}
