package vfe2e

// C19 with both cache levels: an entry that lives in the second-level store only (another instance put it there) is hit
// twice at once, in its refresh window, at a proxy with a memory cache in front of the store. Both lookups go to the
// store; one comes back at once, the other more than a second later - after the refresh that the first one started has
// succeeded. What the late lookup brings back is the old entry: it must not undo the refresh.

import (
	"bytes"
	"fmt"
	"os"
	"sync"
	"testing"
	"time"

	"pgregory.net/rapid"
	"vfkit"
)

func TestVfC19StoreRace(t *testing.T) {
	st := vfkit.Stats("TestVfC19StoreRace", "two proxies sharing the harness's RESP3 store, one without and one with a memory cache; 3-10 names per case, each primed through the first proxy (TTL 20 s) and then, 15.3-16.2 s later, hit twice at once at the second proxy, whose two lookups the store answers after 40 ms and after 1.0-1.8 s; the refresh the first hit starts is answered at once (new serial, TTL 60), any later one after 2.5 s; 0.3 s after the late lookup came back the name is asked again; oracles: both hits are answered from the old entry, and the last answer carries the refreshed entry (not the old one again); non-trivial = a refresh reached the upstream before the late lookup returned")
	defer vfkit.Flush()
	block := NextIPBlock()
	var mu sync.Mutex
	fetches := map[string][]uint32{} // label -> serials of the upstream's answers, in order
	up, err := StartUpstream("udp", "up", block+"2", 0, nil, func(q *UpQuery) UpAction {
		if q.Msg.Err != nil || len(q.Msg.Q) != 1 {
			return UpAction{}
		}
		lbl := string(bytes.ToLower(q.Msg.Q[0].Name[0]))
		mu.Lock()
		n := len(fetches[lbl])
		fetches[lbl] = append(fetches[lbl], uint32(q.Seq))
		mu.Unlock()
		ttl := uint32(20)
		if n > 0 {
			ttl = 60
		}
		act := UpAction{Reply: EncodeMsg(KeyedAnswer(q.Msg, "c19s", uint32(q.Seq), ttl, 0))}
		if n >= 2 {
			// the late hit starts a refresh of its own (it was answered from an entry in its last quarter); answered
			// at once it would hide what the late lookup did to the memory cache
			act.Delay = 2500 * time.Millisecond
		}
		return act
	})
	if err != nil {
		t.Fatal(err)
	}
	defer up.Close()
	store, err := vfkit.StartFakeRedis(block + "3")
	if err != nil {
		t.Fatal(err)
	}
	defer store.Close()
	var pips [2]string
	var ps [2]*Proxy
	for i, mem := range []int{0, 64 << 20} {
		pips[i] = block + itoa(10+i)
		cfg := &Config{Servers: StdServers(pips[i], []string{"udp"}, ""), Upstreams: []UpstreamCfg{{Tag: "up", Addr: up.Addr()}}, Rules: []Rule{{Forward: "up"}},
			Cache: &CacheCfg{MemSize: mem, Redis: store.URL()}}
		p, err := StartProxy(cfg.YAML(), nil, ProxyOpts{})
		if err != nil {
			t.Fatal(err)
		}
		defer p.Cleanup()
		ps[i] = p
	}
	for until := time.Now().Add(6 * time.Second); store.Pings.Load() < 4 && time.Now().Before(until); {
		time.Sleep(20 * time.Millisecond)
	}
	caseNo := 0
	rapid.Check(t, func(t *rapid.T) {
		caseNo++
		n := rapid.IntRange(3, 10).Draw(t, "names")
		type plan struct {
			label   string
			burstAt time.Duration
			late    time.Duration
		}
		plans := make([]plan, n)
		late := map[string]time.Duration{}
		for i := range plans {
			plans[i] = plan{label: fmt.Sprintf("r%dn%dp%d", caseNo, i, os.Getpid()), burstAt: time.Duration(rapid.IntRange(15300, 16200).Draw(t, "burstAtMs")) * time.Millisecond,
				late: time.Duration(rapid.IntRange(1000, 1800).Draw(t, "lateLookupMs")) * time.Millisecond}
			late[plans[i].label] = plans[i].late
		}
		store.SetGetDelay(func(key []byte, k int) time.Duration {
			for lbl, d := range late {
				if bytes.Contains(key, []byte(lbl)) {
					switch k { // 0: the priming miss, 1: the first hit of the burst, 2: the second
					case 1:
						return 40 * time.Millisecond // long enough for the second hit to miss the memory cache as well
					case 2:
						return d
					}
				}
			}
			return 0
		})
		defer store.SetGetDelay(nil)
		var firstErr sync.Map
		fail := func(format string, args ...any) { firstErr.LoadOrStore("e", fmt.Sprintf(format, args...)) }
		judged := 0
		var jmu sync.Mutex
		var wg sync.WaitGroup
		for _, pl := range plans {
			wg.Add(1)
			go func(pl plan) {
				defer wg.Done()
				name := vfkit.Name{[]byte(pl.label), []byte("storerace"), []byte("test")}
				serial := func(r *Resp) uint32 {
					_, _, s, _ := ParseKeyed(r.Msg)
					return s
				}
				a0 := NewAsker(pips[0], "")
				defer a0.Close()
				r := a0.AskPatient("udp", Query(1, name, 1, 1, false), 3*time.Second)
				if len(r.Resps) != 1 || r.Resps[0].Msg.Rcode() != 0 {
					fail("%s: priming failed", pl.label)
					return
				}
				primed := time.Now()
				old := serial(r.Resps[0])
				time.Sleep(time.Until(primed.Add(pl.burstAt)))
				// two hits at once at the proxy with the memory cache
				var hw sync.WaitGroup
				hits := make([]*AskResult, 2)
				for h := 0; h < 2; h++ {
					hw.Add(1)
					go func(h int) {
						defer hw.Done()
						a := NewAsker(pips[1], "")
						defer a.Close()
						hits[h] = a.Ask("udp", Query(uint16(10+h), name, 1, 1, false), 5*time.Second, 0)
					}(h)
				}
				hw.Wait()
				for h, res := range hits {
					if len(res.Resps) != 1 {
						fail("%s: hit %d of the burst got %d responses", pl.label, h, len(res.Resps))
						return
					}
					if s := serial(res.Resps[0]); s != old {
						mu.Lock()
						fs := append([]uint32(nil), fetches[pl.label]...)
						mu.Unlock()
						if len(fs) < 2 || s != fs[1] {
							fail("%s: hit %d of the burst carries serial %d (primed entry %d, upstream answers %v)", pl.label, h, s, old, fs)
							return
						}
					}
				}
				mu.Lock()
				fs := append([]uint32(nil), fetches[pl.label]...)
				mu.Unlock()
				if len(fs) < 2 {
					return // no refresh was started (the store was not in use, or the burst missed the window): no verdict
				}
				time.Sleep(300 * time.Millisecond)
				a1 := NewAsker(pips[1], "")
				defer a1.Close()
				last := a1.AskPatient("udp", Query(20, name, 1, 1, false), 3*time.Second)
				if len(last.Resps) != 1 {
					fail("%s: no response after the burst", pl.label)
					return
				}
				jmu.Lock()
				judged++
				jmu.Unlock()
				if s := serial(last.Resps[0]); s == old {
					ttl := uint32(0)
					if len(last.Resps[0].Msg.An) > 0 {
						ttl = last.Resps[0].Msg.An[0].TTL
					}
					fail("%s: the refresh was answered (serial %d, TTL 60) %.1fs ago, yet the proxy serves the old entry again (serial %d, TTL %d): the lookup that came back from the store %v late put the old entry over the refreshed one", pl.label, fs[1], time.Since(primed.Add(pl.burstAt)).Seconds(), old, ttl, pl.late)
				}
			}(pl)
		}
		wg.Wait()
		if e, ok := firstErr.Load("e"); ok {
			t.Fatalf("%v", e)
		}
		for i, p := range ps {
			if cr := p.Crashed(); cr != "" || p.Exited() {
				t.Fatalf("proxy %d died: %s", i, cr)
			}
		}
		st.Class("names-judged", judged)
		st.Case(vfkit.Fingerprint(caseNo, os.Getpid(), n), judged > 0, nil, func() any {
			return map[string]any{"names": n, "judged": judged}
		})
	})
}
