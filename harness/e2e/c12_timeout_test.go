package vfe2e

// C12 for the answers the proxy makes up itself when time runs out: a supported query to an upstream that never
// answers ends as SERVFAIL at the request deadline - with exactly one OPT if, and only if, the query had one.

import (
	"fmt"
	"os"
	"sync"
	"testing"
	"time"

	"pgregory.net/rapid"
	"vfkit"
)

func TestVfC12Timeout(t *testing.T) {
	st := vfkit.Stats("TestVfC12Timeout", "8-40 supported queries at once over drawn listener kinds (all eight), with or without an OPT (drawn size, DO bit, options), to an upstream that never answers (udp or tcp), cache on or off; oracle on the one response each gets at the request deadline: an OPT iff the query had one, exactly one, without options, extended RCODE and version 0; non-trivial = every case (half of the queries carry an OPT)")
	defer vfkit.Flush()
	block := NextIPBlock()
	silent := func(q *UpQuery) UpAction { return UpAction{} }
	upU, err := StartUpstream("udp", "upu", block+"2", 0, nil, silent)
	if err != nil {
		t.Fatal(err)
	}
	defer upU.Close()
	upT, err := StartUpstream("tcp", "upt", block+"3", 0, nil, silent)
	if err != nil {
		t.Fatal(err)
	}
	defer upT.Close()
	var pips [2]string
	var ps [2]*Proxy
	for i, cached := range []bool{false, true} {
		pips[i] = block + itoa(10+i)
		cfg := &Config{Servers: StdServers(pips[i], AllListenerKinds, ""), Upstreams: []UpstreamCfg{{Tag: "upu", Addr: upU.Addr()}, {Tag: "upt", Addr: upT.Addr()}},
			DomainSets: []DomainSet{{Tag: "t", Files: []string{"$DIR/t.txt"}}}, Rules: []Rule{{Domain: "t", Forward: "upt"}, {Forward: "upu"}}, ECS: &ECSCfg{Enabled: true}}
		if cached {
			cfg.Cache = &CacheCfg{MemSize: 1 << 20}
		}
		p, err := StartProxy(cfg.YAML(), map[string]string{"t.txt": "viatcp.test\n"}, ProxyOpts{})
		if err != nil {
			t.Fatal(err)
		}
		defer p.Cleanup()
		ps[i] = p
	}
	caseNo := 0
	rapid.Check(t, func(t *rapid.T) {
		caseNo++
		pi := rapid.IntRange(0, 1).Draw(t, "cacheOn")
		n := rapid.IntRange(8, 40).Draw(t, "queries")
		type plan struct {
			kind    string
			withOPT bool
			q       []byte
		}
		plans := make([]plan, n)
		for i := range plans {
			pl := plan{kind: rapid.SampledFrom(AllListenerKinds).Draw(t, "listener"), withOPT: rapid.Bool().Draw(t, "withOPT")}
			zone := "silent"
			if rapid.Bool().Draw(t, "viaTCP") {
				zone = "viatcp"
			}
			m := &vfkit.Msg{ID: uint16(caseNo*64 + i), Bits: vfkit.BitRD, Q: []vfkit.Question{{Name: vfkit.Name{[]byte(fmt.Sprintf("o%dq%dp%d", caseNo, i, os.Getpid())), []byte(zone), []byte("test")}, Type: 1, Class: 1}}}
			if pl.withOPT {
				m.Ar = []vfkit.RR{{Type: 41, Class: rapid.SampledFrom([]uint16{0, 512, 1232, 4096}).Draw(t, "size"), TTL: rapid.SampledFrom([]uint32{0, 0x8000, 0x05000000}).Draw(t, "optTTL"), RData: []vfkit.RDPart{{Raw: c12Options(t, 'C')}}}}
			}
			pl.q = EncodeMsg(m)
			plans[i] = pl
		}
		var firstErr sync.Map
		var wg sync.WaitGroup
		for i, pl := range plans {
			wg.Add(1)
			go func(i int, pl plan) {
				defer wg.Done()
				a := NewAsker(pips[pi], "")
				defer a.Close()
				res := a.Ask(pl.kind, pl.q, 9*time.Second, 0)
				desc := fmt.Sprintf("query %d over %s, OPT in the query: %v, upstream silent, cache on: %v", i, pl.kind, pl.withOPT, pi == 1)
				if len(res.Resps) != 1 {
					firstErr.LoadOrStore("e", fmt.Sprintf("%d responses (err %v, status %d); %s", len(res.Resps), res.Err, res.Status, desc))
					return
				}
				r := res.Resps[0]
				if !r.Msg.Clean() || r.Msg.Rcode() != 2 {
					firstErr.LoadOrStore("e", fmt.Sprintf("unexpected response %s; %s", r.Msg.Msg.String(), desc))
					return
				}
				nOPT := 0
				var opt vfkit.RR
				for _, rr := range r.Msg.Ar {
					if rr.Type == 41 {
						nOPT++
						opt = rr
					}
				}
				switch {
				case !pl.withOPT && nOPT != 0:
					firstErr.LoadOrStore("e", fmt.Sprintf("the response to a query without OPT carries %d OPT records; %s", nOPT, desc))
				case pl.withOPT && nOPT != 1:
					firstErr.LoadOrStore("e", fmt.Sprintf("the response to a supported query with OPT carries %d OPT records (rcode %d, sent %.1fs after the query); %s", nOPT, r.Msg.Rcode(), r.At.Sub(res.Sent).Seconds(), desc))
				case pl.withOPT && (len(opt.RDataWire()) != 0 || opt.TTL>>16 != 0 || opt.Class < 512):
					firstErr.LoadOrStore("e", fmt.Sprintf("response OPT with options %x, TTL field %#x, size %d; %s", opt.RDataWire(), opt.TTL, opt.Class, desc))
				}
			}(i, pl)
		}
		wg.Wait()
		if e, ok := firstErr.Load("e"); ok {
			t.Fatalf("%v", e)
		}
		if cr := ps[pi].Crashed(); cr != "" || ps[pi].Exited() {
			t.Fatalf("proxy died: %s", cr)
		}
		st.Case(vfkit.Fingerprint(caseNo, os.Getpid(), n), true, []string{fmt.Sprintf("cache=%v", pi == 1)}, func() any {
			return map[string]any{"queries": n, "cache": pi == 1}
		})
	})
}
