package vfe2e

// C13 - stream listeners frame correctly under any segmentation and pipelining.

import (
	"bytes"
	"crypto/tls"
	"fmt"
	"os"
	"sort"
	"strings"
	"sync"
	"sync/atomic"
	"testing"
	"time"

	"pgregory.net/rapid"
	"vfkit"
)

type c13Env struct {
	proxies map[int]*Proxy // max_concurrent -> proxy (0 = default)
	ips     map[int]string
	up      *FakeUpstream
	bigs    sync.Map // token string -> number of 1 KiB records the upstream adds to the answer
	gates   sync.Map // token string -> chan struct{}
	delays  sync.Map // token string -> time.Duration
}

func c13Token(q *UpQuery) string {
	if q.Msg.Err != nil || len(q.Msg.Q) != 1 || len(q.Msg.Q[0].Name) == 0 {
		return ""
	}
	// the token label is the last-but-two label: <pad...>.<token>.c13.test
	n := q.Msg.Q[0].Name
	if len(n) < 3 {
		return ""
	}
	return string(n[len(n)-3])
}

func TestVfC13Framing(t *testing.T) {
	st := vfkit.Stats("TestVfC13Framing", "k in 1..60 pipelined queries of 17 B..4 KiB (one near-64 KiB class incl. 65533-65535 octets, one of 2^8..2^14 octets +-2) on tcp / gnet / tls listeners, byte stream cut by a drawn segmentation plan (inside the 2-octet prefix, inside bodies, several frames per segment, 1-octet segments, optional 1-3 ms pauses), per-query upstream delays (concurrent, out-of-order completion), responses of 17-60 KiB for a quarter of the queries of small batches (several of them completing together; one in four of those fills a frame up to 0-10 octets before the proxy adds the OPT of an EDNS client), max_concurrent_queries in {default,1,2,5} with gated upstream replies, in one case of three preceded by 1-6 connections that die in the middle of a frame; oracle: return stream is exactly k frames whose prefixes equal their body lengths, each body decodes, response IDs = query IDs as multisets, each answer belongs to its own query, exactly k-max REFUSED when the limit is exceeded; non-trivial = a cut inside a prefix or body with k >= 2, or the limit exceeded")
	defer vfkit.Flush()
	env := &c13Env{proxies: map[int]*Proxy{}, ips: map[int]string{}}
	block := NextIPBlock()
	up, err := StartUpstream("tcp", "up", block+"2", 0, nil, func(q *UpQuery) UpAction {
		tok := c13Token(q)
		km := KeyedAnswer(q.Msg, "c13", 0, 60, 0)
		var ceilingReply []byte
		if n, ok := env.bigs.Load(tok); ok && n.(int) < 0 {
			// a reply that fills a frame to the last octets (65535 - delta in its compressed form, one record owned by the
			// root, so no encoder makes it shorter): with the OPT the proxy owes an EDNS client it no longer fits in one frame
			delta := -n.(int) - 1
			km.Ar = append(km.Ar, vfkit.RR{Owner: vfkit.Name{}, Type: 65280, Class: 1, TTL: 60, RData: []vfkit.RDPart{{Raw: nil}}})
			packed, _ := vfkit.Encode(km, vfkit.EncOpts{Compress: func() bool { return true }})
			km.Ar[len(km.Ar)-1].RData = []vfkit.RDPart{{Raw: bytes.Repeat([]byte{0x5a}, 65535-delta-len(packed))}}
			ceilingReply, _ = vfkit.Encode(km, vfkit.EncOpts{Compress: func() bool { return true }})
			if len(ceilingReply) != 65535-delta {
				vfkit.Inconclusive("C13: the harness built a ceiling reply of %d octets instead of %d", len(ceilingReply), 65535-delta)
			}
		} else if ok {
			// a response of tens of KiB: larger than one TLS record, one socket buffer or any internal write chunk
			for i := 0; i < n.(int); i++ {
				km.Ar = append(km.Ar, vfkit.RR{Owner: km.Q[0].Name, Type: 65280, Class: 1, TTL: 60, RData: []vfkit.RDPart{{Raw: bytes.Repeat([]byte{byte(i)}, 1000)}}})
			}
		}
		a := UpAction{Reply: EncodeMsg(km)}
		if ceilingReply != nil {
			a.Reply = ceilingReply
		}
		if g, ok := env.gates.Load(tok); ok {
			a.Gate = g.(chan struct{})
		}
		if d, ok := env.delays.Load(tok); ok {
			a.Delay = d.(time.Duration)
		}
		return a
	})
	if err != nil {
		t.Fatal(err)
	}
	defer up.Close()
	env.up = up
	for i, mc := range []int{0, 1, 2, 5} {
		pip := block + itoa(10+i)
		cfg := &Config{Servers: StdServers(pip, []string{"tcp", "gnet", "tls"}, ""), Upstreams: []UpstreamCfg{{Tag: "up", Addr: up.Addr()}}, Rules: []Rule{{Forward: "up"}}}
		if mc > 0 {
			for j := range cfg.Servers {
				cfg.Servers[j].Tcp = &TcpCfg{MaxConcurrentQueries: mc}
			}
		}
		p, err := StartProxy(cfg.YAML(), nil, ProxyOpts{})
		if err != nil {
			t.Fatal(err)
		}
		defer p.Cleanup()
		env.proxies[mc], env.ips[mc] = p, pip
	}
	caseNo := 0
	rapid.Check(t, func(t *rapid.T) {
		caseNo++
		listener := rapid.SampledFrom([]string{"tcp", "gnet", "tls"}).Draw(t, "listener")
		mc := rapid.SampledFrom([]int{0, 0, 1, 2, 5}).Draw(t, "maxConcurrent")
		k := rapid.IntRange(1, 60).Draw(t, "k")
		if rapid.IntRange(0, 3).Draw(t, "small") > 0 {
			k = rapid.IntRange(1, 8).Draw(t, "kSmall")
		}
		type qinfo struct {
			id   uint16
			name vfkit.Name
			tok  string
			wire []byte
		}
		qs := make([]qinfo, k)
		bigResponses, ceiling, edgeSized, largest := 0, 0, 0, 0
		var stream []byte
		var bounds []int // frame start offsets
		for i := range qs {
			tok := fmt.Sprintf("c%dq%d", caseNo, i)
			name := vfkit.Name{[]byte(tok), []byte("c13"), []byte("test")}
			m := &vfkit.Msg{ID: uint16(caseNo*64 + i), Bits: vfkit.BitRD, Q: []vfkit.Question{{Name: name, Type: 1, Class: 1}}}
			// size classes via padding records in the additional section (ignored by the proxy)
			switch rapid.IntRange(0, 10).Draw(t, "size") {
			case 10:
				// a query whose wire length is a power of two, or one or two octets next to it (the sizes of read buffers)
				target := 1<<rapid.IntRange(8, 14).Draw(t, "log2") + rapid.IntRange(-2, 2).Draw(t, "offBy")
				base := len(EncodeMsg(m)) + 11 // the padding record: root owner, type, class, TTL, RDLENGTH
				if pad := target - base; pad >= 0 {
					m.Ar = append(m.Ar, vfkit.RR{Type: 65280, Class: 1, RData: []vfkit.RDPart{{Raw: bytes.Repeat([]byte{6}, pad)}}})
					edgeSized++
				}
			case 0, 1, 2, 3, 4:
			case 5, 6:
				m.Ar = append(m.Ar, vfkit.RR{Type: 65280, Class: 1, RData: []vfkit.RDPart{{Raw: bytes.Repeat([]byte{7}, rapid.IntRange(1, 300).Draw(t, "pad"))}}})
			case 7, 8:
				m.Ar = append(m.Ar, vfkit.RR{Type: 65280, Class: 1, RData: []vfkit.RDPart{{Raw: bytes.Repeat([]byte{8}, rapid.IntRange(1000, 4000).Draw(t, "pad"))}}})
			default:
				if i == 0 {
					pad := 65000
					if rapid.Bool().Draw(t, "largestFrames") {
						// the largest frames there are: 65533, 65534 or 65535 octets
						pad = 65535 - rapid.IntRange(0, 2).Draw(t, "below65535") - len(EncodeMsg(m)) - 11
						largest++
					}
					m.Ar = append(m.Ar, vfkit.RR{Type: 65280, Class: 1, RData: []vfkit.RDPart{{Raw: bytes.Repeat([]byte{9}, pad)}}})
				}
			}
			if k <= 12 && rapid.IntRange(0, 3).Draw(t, "bigResponse") == 0 {
				env.bigs.Store(tok, rapid.IntRange(17, 60).Draw(t, "bigKiB"))
				bigResponses++
				if rapid.IntRange(0, 3).Draw(t, "atTheCeiling") == 0 {
					// the upstream's reply fills a frame up to 0-10 octets, and the client speaks EDNS
					env.bigs.Store(tok, -1-rapid.IntRange(0, 10).Draw(t, "octetsBelow65535"))
					m.Ar = append(m.Ar, vfkit.RR{Type: 41, Class: 4096, RData: []vfkit.RDPart{{Raw: []byte{}}}})
					ceiling++
				}
			}
			if over := len(EncodeMsg(m)) - 65535; over > 0 {
				// the OPT came on top of a padding that already filled the frame: a query is at most 65535 octets
				for j := range m.Ar {
					if m.Ar[j].Type == 65280 && len(m.Ar[j].RData) == 1 && len(m.Ar[j].RData[0].Raw) > over {
						m.Ar[j].RData[0].Raw = m.Ar[j].RData[0].Raw[over:]
						break
					}
				}
			}
			if len(EncodeMsg(m)) > 65535 {
				vfkit.Inconclusive("C13: the harness built a query of %d octets", len(EncodeMsg(m)))
			}
			qs[i] = qinfo{id: m.ID, name: name, tok: tok, wire: EncodeMsg(m)}
			bounds = append(bounds, len(stream))
			stream = append(stream, frame(qs[i].wire)...)
		}
		// segmentation plan
		var cuts []int
		inside := false
		switch rapid.IntRange(0, 4).Draw(t, "plan") {
		case 0: // whole stream in one write
		case 1: // every octet separately (bounded)
			for i := 1; i < len(stream) && i < 400; i++ {
				cuts = append(cuts, i)
			}
			inside = true
		case 2: // cut inside every length prefix
			for _, b := range bounds {
				cuts = append(cuts, b+1)
			}
			inside = true
		default:
			for i := rapid.IntRange(1, 12).Draw(t, "nCuts"); i > 0; i-- {
				cuts = append(cuts, rapid.IntRange(1, max(1, len(stream)-1)).Draw(t, "cut"))
			}
			// bias: some cuts right after / inside prefixes
			for _, b := range bounds {
				if rapid.IntRange(0, 3).Draw(t, "prefixCut") == 0 {
					cuts = append(cuts, b+rapid.IntRange(1, 2).Draw(t, "off"))
				}
			}
			inside = true
		}
		sort.Ints(cuts)
		pause := time.Duration(rapid.IntRange(0, 3).Draw(t, "pauseMs")) * time.Millisecond
		if len(cuts) > 100 {
			pause = 0
		}
		// upstream timing: delays, or gates when the limit is exercised
		limit := mc
		if limit == 0 {
			limit = 100
		}
		over := k - limit
		gate := make(chan struct{})
		for _, q := range qs {
			if over > 0 {
				env.gates.Store(q.tok, gate)
			} else if d := rapid.IntRange(0, 3).Draw(t, "delay"); d > 0 {
				env.delays.Store(q.tok, time.Duration(rapid.IntRange(1, 30).Draw(t, "delayMs"))*time.Millisecond)
			}
		}
		defer func() {
			for _, q := range qs {
				env.gates.Delete(q.tok)
				env.delays.Delete(q.tok)
				env.bigs.Delete(q.tok)
			}
		}()
		var tcfg *tls.Config
		if listener == "tls" {
			tcfg = &tls.Config{InsecureSkipVerify: true}
		}
		// Other connections that die in the middle of a frame just before this one is opened: whatever reassembly state
		// they leave behind belongs to them alone.
		nAbort := 0
		if rapid.IntRange(0, 2).Draw(t, "abortedBefore") == 0 {
			nAbort = rapid.IntRange(1, 6).Draw(t, "nAborted")
		}
		for i := 0; i < nAbort; i++ {
			ac, err := DialStream("", fmt.Sprintf("%s:%d", env.ips[mc], ListenerPorts[listener]), tcfg, 3*time.Second)
			if err != nil {
				t.Fatalf("dial %s: %v", listener, err)
			}
			switch rapid.IntRange(0, 2).Draw(t, "abortShape") {
			case 0:
				ac.C.Write([]byte{0x01}) // half a prefix
			case 1:
				ac.C.Write(append([]byte{0x01, 0x2c}, bytes.Repeat([]byte{0xAA}, rapid.IntRange(0, 299).Draw(t, "abortBody"))...)) // prefix 300 + part of the body
			default:
				f := frame(qs[0].wire)
				ac.C.Write(f[:len(f)-1]) // a whole query but its last octet
			}
			if rapid.Bool().Draw(t, "abortLinger") {
				time.Sleep(2 * time.Millisecond)
			}
			ac.Close()
		}
		if nAbort > 0 {
			time.Sleep(3 * time.Millisecond)
		}
		c, err := DialStream("", fmt.Sprintf("%s:%d", env.ips[mc], ListenerPorts[listener]), tcfg, 3*time.Second)
		if err != nil {
			t.Fatalf("dial %s: %v", listener, err)
		}
		defer c.Close()
		werr := make(chan error, 1)
		if over > 0 && rapid.IntRange(0, 3).Draw(t, "halfClose") == 0 {
			// The client sends its queries, closes its sending direction and keeps reading. What happens to the admitted
			// queries then is not this check's business (the listener hangs up on EOF), but the over-limit ones were
			// "answered REFUSED rather than dropped" the moment they were read: those frames must all arrive.
			if err := c.WriteSegments(stream, cuts, pause); err != nil {
				t.Fatalf("write: %v", err)
			}
			if cw, ok := c.C.(interface{ CloseWrite() error }); ok {
				cw.CloseWrite()
			}
			got, _, _ := c.ReadFrames(k, 3*time.Second)
			close(gate)
			refusedSeen := 0
			for _, f := range got {
				if !f.Msg.Clean() {
					t.Fatalf("a frame read after the half-close does not decode: torn output")
				}
				if f.Msg.Rcode() == 5 {
					refusedSeen++
				}
			}
			if refusedSeen < over {
				t.Fatalf("listener=%s max_concurrent=%d: %d queries were over the limit (k=%d, upstream gated) but only %d REFUSED frames reached a client that half-closed after sending: over-limit queries were dropped", listener, mc, over, k, refusedSeen)
			}
			st.Case(vfkit.Fingerprint(stream, fmt.Sprint(cuts), listener, mc, "halfclose"), true, []string{"listener=" + listener, "limit-exceeded", "half-close"}, func() any {
				return map[string]any{"listener": listener, "k": k, "max_concurrent": mc, "refused_after_half_close": refusedSeen}
			})
			return
		}
		go func() { werr <- c.WriteSegments(stream, cuts, pause) }()
		var frames []*Resp
		closed := false
		if over > 0 {
			// first the REFUSED responses must arrive while the upstream holds every forwarded query
			frames, _, closed = c.ReadFrames(over, 8*time.Second)
			close(gate)
			if !closed {
				more, _, cl := c.ReadFrames(k-len(frames), 8*time.Second)
				frames = append(frames, more...)
				closed = cl
			}
		} else {
			close(gate)
			frames, _, closed = c.ReadFrames(k, 10*time.Second)
		}
		if err := <-werr; err != nil {
			t.Fatalf("write: %v", err)
		}
		// anything more?
		extra, rest, _ := c.ReadFrames(1, 30*time.Millisecond)
		desc := fmt.Sprintf("listener=%s max_concurrent=%d k=%d cuts=%v pause=%v", listener, mc, k, cuts[:min(len(cuts), 30)], pause)
		if len(extra) > 0 || len(rest) > 0 {
			t.Fatalf("more data than %d frames on the return stream (%d extra frames, %d stray octets); %s", k, len(extra), len(rest), desc)
		}
		if len(frames) != k {
			t.Fatalf("%d response frames for %d pipelined queries (closed=%v); %s\n%s", len(frames), k, closed, desc, tail(env.proxies[mc].Stderr(), 800))
		}
		byID := map[uint16]qinfo{}
		for _, q := range qs {
			byID[q.id] = q
		}
		seen := map[uint16]int{}
		refused := 0
		for i, f := range frames {
			if !f.Msg.Clean() {
				t.Fatalf("frame %d does not decode (%v): interleaved or mis-framed output; %s", i, f.Msg.Err, desc)
			}
			q, ok := byID[f.Msg.ID]
			if !ok {
				t.Fatalf("frame %d carries ID %d that was never sent; %s", i, f.Msg.ID, desc)
			}
			seen[f.Msg.ID]++
			if len(f.Msg.Q) != 1 || !f.Msg.Q[0].Name.Equal(q.name) {
				t.Fatalf("response with ID %d carries the question of another query; %s", f.Msg.ID, desc)
			}
			switch f.Msg.Rcode() {
			case 0:
				rd, _, _, ok := ParseKeyed(f.Msg)
				if !ok || !bytes.Equal(rd, KeyedRData(q.name, 1, 1, "c13")) {
					t.Fatalf("response with ID %d does not carry the answer of its own query; %s", f.Msg.ID, desc)
				}
			case 5:
				refused++
			default:
				t.Fatalf("unexpected rcode %d; %s\n%s", f.Msg.Rcode(), desc, tail(env.proxies[mc].Stderr(), 1500))
			}
		}
		for _, q := range qs {
			if seen[q.id] != 1 {
				t.Fatalf("query ID %d was answered %d times; %s", q.id, seen[q.id], desc)
			}
		}
		if over > 0 && refused != over {
			t.Fatalf("%d REFUSED responses, expected exactly %d (k=%d, limit=%d, upstream gated); %s", refused, over, k, limit, desc)
		}
		if over <= 0 && refused != 0 {
			t.Fatalf("%d queries refused below the concurrency limit; %s", refused, desc)
		}
		if cr := env.proxies[mc].Crashed(); cr != "" {
			t.Fatalf("proxy crashed: %s", cr)
		}
		classes := []string{"listener=" + listener}
		if over > 0 {
			classes = append(classes, "limit-exceeded")
		}
		if inside {
			classes = append(classes, "segmented")
		}
		if nAbort > 0 {
			classes = append(classes, "after-aborted-connections")
		}
		if ceiling > 0 {
			classes = append(classes, "response-at-the-65535-ceiling")
		}
		if edgeSized > 0 {
			classes = append(classes, "query-length-next-to-a-power-of-two")
		}
		if largest > 0 {
			classes = append(classes, "query-of-65533-65535-octets")
		}
		if bigResponses >= 2 {
			classes = append(classes, "concurrent-big-responses")
		}
		st.Case(vfkit.Fingerprint(stream, fmt.Sprint(cuts), listener, mc), (inside && k >= 2) || over > 0, classes, func() any {
			return map[string]any{"listener": listener, "k": k, "max_concurrent": mc, "cuts": cuts[:min(len(cuts), 20)], "stream_len": len(stream), "refused": refused}
		})
	})
}

// TestVfC13SlowSegments: the same framing oracle when the segments of one busy connection arrive spread over more than
// the listener's idle time-out. Every gap between two segments is far below the time-out (<= 700 ms against 2 s), and each
// segment completes a frame, so a correct listener re-arms its idle timer with every query it decodes and serves all of
// them - whatever the cuts are. A listener that ties the timer to socket reads or to empty buffers loses the tail.
func TestVfC13SlowSegments(t *testing.T) {
	st := vfkit.Stats("TestVfC13SlowSegments", "k in 4..7 queries on one tcp / gnet / tls connection (all three listeners driven together per case), idle_timeout 2 s, one segment every 300-700 ms for 0.9-4.2 s in total; every segment ends at a drawn offset relative to the next frame start (aligned, inside its 2-octet prefix, right after it, inside its body); oracle: k response frames, IDs and questions of the k queries, each exactly once; non-trivial = at least one segment ends inside a following frame and the connection outlives idle_timeout")
	defer vfkit.Flush()
	block := NextIPBlock()
	pip := block + "10"
	cfg := &Config{Servers: StdServers(pip, []string{"tcp", "gnet", "tls"}, ""), Rules: []Rule{{Reject: 3}}}
	for j := range cfg.Servers {
		cfg.Servers[j].IdleTimeout = 2
	}
	p, err := StartProxy(cfg.YAML(), nil, ProxyOpts{})
	if err != nil {
		t.Fatal(err)
	}
	defer p.Cleanup()
	caseNo := 0
	rapid.Check(t, func(t *rapid.T) {
		caseNo++
		type plan struct {
			listener string
			k        int
			offs     []int // offs[i]: how many octets of frame i+1 ride along with the end of frame i
			gaps     []time.Duration
			pad      []int
		}
		var plans []plan
		skewed := false
		for _, l := range []string{"tcp", "gnet", "tls"} {
			pl := plan{listener: l, k: rapid.IntRange(4, 7).Draw(t, "k")}
			for i := 0; i < pl.k; i++ {
				pl.pad = append(pl.pad, rapid.SampledFrom([]int{0, 0, 40, 700}).Draw(t, "pad"))
				off := rapid.SampledFrom([]int{0, 1, 1, 2, 3, 9, 20}).Draw(t, "skew")
				pl.offs = append(pl.offs, off)
				if off > 0 && i < pl.k-1 {
					skewed = true
				}
				pl.gaps = append(pl.gaps, time.Duration(rapid.IntRange(300, 700).Draw(t, "gapMs"))*time.Millisecond)
			}
			plans = append(plans, pl)
		}
		errs := make(chan string, len(plans))
		for pi, pl := range plans {
			go func(pi int, pl plan) {
				var tcfg *tls.Config
				if pl.listener == "tls" {
					tcfg = &tls.Config{InsecureSkipVerify: true}
				}
				c, err := DialStream("", fmt.Sprintf("%s:%d", pip, ListenerPorts[pl.listener]), tcfg, 3*time.Second)
				if err != nil {
					errs <- fmt.Sprintf("dial %s: %v", pl.listener, err)
					return
				}
				defer c.Close()
				var frames [][]byte
				ids := map[uint16]vfkit.Name{}
				for i := 0; i < pl.k; i++ {
					name := vfkit.Name{[]byte(fmt.Sprintf("s%dp%dq%d", caseNo, pi, i)), []byte("c13"), []byte("test")}
					m := &vfkit.Msg{ID: uint16(caseNo*64 + pi*16 + i), Bits: vfkit.BitRD, Q: []vfkit.Question{{Name: name, Type: 1, Class: 1}}}
					if pl.pad[i] > 0 {
						m.Ar = append(m.Ar, vfkit.RR{Type: 65280, Class: 1, RData: []vfkit.RDPart{{Raw: bytes.Repeat([]byte{7}, pl.pad[i])}}})
					}
					ids[m.ID] = name
					frames = append(frames, frame(EncodeMsg(m)))
				}
				carried := 0 // octets of the current frame already sent with the previous segment
				start := time.Now()
				var got []*Resp
				for i := 0; i < pl.k; i++ {
					seg := append([]byte(nil), frames[i][carried:]...)
					carried = 0
					if i+1 < pl.k {
						carried = min(pl.offs[i], len(frames[i+1])-1)
						seg = append(seg, frames[i+1][:carried]...)
					}
					if _, err := c.C.Write(seg); err != nil {
						errs <- fmt.Sprintf("%s: write of segment %d failed %v after the connection was opened: %v (plan %+v)", pl.listener, i, time.Since(start).Round(time.Millisecond), err, pl)
						return
					}
					segStart := time.Now()
					fr, _, closed := c.ReadFrames(1, pl.gaps[i])
					got = append(got, fr...)
					if rem := pl.gaps[i] - time.Since(segStart); rem > 0 && !closed && i+1 < pl.k {
						time.Sleep(rem)
					}
					if closed {
						errs <- fmt.Sprintf("%s: the listener closed a busy connection %v after it was opened, with %d of %d queries answered (idle_timeout 2 s, largest gap %v); plan %+v", pl.listener, time.Since(start).Round(time.Millisecond), len(got), pl.k, 700*time.Millisecond, pl)
						return
					}
				}
				if len(got) < pl.k {
					more, _, _ := c.ReadFrames(pl.k-len(got), 2*time.Second)
					got = append(got, more...)
				}
				if len(got) != pl.k {
					errs <- fmt.Sprintf("%s: %d response frames for %d queries sent over %v; plan %+v", pl.listener, len(got), pl.k, time.Since(start).Round(time.Millisecond), pl)
					return
				}
				seen := map[uint16]bool{}
				for _, f := range got {
					n, ok := ids[f.Msg.ID]
					if !f.Msg.Clean() || !ok || seen[f.Msg.ID] || len(f.Msg.Q) != 1 || !f.Msg.Q[0].Name.Equal(n) || f.Msg.Rcode() != 3 {
						errs <- fmt.Sprintf("%s: response %s does not belong to exactly one of the queries; plan %+v", pl.listener, f.Msg.Msg.String(), pl)
						return
					}
					seen[f.Msg.ID] = true
				}
				errs <- ""
			}(pi, pl)
		}
		for range plans {
			if e := <-errs; e != "" {
				t.Fatalf("%s\n%s", e, tail(p.Stderr(), 800))
			}
		}
		if cr := p.Crashed(); cr != "" {
			t.Fatalf("proxy crashed: %s", cr)
		}
		st.Case(vfkit.Fingerprint(fmt.Sprint(plans)), skewed, nil, func() any {
			return map[string]any{"plans": fmt.Sprint(plans)}
		})
	})
}

// TestVfC13CounterAfterRefusals: the in-flight counter of a connection counts queries in flight and nothing else. A
// connection whose queries were refused - by the concurrency limit or by the rate limiter - is served again as soon as
// nothing is in flight and the client is back within its budget; REFUSED is for queries *beyond* the limit only.
func TestVfC13CounterAfterRefusals(t *testing.T) {
	st := vfkit.Stats("TestVfC13CounterAfterRefusals", "tcp / gnet / tls listeners with max_concurrent_queries in {2,5} and a client rate limiter (30/s, burst 30); per case one connection from a fresh /24: 20-70 pipelined queries (each answered NOERROR or REFUSED, exactly one frame per query), 1.3 s of quiet (bucket refilled, nothing in flight), then max_concurrent sequential queries; oracle: every one of the later queries is answered NOERROR; non-trivial = at least max_concurrent queries of the burst were refused")
	defer vfkit.Flush()
	block := NextIPBlock()
	up, err := StartUpstream("udp", "up", block+"2", 0, nil, func(q *UpQuery) UpAction {
		return UpAction{Reply: EncodeMsg(KeyedAnswer(q.Msg, "c13r", 0, 60, 0))}
	})
	if err != nil {
		t.Fatal(err)
	}
	defer up.Close()
	proxies := map[int]*Proxy{}
	ips := map[int]string{}
	for i, mc := range []int{2, 5} {
		pip := block + itoa(10+i)
		cfg := &Config{Servers: StdServers(pip, []string{"tcp", "gnet", "tls"}, ""), Upstreams: []UpstreamCfg{{Tag: "up", Addr: up.Addr()}}, Rules: []Rule{{Forward: "up"}},
			Limiter: &LimiterCfg{Client: &ClientLimiterCfg{Limit: 30, Burst: 30}}}
		for j := range cfg.Servers {
			cfg.Servers[j].Tcp = &TcpCfg{MaxConcurrentQueries: mc}
		}
		p, err := StartProxy(cfg.YAML(), nil, ProxyOpts{})
		if err != nil {
			t.Fatal(err)
		}
		defer p.Cleanup()
		proxies[mc], ips[mc] = p, pip
	}
	seq := 0
	rapid.Check(t, func(t *rapid.T) {
		seq++
		listener := rapid.SampledFrom([]string{"tcp", "gnet", "tls"}).Draw(t, "listener")
		mc := rapid.SampledFrom([]int{2, 5}).Draw(t, "maxConcurrent")
		k := rapid.IntRange(20, 70).Draw(t, "k")
		src := fmt.Sprintf("127.%d.%d.9", 60+(os.Getpid()+seq/250)%60, seq%250+1)
		var tcfg *tls.Config
		if listener == "tls" {
			tcfg = &tls.Config{InsecureSkipVerify: true}
		}
		c, err := DialStream(src, fmt.Sprintf("%s:%d", ips[mc], ListenerPorts[listener]), tcfg, 3*time.Second)
		if err != nil {
			t.Fatalf("dial %s: %v", listener, err)
		}
		defer c.Close()
		var stream []byte
		for i := 0; i < k; i++ {
			stream = append(stream, frame(Query(uint16(i), vfkit.Name{[]byte(fmt.Sprintf("r%dq%dp%d", seq, i, os.Getpid())), []byte("c13r"), []byte("test")}, 1, 1, false))...)
		}
		c.C.Write(stream)
		frames, rest, closed := c.ReadFrames(k, 5*time.Second)
		desc := fmt.Sprintf("listener=%s max_concurrent=%d burst of %d from %s", listener, mc, k, src)
		if len(frames) != k || len(rest) != 0 {
			t.Fatalf("%d response frames (+%d stray octets, closed=%v) for %d pipelined queries; %s", len(frames), len(rest), closed, k, desc)
		}
		refused := 0
		seen := map[uint16]bool{}
		for _, f := range frames {
			if !f.Msg.Clean() || seen[f.Msg.ID] || int(f.Msg.ID) >= k || (f.Msg.Rcode() != 0 && f.Msg.Rcode() != 5) {
				t.Fatalf("unexpected response %s; %s", f.Msg.Msg.String(), desc)
			}
			seen[f.Msg.ID] = true
			if f.Msg.Rcode() == 5 {
				refused++
			}
		}
		time.Sleep(1300 * time.Millisecond)
		for i := 0; i < mc; i++ {
			id := uint16(1000 + i)
			c.C.Write(frame(Query(id, vfkit.Name{[]byte(fmt.Sprintf("r%dlater%dp%d", seq, i, os.Getpid())), []byte("c13r"), []byte("test")}, 1, 1, false)))
			fr, _, cl := c.ReadFrames(1, 3*time.Second)
			if len(fr) != 1 || fr[0].Msg.ID != id || fr[0].Msg.Rcode() != 0 {
				rc := -1
				if len(fr) == 1 {
					rc = fr[0].Msg.Rcode()
				}
				t.Fatalf("query %d sent alone on the connection, 1.3 s after a burst of which %d were refused, got rcode %d (frames %d, closed %v): nothing is in flight and the client is within its budget, so it is not beyond any limit; %s", i, refused, rc, len(fr), cl, desc)
			}
		}
		if cr := proxies[mc].Crashed(); cr != "" {
			t.Fatalf("proxy crashed: %s", cr)
		}
		st.Case(vfkit.Fingerprint(listener, mc, k, seq), refused >= mc, []string{"listener=" + listener}, func() any {
			return map[string]any{"listener": listener, "max_concurrent": mc, "k": k, "refused_in_burst": refused}
		})
	})
}

// TestVfC13LongLived: a connection is served the same way however old it is. Nothing that was armed when it was accepted
// (a handshake time limit, a first-read time limit) may still apply to the queries and responses that follow: clients keep
// stream connections for as long as the idle time-out allows, and an upstream may take seconds to answer.
func TestVfC13LongLived(t *testing.T) {
	st := vfkit.Stats("TestVfC13LongLived", "3-8 connections per case over the tcp / gnet / tls listeners (idle_timeout default 10 s), each following a drawn script of 2-4 rounds: 1-3 pipelined queries, all responses read, then a pause of 0.2 / 1.5 / 3.3 / 4.6 s (always below the idle time-out); some queries are answered by the upstream only after 3.4 s; oracle: every query of every round gets exactly one well-framed response with its ID, question and the upstream's answer, and the listener does not close the connection; non-trivial = a response is written more than 3 s after the connection was opened")
	defer vfkit.Flush()
	block := NextIPBlock()
	var slow sync.Map
	up, err := StartUpstream("udp", "up", block+"2", 0, nil, func(q *UpQuery) UpAction {
		if q.Msg.Err != nil || len(q.Msg.Q) != 1 {
			return UpAction{}
		}
		a := UpAction{Reply: EncodeMsg(KeyedAnswer(q.Msg, "c13l", 0, 60, 0))}
		if _, ok := slow.Load(strings.ToLower(string(q.Msg.Q[0].Name[0]))); ok {
			a.Delay = 3400 * time.Millisecond
		}
		return a
	})
	if err != nil {
		t.Fatal(err)
	}
	defer up.Close()
	pip := block + "10"
	cfg := &Config{Servers: StdServers(pip, []string{"tcp", "gnet", "tls"}, ""), Upstreams: []UpstreamCfg{{Tag: "up", Addr: up.Addr()}}, Rules: []Rule{{Forward: "up"}}}
	p, err := StartProxy(cfg.YAML(), nil, ProxyOpts{})
	if err != nil {
		t.Fatal(err)
	}
	defer p.Cleanup()
	caseNo := 0
	rapid.Check(t, func(t *rapid.T) {
		caseNo++
		type round struct {
			k     int
			slow  []bool
			pause time.Duration
		}
		type plan struct {
			listener string
			rounds   []round
		}
		nConn := rapid.IntRange(3, 8).Draw(t, "connections")
		plans := make([]plan, nConn)
		for i := range plans {
			pl := plan{listener: rapid.SampledFrom([]string{"tcp", "gnet", "tls", "tls"}).Draw(t, "listener")}
			total := time.Duration(0)
			for r, nr := 0, rapid.IntRange(2, 4).Draw(t, "rounds"); r < nr; r++ {
				rd := round{k: rapid.IntRange(1, 3).Draw(t, "k")}
				for q := 0; q < rd.k; q++ {
					rd.slow = append(rd.slow, rapid.IntRange(0, 5).Draw(t, "slowUpstream") == 0)
				}
				rd.pause = time.Duration(rapid.SampledFrom([]int{200, 1500, 3300, 4600}).Draw(t, "pauseMs")) * time.Millisecond
				if total+rd.pause > 9*time.Second {
					rd.pause = 200 * time.Millisecond
				}
				total += rd.pause
				pl.rounds = append(pl.rounds, rd)
			}
			plans[i] = pl
		}
		errs := make(chan string, nConn)
		var lateWrites atomic.Int32
		for pi, pl := range plans {
			go func(pi int, pl plan) {
				var tcfg *tls.Config
				if pl.listener == "tls" {
					tcfg = &tls.Config{InsecureSkipVerify: true}
				}
				c, err := DialStream("", fmt.Sprintf("%s:%d", pip, ListenerPorts[pl.listener]), tcfg, 3*time.Second)
				if err != nil {
					errs <- fmt.Sprintf("dial %s: %v", pl.listener, err)
					return
				}
				defer c.Close()
				opened := time.Now()
				for ri, rd := range pl.rounds {
					ids := map[uint16]vfkit.Name{}
					var stream []byte
					anySlow := false
					for q := 0; q < rd.k; q++ {
						label := fmt.Sprintf("l%dc%dr%dq%dx%d", caseNo, pi, ri, q, os.Getpid())
						if rd.slow[q] {
							slow.Store(label, true)
							defer slow.Delete(label)
							anySlow = true
						}
						name := vfkit.Name{[]byte(label), []byte("c13l"), []byte("test")}
						id := uint16(caseNo*512 + pi*64 + ri*8 + q)
						ids[id] = name
						stream = append(stream, frame(Query(id, name, 1, 1, false))...)
					}
					age := time.Since(opened)
					if _, err := c.C.Write(stream); err != nil {
						errs <- fmt.Sprintf("%s: write of round %d failed on a connection opened %v ago: %v", pl.listener, ri, age.Round(time.Millisecond), err)
						return
					}
					wait := 3 * time.Second
					if anySlow {
						wait = 8 * time.Second
					}
					frames, rest, closed := c.ReadFrames(rd.k, wait)
					if time.Since(opened) > 3100*time.Millisecond {
						lateWrites.Add(1)
					}
					if len(frames) != rd.k || len(rest) > 0 {
						errs <- fmt.Sprintf("%s: round %d on a connection opened %v ago (idle_timeout 10 s, longest pause 4.6 s): %d response frames for %d queries, %d stray octets, connection closed by the listener: %v; plan %+v", pl.listener, ri, age.Round(time.Millisecond), len(frames), rd.k, len(rest), closed, pl)
						return
					}
					seen := map[uint16]bool{}
					for _, f := range frames {
						n, ok := ids[f.Msg.ID]
						_, tag, _, kok := ParseKeyed(f.Msg)
						if !f.Msg.Clean() || !ok || seen[f.Msg.ID] || len(f.Msg.Q) != 1 || !f.Msg.Q[0].Name.EqualFold(n) || f.Msg.Rcode() != 0 || !kok || tag != "c13l" {
							errs <- fmt.Sprintf("%s: round %d: response %s does not belong to exactly one of the queries of the round; plan %+v", pl.listener, ri, f.Msg.Msg.String(), pl)
							return
						}
						seen[f.Msg.ID] = true
					}
					if ri+1 < len(pl.rounds) {
						time.Sleep(rd.pause)
					}
				}
				errs <- ""
			}(pi, pl)
		}
		bad := ""
		for range plans {
			if e := <-errs; e != "" && bad == "" {
				bad = e
			}
		}
		if bad != "" {
			t.Fatalf("%s\n%s", bad, tail(p.Stderr(), 800))
		}
		if cr := p.Crashed(); cr != "" {
			t.Fatalf("proxy crashed: %s", cr)
		}
		st.Case(vfkit.Fingerprint(fmt.Sprint(plans)), lateWrites.Load() > 0, []string{fmt.Sprintf("late-rounds>0=%v", lateWrites.Load() > 0)}, func() any {
			return map[string]any{"plans": fmt.Sprint(plans)}
		})
	})
}
