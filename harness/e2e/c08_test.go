package vfe2e

// C08 (black box, timed) - cached answers age correctly and expire on time.
// Several hundred independent names per run, each with a generated script of upstream replies (TTL
// vectors, rcodes, TC) and of client query instants over a 9 s window. Harness clocks on both sides.

import (
	"fmt"
	"os"
	"sync"
	"sync/atomic"
	"testing"
	"time"

	"pgregory.net/rapid"
	"vfkit"
)

type c08Reply struct {
	rcode uint16
	tc    bool
	ttls  []uint32 // answer TTLs (may be empty = record-less)
	nsTTL int64    // -1 = no authority record
}

type c08Name struct {
	label    string
	replies  []c08Reply // k-th upstream fetch gets replies[k % len]
	instants []time.Duration
	fetches  atomic.Int32
	twin     bool // a second client asks at the first instant as well: two misses at once, two fetches, two stores
}

type c08Fetch struct {
	name   *c08Name
	reply  c08Reply
	sentAt time.Time
}

func c08Lifetime(r c08Reply, max time.Duration) time.Duration {
	has := false
	min := uint32(0)
	for _, t := range r.ttls {
		if !has || t < min {
			min, has = t, true
		}
	}
	if r.nsTTL >= 0 && (!has || uint32(r.nsTTL) < min) {
		min, has = uint32(r.nsTTL), true
	}
	var b time.Duration
	capTo := func(d time.Duration) {
		b = d
		if has && time.Duration(min)*time.Second < b {
			b = time.Duration(min) * time.Second
		}
	}
	switch {
	case r.rcode == 0 && has:
		b = time.Duration(min) * time.Second
	case r.rcode == 0 || r.rcode == 3:
		capTo(30 * time.Second)
	case r.rcode == 2:
		capTo(time.Second)
	default:
		capTo(5 * time.Second)
	}
	if b > max {
		b = max
	}
	if b < time.Second {
		b = time.Second
	}
	return b
}

func TestVfC08Timed(t *testing.T) {
	st := vfkit.Stats("TestVfC08Timed", "runs of 60-250 independent names, each with a generated script (per fetch: rcode in {0,0,0,NXDOMAIN,SERVFAIL,REFUSED}, TC on/off, answer TTL vector over {0,1,2,3,5,8}, optional authority TTL) and 3-8 client query instants in a 9 s window, against proxies with maximum_ttl unset and 2; clocks: t_u (upstream sent the reply), t_ref = min(first client receipt, t_u + 1 s), t_q (client sent the repeat); oracles without tolerance constants: served TTL <= max(1, T - floor(t_q - t_ref)); not served from a fetch once t_q >= t_ref + lifetime + 2 s; a truncated reply is never served to a query sent after it arrived; non-trivial = a hit with >= 1 whole second elapsed, or a query after expiry, or a TC / negative fetch")
	defer vfkit.Flush()
	block := NextIPBlock()
	var names sync.Map   // label -> *c08Name
	var fetches sync.Map // serial(uint32) -> *c08Fetch
	up, err := StartUpstream("tcp", "up", block+"2", 0, nil, func(q *UpQuery) UpAction {
		if q.Msg.Err != nil || len(q.Msg.Q) != 1 {
			return UpAction{}
		}
		v, ok := names.Load(string(q.Msg.Q[0].Name[0]))
		if !ok {
			return UpAction{}
		}
		n := v.(*c08Name)
		k := int(n.fetches.Add(1)) - 1
		r := n.replies[k%len(n.replies)]
		m := KeyedAnswer(q.Msg, "c08", uint32(q.Seq), 0, r.rcode)
		txt := m.An[1]
		m.An = nil
		for i, ttl := range r.ttls {
			m.An = append(m.An, vfkit.RR{Owner: q.Msg.Q[0].Name, Type: 1, Class: 1, TTL: ttl, RData: []vfkit.RDPart{{Raw: []byte{10, 0, byte(i), 1}}}})
		}
		if r.nsTTL >= 0 {
			m.Ns = []vfkit.RR{{Owner: q.Msg.Q[0].Name[1:], Type: 2, Class: 1, TTL: uint32(r.nsTTL), RData: []vfkit.RDPart{{IsName: true, Name: vfkit.Name{[]byte("ns"), []byte("vf")}}}}}
		}
		// the serial travels in the additional section inside an OPT-free TXT record with a huge TTL, so it never decides the lifetime
		txt.TTL = 1 << 30
		m.Ar = []vfkit.RR{txt}
		if r.tc {
			m.Bits |= vfkit.BitTC
		}
		fetches.Store(uint32(q.Seq), &c08Fetch{name: n, reply: r, sentAt: time.Now()})
		if n.twin && k == 1 {
			// the second of two simultaneous fetches is answered a little later, so that its answer is stored over the first's
			return UpAction{Reply: EncodeMsg(m), Delay: 25 * time.Millisecond}
		}
		return UpAction{Reply: EncodeMsg(m)}
	})
	if err != nil {
		t.Fatal(err)
	}
	defer up.Close()
	type px struct {
		p   *Proxy
		ip  string
		max time.Duration
	}
	var proxies []*px
	for i, mx := range []int{0, 2} {
		pip := block + itoa(10+i)
		cfg := &Config{Servers: StdServers(pip, []string{"udp", "tcp"}, ""), Upstreams: []UpstreamCfg{{Tag: "up", Addr: up.Addr()}}, Rules: []Rule{{Forward: "up"}},
			Cache: &CacheCfg{MemSize: 64 << 20, MaximumTTL: mx}}
		p, err := StartProxy(cfg.YAML(), nil, ProxyOpts{})
		if err != nil {
			t.Fatal(err)
		}
		defer p.Cleanup()
		d := 6 * time.Hour
		if mx > 0 {
			d = time.Duration(mx) * time.Second
		}
		proxies = append(proxies, &px{p, pip, d})
	}
	runNo := 0
	rapid.Check(t, func(t *rapid.T) {
		runNo++
		P := proxies[rapid.IntRange(0, 1).Draw(t, "proxy")]
		nNames := rapid.IntRange(60, 250).Draw(t, "nNames")
		all := make([]*c08Name, nNames)
		for i := range all {
			n := &c08Name{label: fmt.Sprintf("r%dn%dp%d", runNo, i, os.Getpid())}
			for k := rapid.IntRange(1, 3).Draw(t, "nReplies"); k > 0; k-- {
				r := c08Reply{rcode: rapid.SampledFrom([]uint16{0, 0, 0, 0, 3, 2, 5}).Draw(t, "rcode"), tc: rapid.IntRange(0, 7).Draw(t, "tc") == 0, nsTTL: -1}
				for j := rapid.IntRange(0, 3).Draw(t, "nAns"); j > 0; j-- {
					r.ttls = append(r.ttls, rapid.SampledFrom([]uint32{0, 1, 2, 3, 5, 8, 8}).Draw(t, "ttl"))
				}
				if rapid.IntRange(0, 3).Draw(t, "hasNs") == 0 {
					r.nsTTL = int64(rapid.SampledFrom([]uint32{1, 2, 4, 30}).Draw(t, "nsTTL"))
				}
				if r.rcode != 0 {
					r.ttls = nil
				}
				n.replies = append(n.replies, r)
			}
			for k := rapid.IntRange(3, 8).Draw(t, "nQueries"); k > 0; k-- {
				n.instants = append(n.instants, time.Duration(rapid.IntRange(0, 9000).Draw(t, "atMs"))*time.Millisecond)
			}
			if rapid.IntRange(0, 5).Draw(t, "twin") == 0 {
				n.twin = true
				if rapid.Bool().Draw(t, "twinLongThenShort") {
					// the answer stored second lives much shorter than the one it replaces
					n.replies = []c08Reply{{ttls: []uint32{rapid.SampledFrom([]uint32{5, 8}).Draw(t, "ttlFirst")}, nsTTL: -1}, {ttls: []uint32{rapid.SampledFrom([]uint32{0, 1, 2}).Draw(t, "ttlSecond")}, nsTTL: -1}}
				}
			}
			all[i] = n
			names.Store(n.label, n)
		}
		defer func() {
			for _, n := range all {
				names.Delete(n.label)
			}
		}()
		type obs struct {
			n      *c08Name
			tq, tr time.Time
			r      *Resp
			serial uint32
			ok     bool
		}
		var mu sync.Mutex
		var observations []obs
		start := time.Now().Add(50 * time.Millisecond)
		var wg sync.WaitGroup
		for _, n := range all {
			wg.Add(1)
			go func(n *c08Name) {
				defer wg.Done()
				a := NewAsker(P.ip, "")
				defer a.Close()
				ins := append([]time.Duration(nil), n.instants...)
				for i := range ins {
					for j := i + 1; j < len(ins); j++ {
						if ins[j] < ins[i] {
							ins[i], ins[j] = ins[j], ins[i]
						}
					}
				}
				if n.twin {
					wg.Add(1)
					go func() {
						defer wg.Done()
						a := NewAsker(P.ip, "")
						defer a.Close()
						time.Sleep(time.Until(start.Add(ins[0])))
						tq := time.Now()
						res := a.Ask("tcp", Query(999, vfkit.Name{[]byte(n.label), []byte("aging"), []byte("test")}, 1, 1, false), 8*time.Second, 0)
						o := obs{n: n, tq: tq, tr: time.Now()}
						if res.Err == nil && len(res.Resps) == 1 {
							o.r = res.Resps[0]
							for _, rr := range o.r.Msg.Ar {
								if rr.Type == 16 {
									d := &vfkit.Decoded{}
									d.An = []vfkit.RR{{Type: 1}, rr}
									if _, _, s, ok := ParseKeyed(d); ok {
										o.serial, o.ok = s, true
									}
								}
							}
						}
						mu.Lock()
						observations = append(observations, o)
						mu.Unlock()
					}()
				}
				for qi, at := range ins {
					time.Sleep(time.Until(start.Add(at)))
					name := vfkit.Name{[]byte(n.label), []byte("aging"), []byte("test")}
					tq := time.Now()
					res := a.Ask("tcp", Query(uint16(qi+1), name, 1, 1, false), 8*time.Second, 0)
					tr := time.Now()
					o := obs{n: n, tq: tq, tr: tr}
					if res.Err == nil && len(res.Resps) == 1 {
						o.r = res.Resps[0]
						for _, rr := range o.r.Msg.Ar {
							if rr.Type == 16 {
								d := &vfkit.Decoded{}
								d.An = []vfkit.RR{{Type: 1}, rr}
								if _, _, s, ok := ParseKeyed(d); ok {
									o.serial, o.ok = s, true
								}
							}
						}
					}
					mu.Lock()
					observations = append(observations, o)
					mu.Unlock()
				}
			}(n)
		}
		wg.Wait()
		if cr := P.p.Crashed(); cr != "" || P.p.Exited() {
			t.Fatalf("proxy died: %s", cr)
		}
		// t_ref per serial
		tref := map[uint32]time.Time{}
		for _, o := range observations {
			if !o.ok {
				continue
			}
			f, found := fetches.Load(o.serial)
			if !found {
				t.Fatalf("response carries serial %d that no fetch produced", o.serial)
			}
			cand := f.(*c08Fetch).sentAt.Add(time.Second)
			if o.tr.Before(cand) {
				cand = o.tr
			}
			if cur, ok := tref[o.serial]; !ok || cand.Before(cur) {
				tref[o.serial] = cand
			}
		}
		aged, expired, negative := 0, 0, 0
		for _, o := range observations {
			if o.r == nil {
				t.Fatalf("name %s: no response to a query sent at +%v", o.n.label, o.tq.Sub(start))
			}
			if !o.ok {
				if o.r.Msg.Rcode() == 2 && len(o.r.Msg.Ar) == 0 {
					continue // SERVFAIL produced by the proxy itself
				}
				t.Fatalf("name %s: response without serial: %s", o.n.label, o.r.Msg.Msg.String())
			}
			fv, _ := fetches.Load(o.serial)
			f := fv.(*c08Fetch)
			if f.name != o.n {
				t.Fatalf("name %s was answered with the fetch of name %s", o.n.label, f.name.label)
			}
			elapsed := o.tq.Sub(tref[o.serial])
			whole := int64(0)
			if elapsed > 0 {
				whole = int64(elapsed / time.Second)
			}
			desc := fmt.Sprintf("name %s serial %d reply %+v: query sent %.3fs after t_ref (upstream sent the reply at +%.3fs), max_ttl %v", o.n.label, o.serial, f.reply, elapsed.Seconds(), f.sentAt.Sub(start).Seconds(), P.max)
			if f.reply.tc && o.tq.After(f.sentAt) {
				t.Fatalf("a truncated upstream reply was served from cache; %s", desc)
			}
			life := c08Lifetime(f.reply, P.max)
			if elapsed >= life+2*time.Second {
				t.Fatalf("served from a fetch whose lifetime (%v) ended more than 2 s ago; %s", life, desc)
			}
			if elapsed > life {
				expired++
			}
			// TTL bounds, record by record
			check := func(got []vfkit.RR, want []uint32, sec string) {
				if len(got) != len(want) {
					t.Fatalf("%s section has %d records, upstream sent %d; %s", sec, len(got), len(want), desc)
				}
				for i := range got {
					bound := int64(1)
					if int64(want[i])-whole > 1 {
						bound = int64(want[i]) - whole
					}
					if int64(got[i].TTL) > bound {
						t.Fatalf("%s record %d: upstream TTL %d served as %d after %d whole seconds (bound %d); %s", sec, i, want[i], got[i].TTL, whole, bound, desc)
					}
				}
			}
			check(o.r.Msg.An, f.reply.ttls, "answer")
			if f.reply.nsTTL >= 0 {
				check(o.r.Msg.Ns, []uint32{uint32(f.reply.nsTTL)}, "authority")
			}
			if whole >= 1 {
				aged++
			}
			if f.reply.rcode != 0 || f.reply.tc {
				negative++
			}
		}
		st.Class("observations", len(observations))
		st.Class("hits-aged>=1s", aged)
		st.Class("queries-after-lifetime", expired)
		st.Class("tc-or-negative-fetch", negative)
		st.Case(vfkit.Fingerprint(runNo, os.Getpid(), nNames), aged > 0 || expired > 0 || negative > 0, []string{fmt.Sprintf("max_ttl=%v", P.max)}, func() any {
			return map[string]any{"names": nNames, "observations": len(observations), "aged_hits": aged, "after_lifetime": expired, "sample_script": fmt.Sprintf("%+v at %v", all[0].replies, all[0].instants)}
		})
	})
}
