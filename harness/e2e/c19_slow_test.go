package vfe2e

import (
	"fmt"
	"os"
	"strings"
	"sync"
	"testing"
	"time"

	"pgregory.net/rapid"
	"vfkit"
)

// TestVfC19SlowRefresh: a refresh may take almost as long as an upstream exchange may (6 s). While it runs, hits keep
// coming, and none of them starts another refresh of the same question: the upstream never has two queries for one
// name open at the same time. Entries live 40 s, so the last quarter is long enough for a refresh of 5-5.9 s.
func TestVfC19SlowRefresh(t *testing.T) {
	st := vfkit.Stats("TestVfC19SlowRefresh", "memory cache, upstream TTL 40 s; per case 6-16 names primed together, hit from 30.1-31.5 s on every 40-150 ms for 7 s; the upstream holds every refresh for 5.0-5.9 s (drawn per name; the first hit of a name falls in the last tenth of a wall-clock second for half of them); oracle: every hit is answered within 1 s from the cached entry, and at no time are two upstream queries for one name open; non-trivial = a refresh was held for more than 5 s while at least 10 further hits arrived")
	defer vfkit.Flush()
	block := NextIPBlock()
	type nameState struct {
		mu       sync.Mutex
		open     int
		maxOpen  int
		started  int
		hold     time.Duration
		primedAt time.Time
	}
	var names sync.Map
	up, err := StartUpstream("udp", "up", block+"2", 0, nil, func(q *UpQuery) UpAction {
		if q.Msg.Err != nil || len(q.Msg.Q) != 1 {
			return UpAction{}
		}
		v, ok := names.Load(strings.ToLower(string(q.Msg.Q[0].Name[0])))
		a := UpAction{Reply: EncodeMsg(KeyedAnswer(q.Msg, "c19w", uint32(q.Seq), 40, 0))}
		if !ok {
			return a
		}
		n := v.(*nameState)
		n.mu.Lock()
		n.started++
		first := n.started == 1
		if !first {
			n.open++
			if n.open > n.maxOpen {
				n.maxOpen = n.open
			}
		}
		hold := n.hold
		n.mu.Unlock()
		if first {
			return a
		}
		go func() {
			time.Sleep(hold)
			n.mu.Lock()
			n.open--
			n.mu.Unlock()
		}()
		a.Delay = hold
		return a
	})
	if err != nil {
		t.Fatal(err)
	}
	defer up.Close()
	pip := block + "10"
	cfg := &Config{Servers: StdServers(pip, []string{"udp"}, ""), Upstreams: []UpstreamCfg{{Tag: "up", Addr: up.Addr()}}, Rules: []Rule{{Forward: "up"}}, Cache: &CacheCfg{MemSize: 16 << 20}}
	p, err := StartProxy(cfg.YAML(), nil, ProxyOpts{})
	if err != nil {
		t.Fatal(err)
	}
	defer p.Cleanup()
	caseNo := 0
	rapid.Check(t, func(t *rapid.T) {
		caseNo++
		n := rapid.IntRange(6, 16).Draw(t, "names")
		type plan struct {
			label    string
			st       *nameState
			firstHit time.Duration
			every    time.Duration
			lateInS  bool
		}
		plans := make([]plan, n)
		for i := range plans {
			pl := plan{label: fmt.Sprintf("r%dn%dp%d", caseNo, i, os.Getpid()), st: &nameState{hold: time.Duration(rapid.IntRange(5000, 5900).Draw(t, "holdMs")) * time.Millisecond}}
			pl.firstHit = time.Duration(rapid.IntRange(30100, 31500).Draw(t, "firstHitMs")) * time.Millisecond
			pl.every = time.Duration(rapid.IntRange(40, 150).Draw(t, "everyMs")) * time.Millisecond
			pl.lateInS = rapid.Bool().Draw(t, "firstHitLateInItsSecond")
			names.Store(pl.label, pl.st)
			plans[i] = pl
		}
		defer func() {
			for _, pl := range plans {
				names.Delete(pl.label)
			}
		}()
		var firstErr sync.Map
		fail := func(format string, args ...any) { firstErr.LoadOrStore("e", fmt.Sprintf(format, args...)) }
		var wg sync.WaitGroup
		for _, pl := range plans {
			wg.Add(1)
			go func(pl plan) {
				defer wg.Done()
				name := vfkit.Name{[]byte(pl.label), []byte("slowrefresh"), []byte("test")}
				a := NewAsker(pip, "")
				defer a.Close()
				r := a.AskPatient("udp", Query(1, name, 1, 1, false), 3*time.Second)
				if len(r.Resps) != 1 {
					fail("%s: priming failed", pl.label)
					return
				}
				primed := time.Now()
				_, _, old, _ := ParseKeyed(r.Resps[0].Msg)
				time.Sleep(time.Until(primed.Add(pl.firstHit)))
				if pl.lateInS {
					// start in the last tenth of a wall-clock second
					now := time.Now()
					if frac := now.Nanosecond(); frac < 900_000_000 {
						time.Sleep(time.Duration(920_000_000-frac) * time.Nanosecond)
					}
				}
				end := time.Now().Add(7 * time.Second)
				hits := 0
				for id := uint16(2); time.Now().Before(end); id += 2 {
					sent := time.Now()
					r := a.Ask("udp", Query(id, name, 1, 1, false), time.Second, 0)
					if len(r.Resps) == 1 {
						hits++
						_, _, s, _ := ParseKeyed(r.Resps[0].Msg)
						pl.st.mu.Lock()
						refreshDone := pl.st.started >= 2 && pl.st.open == 0
						pl.st.mu.Unlock()
						if s != old && !refreshDone {
							fail("%s: a hit %.2fs after priming carries serial %d although no refresh has been answered yet (primed entry %d)", pl.label, sent.Sub(primed).Seconds(), s, old)
							return
						}
					} else if time.Since(primed) < 39*time.Second {
						// a lost datagram on loopback is rare; a hit that waits for the refresh shows like this
						pl.st.mu.Lock()
						open := pl.st.open
						pl.st.mu.Unlock()
						if open > 0 {
							fail("%s: a hit %.2fs after priming was not answered within 1 s while the refresh was held at the upstream (the entry lives 40 s)", pl.label, sent.Sub(primed).Seconds())
							return
						}
					}
					time.Sleep(pl.every)
				}
				pl.st.mu.Lock()
				maxOpen, started := pl.st.maxOpen, pl.st.started
				pl.st.mu.Unlock()
				if maxOpen > 1 {
					fail("%s: %d refreshes of this one question were open at the upstream at the same time (%d upstream queries in all, the first refresh held for %v, %d hits every %v from %.1fs after priming an entry of 40 s)", pl.label, maxOpen, started, pl.st.hold, hits, pl.every, pl.firstHit.Seconds())
				}
			}(pl)
		}
		wg.Wait()
		if e, ok := firstErr.Load("e"); ok {
			t.Fatalf("%v", e)
		}
		if cr := p.Crashed(); cr != "" || p.Exited() {
			t.Fatalf("proxy died: %s", cr)
		}
		st.Case(vfkit.Fingerprint(caseNo, os.Getpid(), n), true, nil, func() any {
			return map[string]any{"names": n, "hold": plans[0].st.hold.String()}
		})
	})
}
