package router

// C09 (router level, white box) - the 65535-octet ceiling of the stream transports: packRespTCP frames whatever the
// router hands it, and a 2-octet prefix cannot describe more than 65535 octets. Messages are generated so that their
// uncompressed length lands on and around 65536.

import (
	"bytes"
	"encoding/binary"
	"fmt"
	"testing"

	"github.com/IrineSistiana/mosproxy/internal/dnsmsg"
	"github.com/IrineSistiana/mosproxy/internal/pool"
	"pgregory.net/rapid"
	"vfkit"
)

func TestVfC09StreamCeiling(t *testing.T) {
	st := vfkit.Stats("TestVfC09StreamCeiling", "responses of 8-40 opaque records (owner = root, the question name or a fresh name; with or without OPT) whose total uncompressed length is steered to 65480..65600 octets, i.e. on and around the 65535/65536 boundary, framed by packRespTCP with and without compression; oracle: body <= 65535 octets, prefix = body length, body decodes cleanly with the question (and the OPT) kept, TC set iff records are missing, kept records are a prefix of the original ones; non-trivial = uncompressed length >= 65530")
	defer vfkit.Flush()
	rapid.Check(t, func(t *rapid.T) {
		qn := vfkit.Name{[]byte(fmt.Sprintf("q%d", rapid.IntRange(0, 9999).Draw(t, "n"))), []byte("ceiling"), []byte("test")}
		M := &vfkit.Msg{ID: 7, Bits: vfkit.BitQR | vfkit.BitRD | vfkit.BitRA, Q: []vfkit.Question{{Name: qn, Type: 16, Class: 1}}}
		target := rapid.IntRange(65480, 65600).Draw(t, "targetLen")
		withOPT := rapid.Bool().Draw(t, "opt")
		total := 12 + qn.WireLen() + 4
		if withOPT {
			total += 11
		}
		k := rapid.IntRange(8, 40).Draw(t, "records")
		var recs []vfkit.RR
		for i := 0; i < k; i++ {
			var owner vfkit.Name
			switch rapid.IntRange(0, 2).Draw(t, "owner") {
			case 1:
				owner = qn
			case 2:
				owner = vfkit.Name{[]byte(fmt.Sprintf("fresh%d", i)), []byte("x")}
			}
			fixed := owner.WireLen() + 10
			left := target - total - fixed
			if left < 0 {
				break
			}
			rd := left
			if i < k-1 {
				rd = min(left, rapid.IntRange(0, 2*target/k).Draw(t, "rdlen"))
			}
			if rd > 65535 {
				rd = 65535
			}
			recs = append(recs, vfkit.RR{Owner: owner, Type: 65280, Class: 1, TTL: 60, RData: []vfkit.RDPart{{Raw: bytes.Repeat([]byte{byte(i)}, rd)}}})
			total += fixed + rd
		}
		M.An = recs
		if withOPT {
			M.Ar = append(M.Ar, vfkit.RR{Type: 41, Class: 1232, RData: []vfkit.RDPart{{Raw: []byte{}}}})
		}
		w, _ := vfkit.Encode(M, vfkit.EncOpts{})
		resp, err := dnsmsg.UnpackMsg(w)
		if err != nil {
			vfkit.Inconclusive("generated response rejected: %v", err)
		}
		defer dnsmsg.ReleaseMsg(resp)
		compression := rapid.Bool().Draw(t, "compression")
		b, err := packRespTCP(resp, compression)
		if err != nil {
			t.Fatalf("packRespTCP failed for a message of %d octets uncompressed: %v", len(w), err)
		}
		defer pool.ReleaseBuf(b)
		if len(b) < 2 {
			t.Fatalf("frame of %d octets", len(b))
		}
		body := b[2:]
		prefix := int(binary.BigEndian.Uint16(b))
		desc := fmt.Sprintf("message of %d octets uncompressed (%d records, opt=%v, compression=%v)", len(w), len(recs), withOPT, compression)
		if len(body) > 65535 {
			t.Fatalf("stream body of %d octets, over the 65535 ceiling (prefix says %d); %s", len(body), prefix, desc)
		}
		if prefix != len(body) {
			t.Fatalf("length prefix %d but %d octets follow; %s", prefix, len(body), desc)
		}
		d := vfkit.Decode(body)
		if !d.Clean() {
			t.Fatalf("framed body does not decode cleanly: %v; %s", d.Err, desc)
		}
		if len(d.Q) != 1 || !d.Q[0].Name.Equal(qn) {
			t.Fatalf("question not kept; %s", desc)
		}
		if withOPT && d.Opt() == nil {
			t.Fatalf("OPT not kept; %s", desc)
		}
		if len(d.An) > len(recs) {
			t.Fatalf("more records than the original; %s", desc)
		}
		for i := range d.An {
			if !bytes.Equal(d.An[i].RDataWire(), recs[i].RDataWire()) || !d.An[i].Owner.Equal(recs[i].Owner) {
				t.Fatalf("kept record %d differs from the original record %d; %s", i, i, desc)
			}
		}
		missing := len(recs) - len(d.An)
		if (missing > 0) != d.Has(vfkit.BitTC) {
			t.Fatalf("%d of %d records missing but TC=%v; %s", missing, len(recs), d.Has(vfkit.BitTC), desc)
		}
		st.Case(vfkit.Fingerprint(len(w), len(recs), withOPT, compression), len(w) >= 65530, []string{fmt.Sprintf("truncated=%v", missing > 0)}, func() any {
			return map[string]any{"uncompressed": len(w), "records": len(recs), "opt": withOPT, "compression": compression, "body": len(body), "missing": missing}
		})
	})
}
