package router

// C15 (router level, white box) - the client limiter next to the shared global limiter. A subnet's own budget is spent by
// what the subnet was ADMITTED, and only the global limit is shared: queries that were refused (by either limiter) must
// not cost the subnet anything, and other subnets' traffic can hurt a subnet only through the global limit.
// Real time (the router's limiter reads the clock itself), decisions near a threshold are left undecided.

import (
	"fmt"
	"math"
	"net/netip"
	"testing"
	"time"

	"pgregory.net/rapid"
	"vfkit"
)

func TestVfC15Global(t *testing.T) {
	st := vfkit.Stats("TestVfC15Global", "resourceLimiter with global limit in {10,30,100}/s and client limit in {2,10}/s, burst in {3,10}; 20-120 timed requests (real time, gaps 0-300 ms, at most about 2 s per case) from 1-4 subnets with costs 1-3, often enough to exhaust the global limit - i.i.d. sequences, and phased ones (a flood exhausts the global limit, a bystander subnet speaks only during the exhaustion, quiet, the bystander again); reference: per-subnet bucket charged with ADMITTED cost only, global bucket bracketed between 'charged with admitted cost' and 'charged with every request'; oracles: a request is not refused while its subnet's reference bucket and even the pessimistic global bucket hold the cost plus a margin, and is not admitted while its subnet's reference bucket lacks the cost by more than the margin; non-trivial = the global limit was exhausted at some point and a subnet asked again later")
	defer vfkit.Flush()
	rapid.Check(t, func(t *rapid.T) {
		G := rapid.SampledFrom([]int{10, 30, 100}).Draw(t, "global")
		L := rapid.SampledFrom([]int{2, 10}).Draw(t, "clientLimit")
		B := rapid.SampledFrom([]int{3, 10}).Draw(t, "clientBurst")
		l := initResourceLimiter(LimiterConfig{GlobalLimit: G, Client: ClientLimiterConfig{Limit: L, Burst: B}})
		defer l.Close()
		nSub := rapid.IntRange(1, 4).Draw(t, "subnets")
		n := rapid.IntRange(20, 120).Draw(t, "events")
		type ev struct {
			sub, cost int
			gap       time.Duration
		}
		evs := make([]ev, n)
		budget := 2 * time.Second
		// subnets may join late: a subnet that first speaks while the others have exhausted the global limit is the
		// interesting bystander (its own bucket is untouched whatever it is refused)
		joinAt := make([]int, nSub)
		for s := 1; s < nSub; s++ {
			joinAt[s] = rapid.SampledFrom([]int{0, n / 4, n / 2, 3 * n / 4}).Draw(t, "joinAt")
		}
		phased := nSub >= 2 && rapid.Bool().Draw(t, "phased")
		if phased {
			// a flood that exhausts the global limit, a bystander that speaks only during the exhaustion, quiet, the bystander again
			evs = evs[:0]
			// the flood comes from many subnets, each within its own budget (one limiter cannot be exhausted through the
			// other by a single subnet: its own bucket stops it first, or should)
			floodSub := nSub
			for i := rapid.IntRange(G/2, 2*G).Draw(t, "floodEvents"); i > 0; i-- {
				evs = append(evs, ev{sub: floodSub, cost: rapid.IntRange(1, 3).Draw(t, "cost")})
				if rapid.IntRange(0, 2).Draw(t, "nextFloodSubnet") > 0 {
					floodSub++
				}
			}
			for i := rapid.IntRange(1, 3*B).Draw(t, "bystanderDuringExhaustion"); i > 0; i-- {
				evs = append(evs, ev{sub: 1, cost: rapid.IntRange(1, 3).Draw(t, "cost")})
				if rapid.Bool().Draw(t, "floodGoesOn") {
					floodSub++
					evs = append(evs, ev{sub: floodSub, cost: 1})
				}
			}
			nSub = floodSub + 1
			quiet := time.Duration(rapid.IntRange(100, 700).Draw(t, "quietMs")) * time.Millisecond
			for i := rapid.IntRange(1, 6).Draw(t, "bystanderLater"); i > 0; i-- {
				evs = append(evs, ev{sub: 1, cost: rapid.IntRange(1, 2).Draw(t, "cost"), gap: quiet})
				quiet = time.Duration(rapid.SampledFrom([]int{0, 1, 20}).Draw(t, "gapMs")) * time.Millisecond
			}
			n = len(evs)
		}
		for i := range evs {
			if phased {
				break
			}
			g := time.Duration(rapid.SampledFrom([]int{0, 0, 0, 0, 1, 5, 50, 300}).Draw(t, "gapMs")) * time.Millisecond
			if g > budget {
				g = 0
			}
			budget -= g
			sub := rapid.IntRange(0, nSub-1).Draw(t, "sub")
			if joinAt[sub] > i {
				sub = 0
			}
			evs[i] = ev{sub: sub, cost: rapid.IntRange(1, 3).Draw(t, "cost"), gap: g}
		}
		margin := 1.0 + float64(max(G, L))*0.01
		type bucket struct {
			tokens float64
			last   time.Duration
		}
		refill := func(b *bucket, now time.Duration, rate, burst float64) float64 {
			return math.Min(burst, b.tokens+rate*(now-b.last).Seconds())
		}
		gAdmitted := &bucket{tokens: float64(G)} // charged with admitted cost only (upper bracket)
		gAll := &bucket{tokens: float64(G)}      // charged with every request (lower bracket)
		subs := make([]*bucket, nSub)
		for i := range subs {
			subs[i] = &bucket{tokens: float64(B)}
		}
		start := time.Now()
		exhausted, askedAfter := false, false
		var trace []string
		for i, e := range evs {
			if e.gap > 0 {
				time.Sleep(e.gap)
			}
			before := time.Since(start)
			err := l.AllowN(netip.AddrFrom4([4]byte{10, byte(7 + e.sub>>8), byte(e.sub), 9}), e.cost)
			after := time.Since(start)
			ok := err == nil
			c := float64(e.cost)
			sb := subs[e.sub]
			subLo, subHi := refill(sb, before, float64(L), float64(B)), refill(sb, after, float64(L), float64(B))
			gLo := refill(gAll, before, float64(G), float64(G))
			trace = append(trace, fmt.Sprintf("#%d t=%.3fs sub%d cost%d -> %v (ref: sub %.2f, global>=%.2f)", i, before.Seconds(), e.sub, e.cost, ok, subLo, gLo))
			if len(trace) > 14 {
				trace = trace[1:]
			}
			if exhausted {
				askedAfter = true
			}
			if gLo < c {
				exhausted = true
			}
			if !ok && subLo >= c+margin && gLo >= c+margin {
				t.Fatalf("request #%d of subnet %d (cost %d) was refused (%v) although the subnet has been admitted so little that its bucket holds %.2f of %d tokens and even a global bucket charged with every request so far holds %.2f (limit %d/s, client %d/s burst %d); last events:\n%s",
					i, e.sub, e.cost, err, subLo, B, gLo, G, L, B, fmt.Sprint(trace))
			}
			if ok && subHi < c-margin {
				t.Fatalf("request #%d of subnet %d (cost %d) was admitted although the subnet's bucket holds only %.2f tokens (client %d/s burst %d); last events:\n%s", i, e.sub, e.cost, subHi, L, B, fmt.Sprint(trace))
			}
			mid := (before + after) / 2
			// advance the reference buckets
			gAll.tokens, gAll.last = math.Max(0, refill(gAll, mid, float64(G), float64(G))-c), mid
			if ok {
				sb.tokens, sb.last = math.Max(0, refill(sb, mid, float64(L), float64(B))-c), mid
				gAdmitted.tokens, gAdmitted.last = math.Max(0, refill(gAdmitted, mid, float64(G), float64(G))-c), mid
			}
		}
		st.Case(vfkit.Fingerprint(G, L, B, fmt.Sprint(evs)), exhausted && askedAfter, []string{fmt.Sprintf("global-exhausted=%v", exhausted)}, func() any {
			return map[string]any{"global": G, "client": L, "burst": B, "events": n, "subnets": nSub}
		})
	})
}
