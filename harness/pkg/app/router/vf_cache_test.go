package router

// White-box halves of C07 (cache key, client-group marker file), C08 (lifetime policy, TTL ageing)
// and C12 (ECS option encoder). Each has a black-box sibling in the e2e engine.

import (
	"bytes"
	"context"
	"encoding/binary"
	"fmt"
	"net/netip"
	"strings"
	"sync/atomic"
	"testing"
	"time"

	"github.com/IrineSistiana/mosproxy/internal/cache"
	"github.com/IrineSistiana/mosproxy/internal/dnsmsg"
	"github.com/IrineSistiana/mosproxy/internal/mlog"
	"github.com/IrineSistiana/mosproxy/internal/pool"
	"pgregory.net/rapid"
	"vfkit"
)

// ---------------------------------------------------------------------------------------
// C07: marker file

func TestVfC07IpMarker(t *testing.T) {
	st := vfkit.Stats("TestVfC07IpMarker", "marker files (non-overlapping v4/v6 ranges with labels, comments, blank lines, padding, shuffled) x client addresses (v4, v6, v4-mapped, range edges); oracle: linear scan; non-trivial = >= 2 ranges with >= 2 distinct labels")
	defer vfkit.Flush()
	rapid.Check(t, func(t *rapid.T) {
		type rng struct {
			s, e  netip.Addr
			label string
		}
		n := rapid.IntRange(0, 6).Draw(t, "nRanges")
		var rs []rng
		// disjoint by construction: range i lives in its own /16 (v4) or /32 (v6)
		for i := 0; i < n; i++ {
			lo := rapid.IntRange(0, 200).Draw(t, "lo")
			hi := rapid.IntRange(lo, 255).Draw(t, "hi")
			label := rapid.SampledFrom([]string{"cn", "us", "office", "a,b", "x y", "cn"}).Draw(t, "label")
			if rapid.Bool().Draw(t, "v6") {
				s := netip.MustParseAddr(fmt.Sprintf("2001:db8:%x::%x", i, lo))
				e := netip.MustParseAddr(fmt.Sprintf("2001:db8:%x::%x", i, hi))
				rs = append(rs, rng{s, e, label})
			} else {
				s := netip.AddrFrom4([4]byte{10, byte(i), 0, byte(lo)})
				e := netip.AddrFrom4([4]byte{10, byte(i), 0, byte(hi)})
				rs = append(rs, rng{s, e, label})
			}
		}
		order := rapid.Permutation(rs).Draw(t, "order")
		var sb strings.Builder
		for _, r := range order {
			switch rapid.IntRange(0, 3).Draw(t, "deco") {
			case 1:
				sb.WriteString("# comment line\n\n")
			case 2:
				sb.WriteString("   \t\n")
			}
			s := r.s.String()
			if r.s.Is4() && rapid.Bool().Draw(t, "mapped") {
				s = "::ffff:" + s
			}
			line := fmt.Sprintf("%s,%s,%s", s, r.e, r.label)
			switch rapid.IntRange(0, 2).Draw(t, "lineDeco") {
			case 1:
				line = "  " + line + "  "
			case 2:
				line = line + " # trailing comment"
			}
			sb.WriteString(line + "\n")
		}
		m, err := loadIpMarkerFromReader(strings.NewReader(sb.String()))
		if err != nil {
			t.Fatalf("marker file rejected: %v\n%s", err, sb.String())
		}
		labels := map[string]bool{}
		for _, r := range rs {
			labels[r.label] = true
		}
		probe := func(a netip.Addr) {
			want := ""
			for _, r := range rs {
				x := a.Unmap()
				if x.BitLen() == r.s.BitLen() && r.s.Compare(x) <= 0 && x.Compare(r.e) <= 0 {
					want = r.label
				}
			}
			if got := m.Mark(a); got != want {
				t.Fatalf("Mark(%v) = %q, linear scan says %q\n%s", a, got, want, sb.String())
			}
		}
		for _, r := range rs {
			probe(r.s)
			probe(r.e)
			probe(r.e.Next())
			if p := r.s.Prev(); p.IsValid() {
				probe(p)
			}
			if r.s.Is4() {
				probe(netip.AddrFrom16(r.s.As16()))
			}
		}
		probe(netip.MustParseAddr("192.0.2.1"))
		probe(netip.MustParseAddr("::1"))
		if m.Mark(netip.Addr{}) != "" {
			t.Fatalf("invalid address has a mark")
		}
		st.Case(vfkit.Fingerprint(sb.String()), len(rs) >= 2 && len(labels) >= 2, nil, func() any { return sb.String() })
	})
}

// ---------------------------------------------------------------------------------------
// C07: cache key

// vfDirtyPool leaves junk in pool buffers of the size the next GetBuf(n) will return, so that
// bytes nobody wrote differ from call to call.
func vfDirtyPool(n int, junk byte) {
	bufs := make([]pool.Buffer, 0, 4)
	for i := 0; i < 4; i++ {
		b := pool.GetBuf(n)
		for j := range b[:cap(b)] {
			b[:cap(b)][j] = junk + byte(i)
		}
		bufs = append(bufs, b)
	}
	for _, b := range bufs {
		pool.ReleaseBuf(b)
	}
}

func vfQuestion(n vfkit.Name, typ, class uint16) *dnsmsg.Question {
	q := dnsmsg.NewQuestion()
	q.Name = dnsmsg.Name(pool.CopyBuf(n.WireNoRoot()))
	q.Type = dnsmsg.Type(typ)
	q.Class = dnsmsg.Class(class)
	return q
}

func TestVfC07CacheKey(t *testing.T) {
	st := vfkit.Stats("TestVfC07CacheKey", "pairs of (name, class, type, client-group mark) equal or differing in exactly one component, with pool buffers dirtied between calls; oracle: keys equal iff components equal; non-trivial = pair differs in exactly one component")
	defer vfkit.Flush()
	rapid.Check(t, func(t *rapid.T) {
		p := vfkit.GenLabelPool(t, 3)
		n1 := vfkit.GenNameFrom(t, p, 4).Lower()
		typ := rapid.SampledFrom([]uint16{1, 28, 15, 16, 255, 65280}).Draw(t, "type")
		class := vfkit.GenClass(t)
		mark := rapid.SampledFrom([]string{"", "cn", "us", "office"}).Draw(t, "mark")
		n2, typ2, class2, mark2 := n1, typ, class, mark
		diff := rapid.SampledFrom([]string{"none", "name", "name-bit5", "type", "class", "mark", "re-split", "re-split-front"}).Draw(t, "differIn")
		switch diff {
		case "re-split-front":
			// The same idea at the other end, for keys that put the mark in front of the name: two marks of which one
			// continues the other by one printable character, and that character's value is a length - of the whole name
			// (keys that write the name's length behind the mark) or of a first label (keys that do not).
			base := rapid.SampledFrom([]string{"", "g", "lan", "office"}).Draw(t, "markBase")
			tail := vfkit.Name{[]byte("example")}
			if rapid.Bool().Draw(t, "withNameLength") {
				l := rapid.IntRange(32, 62).Draw(t, "nameOctets") // wire length of the shorter name; l+1 is a printable octet
				n2 = vfkit.Name{bytes.Repeat([]byte{'b'}, l-1)}
				if l > 12 && rapid.Bool().Draw(t, "twoLabels") {
					n2 = append(vfkit.Name{bytes.Repeat([]byte{'b'}, l-1-8)}, tail...)
				}
				n1 = vfkit.Name{n2.WireNoRoot()}
				mark, mark2 = base, base+string(rune(l+1))
			} else {
				x := rapid.IntRange(33, 63).Draw(t, "firstLabelOctets") // a printable octet that is also a label length
				first := bytes.Repeat([]byte{'b'}, x-1)
				n2 = append(vfkit.Name{first}, tail...)
				n1 = append(vfkit.Name{append([]byte{byte(x - 1)}, first...)}, tail...)
				mark, mark2 = base, base+string(rune(x))
			}
			if mark2[len(mark2)-1] == '#' || mark2[len(mark2)-1] == ',' {
				n2, mark2, diff = n1, mark+"x", "mark"
			}
		case "re-split":
			// The same octets cut differently: the last label of the name, the class, the type and the mark of the first
			// query, read as class + type + (longer) mark of a second query for the shorter name. The four components are
			// of variable total length, so a key that merely concatenates them cannot tell the two apart. (Class and type
			// of the first query are two printable letters each, so that the second mark is something a marker file can
			// carry; class and type of the second are whatever the label's octets spell - any value is a legal class / type.)
			if len(n1) == 0 {
				n1 = vfkit.Name{[]byte("x")}
			}
			letters := rapid.SliceOfN(rapid.ByteRange('a', 'z'), 4, 4).Draw(t, "classTypeLetters")
			class, typ = uint16(letters[0])<<8|uint16(letters[1]), uint16(letters[2])<<8|uint16(letters[3])
			last := n1[len(n1)-1]
			rest := append(append([]byte{byte(len(last))}, last...), letters...)
			rest = append(rest, mark...)
			n2 = n1[:len(n1)-1]
			class2, typ2 = uint16(rest[0])<<8|uint16(rest[1]), uint16(rest[2])<<8|uint16(rest[3])
			mark2 = string(rest[4:])
			for _, c := range []byte(mark2) {
				if c < 0x21 || c > 0x7e || c == '#' || c == ',' {
					// the label had octets no marker-file label can carry: fall back to the plain "other mark" pair
					n2, class2, typ2, mark2, diff = n1, class, typ, mark+"x", "mark"
					break
				}
			}
		case "name":
			n2 = vfkit.GenNameFrom(t, p, 4).Lower()
			if n2.Equal(n1) {
				diff = "none"
			}
		case "name-bit5":
			// a non-letter octet with bit 0x20 flipped ('_' vs DEL, '[' vs '{', '1' vs 0x11): an over-eager case
			// folding would conflate the two names
			n1 = append(vfkit.Name{[]byte(rapid.SampledFrom([]string{"_dmarc", "a_b", "x[y]", "1^2", "k-9", "@\\`"}).Draw(t, "bit5Label"))}, n1...)
			for n1.WireLen() > 255 {
				n1 = n1[:len(n1)-1]
			}
			n2 = make(vfkit.Name, len(n1))
			copy(n2, n1)
			l := append([]byte(nil), n1[0]...)
			var cand []int
			for i, c := range l {
				if !('a' <= c|0x20 && c|0x20 <= 'z') {
					cand = append(cand, i)
				}
			}
			i := cand[rapid.IntRange(0, len(cand)-1).Draw(t, "flipAt")]
			l[i] ^= 0x20
			n2[0] = l
		case "type":
			typ2 = typ + uint16(rapid.IntRange(1, 300).Draw(t, "dType"))
		case "class":
			class2 = class + uint16(rapid.IntRange(1, 65535).Draw(t, "dClass"))
		case "mark":
			mark2 = mark + "x"
		}
		q1 := vfQuestion(n1, typ, class)
		q2 := vfQuestion(n2, typ2, class2)
		defer dnsmsg.ReleaseQuestion(q1)
		defer dnsmsg.ReleaseQuestion(q2)
		vfDirtyPool(len(q1.Name)+4+len(mark), rapid.Byte().Draw(t, "junk1"))
		k1 := cacheKey(q1, mark)
		k1c := append([]byte(nil), k1...)
		pool.ReleaseBuf(k1)
		vfDirtyPool(len(q2.Name)+4+len(mark2), rapid.Byte().Draw(t, "junk2"))
		k2 := cacheKey(q2, mark2)
		k2c := append([]byte(nil), k2...)
		pool.ReleaseBuf(k2)
		if diff == "none" {
			if !bytes.Equal(k1c, k2c) {
				t.Fatalf("the same (name, class, type, group) gives different cache keys %x vs %x: the key depends on stale buffer content", k1c, k2c)
			}
		} else if bytes.Equal(k1c, k2c) {
			t.Fatalf("queries differing in %s share the cache key %x (q1 %s type %d class %d mark %q; q2 %s type %d class %d mark %q)", diff, k1c, n1, typ, class, mark, n2, typ2, class2, mark2)
		}
		st.Case(vfkit.Fingerprint(k1c, k2c, diff), diff != "none", []string{"differ:" + diff}, func() any {
			return map[string]any{"differ_in": diff, "k1": fmt.Sprintf("%x", k1c), "k2": fmt.Sprintf("%x", k2c)}
		})
	})
}

// ---------------------------------------------------------------------------------------
// C08: lifetime policy and ageing

var vfCacheSeq atomic.Uint64

func vfNewCacheCtl(t testing.TB, maxTTL int) *cacheCtl {
	mc, err := cache.NewMemoryCache(8 << 20)
	if err != nil {
		t.Fatalf("memory cache: %v", err)
	}
	c := &cacheCtl{logger: mlog.Nop(), memory: mc}
	c.maximumTtl = time.Duration(maxTTL) * time.Second
	if c.maximumTtl <= 0 {
		c.maximumTtl = defaultMaxCacheTtl
	}
	return c
}

func vfUniqueName() vfkit.Name {
	return vfkit.Name{[]byte(fmt.Sprintf("n%d", vfCacheSeq.Add(1))), []byte("vf"), []byte("test")}
}

func vfGenResponse(t *rapid.T, qname vfkit.Name) *vfkit.Msg {
	m := &vfkit.Msg{ID: 0, Bits: vfkit.BitQR | vfkit.BitRD | vfkit.BitRA}
	rcode := rapid.SampledFrom([]uint16{0, 0, 0, 2, 3, 3, 5, 1, 4, 9}).Draw(t, "rcode")
	m.Bits |= rcode
	if rapid.IntRange(0, 7).Draw(t, "tc") == 0 {
		m.Bits |= vfkit.BitTC
	}
	m.Q = []vfkit.Question{{Name: qname, Type: 1, Class: 1}}
	ttls := []uint32{0, 1, 2, 4, 5, 6, 29, 30, 31, 3600, 86400, 1 << 31, 1<<32 - 1}
	names := vfkit.NameSet{qname, {[]byte("ns"), []byte("test")}}
	secs := [3]*[]vfkit.RR{&m.An, &m.Ns, &m.Ar}
	for s := 0; s < 3; s++ {
		for i := rapid.IntRange(0, 2).Draw(t, "nRR"); i > 0; i-- {
			r := vfkit.GenRR(t, names)
			r.TTL = rapid.SampledFrom(ttls).Draw(t, "ttl")
			*secs[s] = append(*secs[s], r)
		}
	}
	return m
}

func vfToRepoMsg(t *rapid.T, m *vfkit.Msg) *dnsmsg.Msg {
	w, _ := vfkit.Encode(m, vfkit.EncOpts{})
	r, err := dnsmsg.UnpackMsg(w)
	if err != nil {
		vfkit.Inconclusive("generated response rejected: %v", err)
	}
	return r
}

// vfPolicy is the lifetime bound of the property statement.
func vfPolicy(m *vfkit.Msg, max time.Duration) time.Duration {
	minTTL, has := uint32(0), false
	for _, s := range m.Sections() {
		for _, r := range s {
			if r.Type == 41 {
				continue
			}
			if !has || r.TTL < minTTL {
				minTTL, has = r.TTL, true
			}
		}
	}
	var bound time.Duration
	rc := m.Rcode()
	switch {
	case rc == 0 && has:
		bound = time.Duration(minTTL) * time.Second
	case rc == 0 || rc == 3:
		bound = 30 * time.Second
		if has && time.Duration(minTTL)*time.Second < bound {
			bound = time.Duration(minTTL) * time.Second
		}
	case rc == 2:
		bound = time.Second
		if has && time.Duration(minTTL)*time.Second < bound {
			bound = time.Duration(minTTL) * time.Second
		}
	default:
		bound = 5 * time.Second
		if has && time.Duration(minTTL)*time.Second < bound {
			bound = time.Duration(minTTL) * time.Second
		}
	}
	if bound > max {
		bound = max
	}
	if bound < time.Second {
		bound = time.Second // the cache clock's granularity: a record is served at least with TTL 1
	}
	return bound
}

func TestVfC08StorePolicy(t *testing.T) {
	st := vfkit.Stats("TestVfC08StorePolicy", "responses (rcodes, TC, TTL vectors over {0,1,..,30,31,3600,2^31,2^32-1}, empty sections, 0-3 OPT pseudo-records in any section with flag bits in the TTL field, one stripped as forward() does) x configured maximum {unset,1,10,86400}: Store then read (stored,expire) back through the memory backend; oracle: lifetime <= policy table of the statement, TC/nil not stored, an error response does not displace a live positive entry; non-trivial = negative, TC, TTL-capped or record-less response")
	defer vfkit.Flush()
	ctls := map[int]*cacheCtl{}
	for _, mx := range []int{0, 1, 10, 86400} {
		ctls[mx] = vfNewCacheCtl(t, mx)
	}
	defer func() {
		for _, c := range ctls {
			c.Close()
		}
	}()
	rapid.Check(t, func(t *rapid.T) {
		mx := rapid.SampledFrom([]int{0, 1, 10, 86400}).Draw(t, "maxTTL")
		c := ctls[mx]
		qn := vfUniqueName()
		M := vfGenResponse(t, qn)
		// OPT pseudo-records as an upstream may send them (one in the additional section, but also a second one or one in
		// another section): their TTL field holds flags, not a TTL, and has no say in the lifetime. As forward() does, one
		// OPT is stripped before the store.
		nOpt := rapid.SampledFrom([]int{0, 0, 1, 2, 2, 3}).Draw(t, "nOPT")
		for i := 0; i < nOpt; i++ {
			o := vfkit.RR{Owner: vfkit.Name{}, Type: 41, Class: rapid.SampledFrom([]uint16{512, 1232, 4096}).Draw(t, "optClass"), TTL: rapid.SampledFrom([]uint32{0, 0x8000, 31, 0x01008000, 1<<32 - 1}).Draw(t, "optTTLField")}
			switch rapid.IntRange(0, 3).Draw(t, "optSection") {
			case 0:
				M.An = append(M.An, o)
			case 1:
				M.Ns = append(M.Ns, o)
			case 2:
				M.Ar = append(M.Ar, o)
			default:
				M.Ar = append([]vfkit.RR{o}, M.Ar...)
			}
		}
		resp := vfToRepoMsg(t, M)
		defer dnsmsg.ReleaseMsg(resp)
		dnsmsg.RemoveEDNS0(resp)
		q := vfQuestion(qn, 1, 1)
		defer dnsmsg.ReleaseQuestion(q)
		client := netip.MustParseAddr("192.0.2.7")

		before := time.Now()
		c.Store(q, client, resp)
		after := time.Now()
		k := cacheKey(q, "")
		v, stored, expire := c.memory.Get(k)
		pool.ReleaseBuf(k)
		tc := M.Has(vfkit.BitTC)
		classes := []string{fmt.Sprintf("rcode=%d", M.Rcode()), fmt.Sprintf("OPTs=%d", nOpt)}
		if tc {
			classes = append(classes, "TC")
			if v != nil {
				t.Fatalf("a truncated response was cached")
			}
		} else {
			if v == nil {
				// The cache clock ticks once a second: an entry may leave up to 1 s before its nominal expiry, so an
				// entry whose policy lifetime is within 1 s (+ the time this case has taken) may rightly be gone.
				if vfPolicy(M, c.maximumTtl) <= time.Since(before)+1100*time.Millisecond {
					st.Case(vfkit.Fingerprint(M.String(), mx, "gone"), false, []string{"expired-before-readback"}, func() any { return nil })
					return
				}
				t.Fatalf("a cacheable response (rcode %d) was not found right after Store", M.Rcode())
			}
			pool.ReleaseBuf(v)
			if stored.Before(before.Add(-time.Millisecond)) || stored.After(after.Add(time.Millisecond)) {
				t.Fatalf("stored time %v outside the call window", stored)
			}
			life := expire.Sub(stored)
			bound := vfPolicy(M, c.maximumTtl)
			if life > bound {
				t.Fatalf("lifetime %v exceeds the policy bound %v (rcode %d, max %v, response %s)", life, bound, M.Rcode(), c.maximumTtl, M)
			}
			if life <= 0 {
				t.Fatalf("non-positive lifetime %v", life)
			}
		}
		// nil response
		c.Store(q, client, nil)

		// negative over positive
		if !tc && M.Rcode() == 0 {
			negRcode := rapid.SampledFrom([]uint16{1, 2, 3, 4, 5, 9, 15}).Draw(t, "negativeRcode")
			neg := &vfkit.Msg{Bits: vfkit.BitQR | negRcode, Q: M.Q}
			nr := vfToRepoMsg(t, neg)
			c.Store(q, client, nr)
			dnsmsg.ReleaseMsg(nr)
			k := cacheKey(q, "")
			v2, stored2, _ := c.memory.Get(k)
			pool.ReleaseBuf(k)
			if v2 == nil {
				if expire.Sub(stored) <= time.Since(before)+1100*time.Millisecond {
					st.Case(vfkit.Fingerprint(M.String(), mx, "gone2"), false, []string{"expired-before-readback"}, func() any { return nil })
					return
				}
				t.Fatalf("positive entry disappeared after storing an error response")
			}
			pool.ReleaseBuf(v2)
			if !stored2.Equal(stored) {
				t.Fatalf("an error response displaced a live positive entry")
			}
			classes = append(classes, "negative-over-positive")
		}
		nontrivial := tc || M.Rcode() != 0 || (len(M.An)+len(M.Ns)+len(M.Ar)-nOpt == 0) || vfPolicy(M, c.maximumTtl) == c.maximumTtl
		st.Case(vfkit.Fingerprint(M.String(), mx), nontrivial, classes, func() any {
			return map[string]any{"max": mx, "response": M.String()}
		})
	})
}

func TestVfC08Ageing(t *testing.T) {
	st := vfkit.Stats("TestVfC08Ageing", "entries inserted through the memory backend with storedTime = now - delta (0 .. 2^32-2 s, no sleeping) and generated TTL vectors incl. OPT; Get must return every non-OPT TTL <= max(1, T - floor(delta)) and >= 1, OPT untouched, everything else unchanged; non-trivial = delta >= 1")
	defer vfkit.Flush()
	c := vfNewCacheCtl(t, 0)
	defer c.Close()
	rapid.Check(t, func(t *rapid.T) {
		qn := vfUniqueName()
		M := vfGenResponse(t, qn)
		M.Bits &^= vfkit.BitTC
		if rapid.Bool().Draw(t, "withOPT") {
			M.Ar = append(M.Ar, vfkit.GenOPT(t, 2))
		}
		resp := vfToRepoMsg(t, M)
		v, err := packCacheMsg(resp)
		dnsmsg.ReleaseMsg(resp)
		if err != nil {
			t.Fatalf("packCacheMsg: %v", err)
		}
		var delta uint64
		switch rapid.IntRange(0, 4).Draw(t, "deltaKind") {
		case 0:
			delta = 0
		case 1:
			delta = uint64(rapid.IntRange(1, 40).Draw(t, "delta"))
		case 2:
			delta = uint64(rapid.SampledFrom([]uint32{3599, 3600, 3601, 1<<31 - 1, 1 << 31, 1<<32 - 2}).Draw(t, "delta"))
		default:
			delta = uint64(rapid.Uint32Range(0, 1<<32-2).Draw(t, "delta"))
		}
		q := vfQuestion(qn, 1, 1)
		defer dnsmsg.ReleaseQuestion(q)
		k := cacheKey(q, "")
		now := time.Now()
		frac := time.Duration(rapid.IntRange(0, 900).Draw(t, "fracMs")) * time.Millisecond
		stored := now.Add(-time.Duration(delta)*time.Second - frac)
		c.memory.Store(k, stored, now.Add(time.Hour), v, false)
		pool.ReleaseBuf(k)
		pool.ReleaseBuf(v)

		rc := getRequestContext()
		defer releaseRequestContext(rc)
		got, gotStored, _ := c.Get(context.Background(), q, rc)
		if got == nil {
			t.Fatalf("entry not found")
		}
		defer dnsmsg.ReleaseMsg(got)
		if !gotStored.Equal(stored) {
			t.Fatalf("stored time changed")
		}
		buf := make([]byte, got.Len())
		n, err := got.Pack(buf, false, 0)
		if err != nil {
			t.Fatalf("pack: %v", err)
		}
		d := vfkit.Decode(buf[:n])
		if !d.Clean() {
			t.Fatalf("cached message does not decode: %v", d.Err)
		}
		// compare with TTLs normalised
		elapsed := delta // whole seconds elapsed is at least delta (plus the fraction and the run time)
		gs, ws := d.Sections(), M.Sections()
		for s := range ws {
			if len(gs[s]) != len(ws[s]) {
				t.Fatalf("section %d has %d records, stored %d", s, len(gs[s]), len(ws[s]))
			}
			for i := range ws[s] {
				w, g := ws[s][i], gs[s][i]
				if w.Type == 41 {
					if g.TTL != w.TTL {
						t.Fatalf("OPT TTL field changed %d -> %d", w.TTL, g.TTL)
					}
				} else {
					bound := uint64(1)
					if uint64(w.TTL) > elapsed {
						bound = uint64(w.TTL) - elapsed
					}
					if uint64(g.TTL) > bound || g.TTL < 1 {
						t.Fatalf("record TTL %d served as %d after %d s: bound is max(1, %d-%d)=%d", w.TTL, g.TTL, elapsed, w.TTL, elapsed, bound)
					}
					// and not aged by more than the run time allows (2 s slack)
					if uint64(w.TTL) > elapsed+3 && uint64(g.TTL)+elapsed+3 < uint64(w.TTL) {
						t.Fatalf("record TTL %d served as %d after only %d s", w.TTL, g.TTL, elapsed)
					}
				}
				g.TTL = w.TTL
				if !bytes.Equal(g.Canon(), w.Canon()) {
					t.Fatalf("cached record changed: %s vs %s", g.String(), w.String())
				}
			}
		}
		if (d.Bits^M.Bits)&vfkit.HeaderMask != 0 {
			t.Fatalf("cached header changed %04x -> %04x", M.Bits, d.Bits)
		}
		st.Case(vfkit.Fingerprint(M.String(), delta), delta >= 1, []string{fmt.Sprintf("deltaKind=%d", min(int(delta), 2))}, func() any {
			return map[string]any{"delta_s": delta, "response": M.String()}
		})
	})
}

// ---------------------------------------------------------------------------------------
// C12: ECS option encoder against a reference encoder

func vfRefECS(a netip.Addr) []byte {
	a = a.Unmap()
	var fam uint16
	var plen int
	var raw []byte
	if a.Is4() {
		fam, plen = 1, 24
		x := a.As4()
		raw = x[:]
	} else {
		fam, plen = 2, 56
		x := a.As16()
		raw = x[:]
	}
	n := (plen + 7) / 8
	addr := append([]byte(nil), raw[:n]...)
	// host bits beyond the prefix are zero (24 and 56 are octet aligned)
	b := binary.BigEndian.AppendUint16(nil, 8)
	b = binary.BigEndian.AppendUint16(b, uint16(4+n))
	b = binary.BigEndian.AppendUint16(b, fam)
	b = append(b, byte(plen), 0)
	return append(b, addr...)
}

func TestVfC12EcsEncoder(t *testing.T) {
	st := vfkit.Stats("TestVfC12EcsEncoder", "client addresses (v4, v6, v4-mapped v6, zoned, all-ones, host bits set in every octet) -> ECS option bytes vs reference encoding (code 8, family, /24 or /56, scope 0, truncated address); non-trivial = address with non-zero bits beyond the prefix")
	defer vfkit.Flush()
	rapid.Check(t, func(t *rapid.T) {
		var a netip.Addr
		switch rapid.IntRange(0, 5).Draw(t, "kind") {
		case 0:
			a = netip.AddrFrom4([4]byte(rapid.SliceOfN(rapid.Byte(), 4, 4).Draw(t, "v4")))
		case 1:
			a = netip.AddrFrom16(netip.AddrFrom4([4]byte(rapid.SliceOfN(rapid.Byte(), 4, 4).Draw(t, "v4"))).As16())
		case 2:
			a = netip.AddrFrom16([16]byte(rapid.SliceOfN(rapid.Byte(), 16, 16).Draw(t, "v6")))
		case 3:
			a = netip.AddrFrom16([16]byte(rapid.SliceOfN(rapid.Byte(), 16, 16).Draw(t, "v6"))).WithZone("eth0")
		case 4:
			a = netip.AddrFrom16([16]byte(bytes.Repeat([]byte{0xff}, 16)))
		default:
			a = netip.AddrFrom4([4]byte{255, 255, 255, 255})
		}
		if a.Is4In6() && a.Zone() != "" {
			a = a.WithZone("")
		}
		got := makeEdns0ClientSubnetReqOpt(a)
		want := vfRefECS(a)
		if !bytes.Equal(got, want) {
			t.Fatalf("ECS option for %v is %x, reference %x", a, []byte(got), want)
		}
		pool.ReleaseBuf(got)
		u := a.Unmap()
		beyond := false
		if u.Is4() {
			beyond = u.As4()[3] != 0
		} else {
			x := u.As16()
			for _, c := range x[7:] {
				if c != 0 {
					beyond = true
				}
			}
		}
		st.Case(vfkit.Fingerprint(a.String()), beyond, nil, func() any { return map[string]any{"addr": a.String(), "option": fmt.Sprintf("%x", want)} })
	})
	if makeEdns0ClientSubnetReqOpt(netip.Addr{}) != nil {
		t.Fatalf("ECS option for an unknown address")
	}
}
