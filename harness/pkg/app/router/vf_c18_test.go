package router

// C18 (white box, in-process) - a failed start-up releases what had already been started, and closing a
// running router releases every listening socket. The black-box sibling (e2e) can only see the process exit,
// after which the OS has closed everything anyway; here run() is called directly so that the listeners of a
// failed start-up can be probed while the process lives on.

import (
	"context"
	"fmt"
	"net"
	"os"
	"sync/atomic"
	"testing"
	"time"

	"pgregory.net/rapid"
	"vfkit"
)

var vfC18Seq atomic.Uint32

func vfBindable(proto, addr string, within time.Duration) error {
	deadline := time.Now().Add(within)
	for {
		var err error
		if proto == "udp" {
			var c net.PacketConn
			c, err = net.ListenPacket("udp", addr)
			if err == nil {
				c.Close()
				return nil
			}
		} else {
			var l net.Listener
			l, err = net.Listen("tcp", addr)
			if err == nil {
				l.Close()
				return nil
			}
		}
		if time.Now().After(deadline) {
			return err
		}
		time.Sleep(10 * time.Millisecond)
	}
}

func TestVfC18RunReleases(t *testing.T) {
	st := vfkit.Stats("TestVfC18RunReleases", "in-process run() with 1-6 listeners of generated kinds and an optional metrics endpoint, where listener i cannot start (address held by the harness, bad certificate material of 4 kinds, unknown protocol), or an upstream / domain set / rule / the cache's ip-marker file is broken, or nothing fails; in one case of three with a second-level cache server of the harness's own; oracles: a failed start returns an error (no panic) within 3 s and every address of the listeners before i (and of listener i itself unless the harness holds it) and of the metrics endpoint can be bound again within 1 s; a successful start followed by close() (twice) releases every address within 1 s; in all three outcomes the connection to the second-level cache server is closed within 2 s; non-trivial = failing listener is not the first, or the close case")
	defer vfkit.Flush()
	kinds := []string{"udp", "tcp", "gnet", "tls", "http", "fasthttp", "https", "quic"}
	// a second-level cache server of the harness's own (kit/fakeredis.go): the client connection run() opens to it is
	// one more thing that a failed start-up and close() have to release
	store, err := vfkit.StartFakeRedis("127.0.0.1")
	if err != nil {
		t.Fatal(err)
	}
	defer store.Close()
	storeReleased := func(when string) {
		for until := time.Now().Add(2 * time.Second); store.OpenConns() > 0; time.Sleep(5 * time.Millisecond) {
			if time.Now().After(until) {
				t.Fatalf("%d connection(s) to the second-level cache server are still open 2 s after %s", store.OpenConns(), when)
			}
		}
	}
	rapid.Check(t, func(t *rapid.T) {
		seq := vfC18Seq.Add(1)
		ip := fmt.Sprintf("127.%d.%d.1", 200+(uint32(os.Getpid())+seq/250)%50, seq%250+1)
		n := rapid.IntRange(1, 6).Draw(t, "n")
		cfg := &Config{Upstreams: []UpstreamConfig{{Tag: "up", Addr: "udp://127.0.0.1:9"}}, Rules: []RuleConfig{{Forward: "up"}}}
		type la struct{ proto, addr, kind string }
		var addrs []la
		for i := 0; i < n; i++ {
			k := rapid.SampledFrom(kinds).Draw(t, "kind")
			sc := ServerConfig{Tag: fmt.Sprintf("s%d", i), Protocol: k, Listen: fmt.Sprintf("%s:%d", ip, 7000+i)}
			if k == "tls" || k == "https" || k == "quic" {
				sc.Tls.DebugUseTempCert = true
			}
			cfg.Servers = append(cfg.Servers, sc)
			proto := "tcp"
			if k == "udp" || k == "quic" {
				proto = "udp"
			}
			addrs = append(addrs, la{proto, sc.Listen, k})
		}
		failIdx := rapid.IntRange(-1, n-1).Draw(t, "failIdx")
		withStore := rapid.IntRange(0, 2).Draw(t, "secondLevelCache") == 0
		if withStore {
			cfg.Cache.Redis = store.URL()
		}
		// things run() opens before the listeners: the metrics endpoint (a listening socket of its own) ...
		if rapid.Bool().Draw(t, "metricsEndpoint") {
			cfg.Metrics.Addr = fmt.Sprintf("%s:%d", ip, 7100)
		}
		// ... and start-up can also fail in a later stage that opens nothing itself, with the metrics endpoint already up
		failStage := "listener"
		if failIdx < 0 {
			failStage = rapid.SampledFrom([]string{"none", "none", "upstream", "domainset", "rule", "ipmarker"}).Draw(t, "failStage")
			switch failStage {
			case "ipmarker":
				cfg.Cache.MemSize = 1 << 20
				cfg.Cache.IpMarker = "/nonexistent/vf-c18-ip-marker.txt"
			case "upstream":
				cfg.Upstreams = append(cfg.Upstreams, UpstreamConfig{Tag: "bad", Addr: "bogus://127.0.0.1:1"})
			case "domainset":
				cfg.DomainSets = append(cfg.DomainSets, DomainSetConfig{Tag: "ds", Files: []string{"/nonexistent/vf-c18-domain-set.txt"}})
			case "rule":
				cfg.Rules = append([]RuleConfig{{Forward: "no-such-upstream"}}, cfg.Rules...)
			}
		}
		// why listener failIdx cannot start: its address is held, or (nothing held) its certificate material is bad, or its
		// protocol is unknown - in the latter cases its own address must be free afterwards as well
		failWhy := "addr-in-use"
		if failIdx >= 0 {
			failWhy = rapid.SampledFrom([]string{"addr-in-use", "addr-in-use", "bad-cert", "unknown-protocol"}).Draw(t, "failWhy")
			sc := &cfg.Servers[failIdx]
			if failWhy == "bad-cert" && !(sc.Protocol == "tls" || sc.Protocol == "https" || sc.Protocol == "quic") {
				failWhy = "unknown-protocol"
			}
			switch failWhy {
			case "bad-cert":
				switch rapid.IntRange(0, 3).Draw(t, "badCert") {
				case 0: // nothing configured
					sc.Tls.DebugUseTempCert = false
				case 1: // files that do not exist
					sc.Tls.DebugUseTempCert = false
					sc.Tls.Cert, sc.Tls.Key = "/nonexistent/vf-c18-cert.pem", "/nonexistent/vf-c18-key.pem"
				case 2: // client verification without a CA
					sc.Tls.VerifyClientCert = true
				case 3: // unreadable CA
					sc.Tls.CA = "/nonexistent/vf-c18-ca.pem"
				}
			case "unknown-protocol":
				sc.Protocol = "vf-bogus"
			}
		}
		var held interface{ Close() error }
		if failIdx >= 0 && failWhy == "addr-in-use" {
			a := addrs[failIdx]
			var err error
			if a.proto == "udp" {
				held, err = net.ListenPacket("udp", a.addr)
			} else {
				held, err = net.Listen("tcp", a.addr)
			}
			if err != nil {
				t.Skip("cannot pre-bind " + a.addr)
			}
			defer held.Close()
		}
		// the context run() is given: never cancelled, or cancelled by its owner just before close() is called (close must
		// release everything in both cases - a cancelled parent context is not a closed router)
		ctxMode := rapid.SampledFrom([]string{"background", "background", "cancelled-before-close"}).Draw(t, "ctxMode")
		runCtx, cancelRun := context.WithCancel(context.Background())
		defer cancelRun()
		type result struct {
			r   *router
			err error
			p   any
		}
		done := make(chan result, 1)
		go func() {
			defer func() {
				if p := recover(); p != nil {
					done <- result{p: p}
				}
			}()
			r, err := run(runCtx, cfg)
			done <- result{r: r, err: err}
		}()
		var res result
		select {
		case res = <-done:
		case <-time.After(5 * time.Second):
			t.Fatalf("run() did not return within 5 s (listeners %v, failing index %d)", addrs, failIdx)
		}
		if res.p != nil {
			t.Fatalf("run() panicked instead of returning an error: %v (listeners %v, failing index %d)", res.p, addrs, failIdx)
		}
		if failIdx < 0 && failStage != "none" {
			if res.err == nil {
				res.r.close(nil)
				t.Fatalf("run() succeeded with a broken %s", failStage)
			}
			storeReleased("run() failed in stage " + failStage)
			if cfg.Metrics.Addr != "" {
				if err := vfBindable("tcp", cfg.Metrics.Addr, time.Second); err != nil {
					t.Fatalf("the metrics endpoint %s is still bound 1 s after run() failed in stage %s: %v", cfg.Metrics.Addr, failStage, err)
				}
			}
		} else if failIdx >= 0 {
			if res.err == nil {
				res.r.close(nil)
				t.Fatalf("run() succeeded although listener %d (%s) could not start: %s", failIdx, addrs[failIdx].addr, failWhy)
			}
			storeReleased(fmt.Sprintf("run() returned the error of listener %d", failIdx))
			if cfg.Metrics.Addr != "" {
				if err := vfBindable("tcp", cfg.Metrics.Addr, time.Second); err != nil {
					t.Fatalf("the metrics endpoint %s is still bound 1 s after run() returned the error of listener %d: %v", cfg.Metrics.Addr, failIdx, err)
				}
			}
			last := failIdx - 1
			if failWhy != "addr-in-use" {
				last = failIdx // nobody else holds the failing listener's address
			}
			for i := 0; i <= last; i++ {
				if err := vfBindable(addrs[i].proto, addrs[i].addr, time.Second); err != nil {
					t.Fatalf("the address of listener %d (%s %s) is still bound 1 s after run() returned the error of listener %d (%s): %v", i, addrs[i].kind, addrs[i].addr, failIdx, failWhy, err)
				}
			}
		} else {
			if res.err != nil {
				t.Fatalf("run() failed: %v", res.err)
			}
			if ctxMode == "cancelled-before-close" {
				cancelRun()
			}
			closed := make(chan any, 1)
			go func() {
				defer func() { closed <- recover() }()
				res.r.close(nil)
				res.r.close(nil)
			}()
			select {
			case p := <-closed:
				if p != nil {
					t.Fatalf("close() panicked: %v", p)
				}
			case <-time.After(5 * time.Second):
				t.Fatalf("close() did not return within 5 s (listeners %v)", addrs)
			}
			storeReleased("close()")
			for i := range addrs {
				if err := vfBindable(addrs[i].proto, addrs[i].addr, time.Second); err != nil {
					t.Fatalf("listener %d (%s %s) is still bound 1 s after close(): %v", i, addrs[i].kind, addrs[i].addr, err)
				}
			}
			if cfg.Metrics.Addr != "" {
				if err := vfBindable("tcp", cfg.Metrics.Addr, time.Second); err != nil {
					t.Fatalf("the metrics endpoint %s is still bound 1 s after close(): %v", cfg.Metrics.Addr, err)
				}
			}
		}
		st.Case(vfkit.Fingerprint(fmt.Sprint(addrs), failIdx, failStage, cfg.Metrics.Addr), failIdx != 0, []string{fmt.Sprintf("fail=%v", failIdx >= 0 || failStage != "none"), "stage=" + failStage, "why=" + failWhy, "ctx=" + ctxMode, fmt.Sprintf("metrics=%v", cfg.Metrics.Addr != ""), fmt.Sprintf("second-level-cache=%v", withStore)}, func() any {
			return map[string]any{"listeners": fmt.Sprint(addrs), "failing_index": failIdx, "failing_stage": failStage, "metrics": cfg.Metrics.Addr}
		})
	})
}
