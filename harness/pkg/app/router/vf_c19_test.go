package router

// C19 (white box) - the single-flight gate of prefetch under truly parallel hits.
// The black-box check (e2e) places bursts of hits inside the refresh window; this hammer aims at the
// atomicity of the gate itself, which needs many goroutines inside a sub-microsecond window.

import (
	"fmt"
	"runtime"
	"sync"
	"sync/atomic"
	"testing"

	"pgregory.net/rapid"
	"vfkit"
)

func TestVfC19ReserveHammer(t *testing.T) {
	st := vfkit.Stats("TestVfC19ReserveHammer", "rounds in which 8-32 goroutines, released together by a spin barrier, race to reserve the refresh slot of one (question, group) key, with 1-4 other keys contended at the same time; oracle: exactly one reservation per key per round succeeds, a further attempt fails until done(), and succeeds after it; non-trivial = every round (>= 8 parallel contenders)")
	defer vfkit.Flush()
	rapid.Check(t, func(t *rapid.T) {
		g := rapid.SampledFrom([]int{8, 16, 32}).Draw(t, "goroutines")
		rounds := rapid.SampledFrom([]int{300, 600}).Draw(t, "rounds")
		nKeys := rapid.IntRange(1, 4).Draw(t, "keys")
		base := rapid.Uint64().Draw(t, "keyBase")
		pc := newPrefetchCtl()
		old := runtime.GOMAXPROCS(0)
		defer runtime.GOMAXPROCS(old)
		for r := 0; r < rounds; r++ {
			wins := make([]atomic.Int32, nKeys)
			var start atomic.Bool
			var ready, wg sync.WaitGroup
			for i := 0; i < g; i++ {
				ready.Add(1)
				wg.Add(1)
				go func(i int) {
					defer wg.Done()
					k := i % nKeys
					ready.Done()
					for spins := 0; !start.Load(); spins++ {
						if spins > 2000 {
							runtime.Gosched()
						}
					}
					if pc.reserve(base + uint64(k) + uint64(r)*16) {
						wins[k].Add(1)
					}
				}(i)
			}
			ready.Wait()
			start.Store(true)
			wg.Wait()
			for k := 0; k < nKeys && k < g; k++ {
				key := base + uint64(k) + uint64(r)*16
				if w := wins[k].Load(); w != 1 {
					t.Fatalf("round %d: %d of the %d concurrent hits reserved the refresh of one (question, group) key - prefetch is not single-flight", r, w, (g+nKeys-1-k)/nKeys)
				}
				if pc.reserve(key) {
					t.Fatalf("a second refresh could be reserved while the first is in flight")
				}
				pc.done(key)
				if !pc.reserve(key) {
					t.Fatalf("no refresh can be reserved after the previous one finished")
				}
				pc.done(key)
			}
		}
		st.Class("rounds", rounds)
		st.Case(vfkit.Fingerprint(g, rounds, nKeys, base), true, []string{fmt.Sprintf("goroutines=%d", g)}, func() any {
			return map[string]any{"goroutines": g, "rounds": rounds, "keys": nKeys}
		})
	})
}
