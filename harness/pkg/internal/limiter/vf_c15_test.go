package limiter_test

// C15 (limiter level, virtual time) - per-client-subnet token bucket that isolates clients.
// Oracle: a reference token bucket per reference-masked subnet, the window bound of the statement,
// and the metamorphic isolation relation (other subnets' traffic does not change my decisions).

import (
	"os"
	"fmt"
	"math"
	"net/netip"
	"runtime"
	"sync"
	"sync/atomic"
	"testing"
	"time"

	"github.com/IrineSistiana/mosproxy/internal/limiter"
	"pgregory.net/rapid"
	"vfkit"
)

type vfEvent struct {
	addr netip.Addr
	at   time.Duration // since start
	cost int
}

type vfBucket struct {
	tokens float64
	last   time.Duration
}

type vfRefLimiter struct {
	rate   float64
	burst  float64
	v4, v6 int
	b      map[netip.Addr]*vfBucket
}

func vfRefKey(a netip.Addr, v4, v6 int) netip.Addr {
	a = a.Unmap()
	if a.Is4() {
		p, _ := a.Prefix(v4)
		return p.Addr()
	}
	p, _ := a.Prefix(v6)
	return p.Addr()
}

// allow returns (decision, distance of the token level from the decision threshold)
func (r *vfRefLimiter) allow(ev vfEvent, force *bool) (bool, float64) {
	k := vfRefKey(ev.addr, r.v4, r.v6)
	b := r.b[k]
	if b == nil {
		b = &vfBucket{tokens: r.burst, last: ev.at}
		r.b[k] = b
	}
	tokens := math.Min(r.burst, b.tokens+r.rate*(ev.at-b.last).Seconds())
	margin := tokens - float64(ev.cost)
	ok := margin >= 0 && float64(ev.cost) <= r.burst
	if force != nil {
		ok = *force
	}
	if ok {
		b.tokens = tokens - float64(ev.cost)
		b.last = ev.at
	}
	return ok, margin
}

func vfGenAddr(t *rapid.T) netip.Addr {
	switch rapid.IntRange(0, 5).Draw(t, "addrKind") {
	case 0, 1: // v4 in a few /24s (and /16s)
		return netip.AddrFrom4([4]byte{10, byte(rapid.IntRange(0, 1).Draw(t, "b")), byte(rapid.IntRange(0, 2).Draw(t, "c")), byte(rapid.IntRange(0, 255).Draw(t, "d"))})
	case 2: // v4-mapped form of the same space
		a := netip.AddrFrom4([4]byte{10, byte(rapid.IntRange(0, 1).Draw(t, "b")), byte(rapid.IntRange(0, 2).Draw(t, "c")), byte(rapid.IntRange(0, 255).Draw(t, "d"))})
		return netip.AddrFrom16(a.As16())
	case 3, 4: // v6 in a few /48s, /56s and /64s
		var x [16]byte
		x[0], x[1] = 0x20, 0x01
		x[5] = byte(rapid.IntRange(0, 2).Draw(t, "s48"))
		x[6] = byte(rapid.IntRange(0, 1).Draw(t, "s56"))
		x[7] = byte(rapid.IntRange(0, 1).Draw(t, "s64"))
		x[15] = byte(rapid.IntRange(0, 255).Draw(t, "host"))
		return netip.AddrFrom16(x)
	default:
		if rapid.Bool().Draw(t, "any4") {
			return netip.AddrFrom4([4]byte(rapid.SliceOfN(rapid.Byte(), 4, 4).Draw(t, "v4")))
		}
		return netip.AddrFrom16([16]byte(rapid.SliceOfN(rapid.Byte(), 16, 16).Draw(t, "v6")))
	}
}

func TestVfC15Limiter(t *testing.T) {
	st := vfkit.Stats("TestVfC15Limiter", "limiter options (limit, burst incl. default, masks omitted, in range, or no prefix length at all = default) x arrival histories of (address in few v4/v6/v4-mapped subnets, dt >= 0, cost 1..15) in virtual time, in about one case of 300 after a crowd of 66 000-90 000 clients from as many other subnets; non-trivial = >= 2 subnets, >= 1 refusal and >= 1 admission after a refusal")
	defer vfkit.Flush()
	base := time.Now()
	rapid.Check(t, func(t *rapid.T) {
		limit := rapid.SampledFrom([]int{1, 2, 5, 20, 100}).Draw(t, "limit")
		burst := rapid.SampledFrom([]int{0, 1, 3, 10, 40}).Draw(t, "burst")
		// a value that is no prefix length of the family (negative, beyond the address length) configures nothing:
		// the documented default applies
		v4 := rapid.SampledFrom([]int{0, 0, 8, 16, 24, 25, 32, 1, -1, -24, 33, 200}).Draw(t, "v4mask")
		v6 := rapid.SampledFrom([]int{0, 0, 32, 48, 56, 64, 128, 1, -1, -48, 129, 1000}).Draw(t, "v6mask")
		opts := limiter.ClientLimiterOpts{Limit: float64(limit), Burst: burst, V4Mask: v4, V6Mask: v6}
		refBurst := burst
		if refBurst == 0 {
			refBurst = limit
		}
		ref4, ref6 := v4, v6
		if ref4 <= 0 || ref4 > 32 {
			ref4 = 24
		}
		if ref6 <= 0 || ref6 > 128 {
			ref6 = 48
		}
		n := rapid.IntRange(1, 60).Draw(t, "nEvents")
		evs := make([]vfEvent, n)
		var now time.Duration
		for i := range evs {
			dt := time.Duration(0)
			switch rapid.IntRange(0, 3).Draw(t, "dtKind") {
			case 1:
				dt = time.Duration(rapid.IntRange(1, 200).Draw(t, "ms")) * time.Millisecond
			case 2:
				dt = time.Duration(rapid.IntRange(1, 5000).Draw(t, "ms")) * time.Millisecond
			case 3:
				dt = time.Duration(rapid.IntRange(0, 1000000).Draw(t, "us")) * time.Microsecond
			}
			now += dt
			evs[i] = vfEvent{addr: vfGenAddr(t), at: now, cost: rapid.SampledFrom([]int{1, 1, 2, 3, 15}).Draw(t, "cost")}
		}

		// In about one case of 300 a crowd comes first: 66 000-90 000 other clients, each from a subnet of its own (under
		// the default masks), one query each at the first instant. Whatever the limiter keeps per subnet, the clients
		// that follow are decided as if the crowd's subnets were not there.
		nCrowd := 0
		if rapid.IntRange(0, 299).Draw(t, "crowd") == 187 || os.Getenv("VF_CROWD") != "" { // (not "== 0": the library favours the ends of a range)
			nCrowd = rapid.IntRange(66000, 90000).Draw(t, "crowdSize")
			crowd := make([]vfEvent, nCrowd)
			for i := range crowd {
				k := i / 2
				if i%2 == 0 {
					crowd[i] = vfEvent{addr: netip.AddrFrom4([4]byte{byte(128 + (k>>16)%96), byte(k >> 8), byte(k), 1}), cost: 1}
				} else {
					var x [16]byte
					x[0], x[1], x[3], x[4], x[5], x[15] = 0x2a, 0x02, byte(k>>16), byte(k>>8), byte(k), 1
					crowd[i] = vfEvent{addr: netip.AddrFrom16(x), cost: 1}
				}
			}
			evs = append(crowd, evs...)
		}

		run := func(events []vfEvent) []bool {
			cl := limiter.NewClientLimiter(opts)
			defer cl.Close()
			out := make([]bool, len(events))
			for i, e := range events {
				out[i] = cl.AllowN(e.addr, base.Add(e.at), e.cost)
			}
			return out
		}
		got := run(evs)

		// (1) reference decisions
		ref := &vfRefLimiter{rate: float64(limit), burst: float64(refBurst), v4: ref4, v6: ref6, b: map[netip.Addr]*vfBucket{}}
		for i, e := range evs {
			probe := *ref.b[vfRefKey(e.addr, ref4, ref6)].orZero(ref.burst, e.at)
			want, margin := (&vfRefLimiter{rate: ref.rate, burst: ref.burst, v4: ref4, v6: ref6, b: map[netip.Addr]*vfBucket{vfRefKey(e.addr, ref4, ref6): &probe}}).allow(e, nil)
			if math.Abs(margin) < 1e-6 {
				// inside the float tolerance band: follow the implementation
				g := got[i]
				ref.allow(e, &g)
				continue
			}
			if got[i] != want {
				t.Fatalf("event %d %v cost %d at %v: limiter says %v, reference token bucket for subnet %v says %v (tokens-cost=%.6f); opts %+v", i, e.addr, e.cost, e.at, got[i], vfRefKey(e.addr, ref4, ref6), want, margin, opts)
			}
			ref.allow(e, nil)
		}

		// (2) window bound per reference subnet
		bySub := map[netip.Addr][]int{}
		for i, e := range evs {
			if got[i] {
				k := vfRefKey(e.addr, ref4, ref6)
				bySub[k] = append(bySub[k], i)
			}
		}
		for k, idx := range bySub {
			if len(idx) > 400 {
				continue // a crowd that the configured mask folds into one subnet: the reference above has decided each event
			}
			for a := 0; a < len(idx); a++ {
				sum := 0.0
				for b := a; b < len(idx); b++ {
					sum += float64(evs[idx[b]].cost)
					window := (evs[idx[b]].at - evs[idx[a]].at).Seconds()
					if sum > float64(refBurst)+float64(limit)*window+1e-6 {
						t.Fatalf("subnet %v admitted cost %.0f in a window of %.6fs, more than burst %d + rate %d x window; opts %+v", k, sum, window, refBurst, limit, opts)
					}
				}
			}
		}

		// (3) isolation: removing all other subnets' events leaves my decisions unchanged
		subnets := map[netip.Addr]bool{}
		for _, e := range evs {
			subnets[vfRefKey(e.addr, ref4, ref6)] = true
		}
		if len(subnets) >= 2 {
			for k := range subnets {
				if nCrowd > 0 && k != vfRefKey(evs[len(evs)-1].addr, ref4, ref6) {
					continue // with a crowd: the subnet of the last client
				}
				var mine []vfEvent
				var idx []int
				for i, e := range evs {
					if vfRefKey(e.addr, ref4, ref6) == k {
						mine = append(mine, e)
						idx = append(idx, i)
					}
				}
				alone := run(mine)
				for j := range alone {
					if alone[j] != got[idx[j]] {
						t.Fatalf("isolation: event %d of subnet %v is decided %v alone but %v together with other subnets' traffic; opts %+v", idx[j], k, alone[j], got[idx[j]], opts)
					}
				}
				break // one subnet per case keeps the cost linear
			}
		}

		refused, admittedAfter := false, false
		for i := range got {
			if !got[i] {
				refused = true
			} else if refused {
				admittedAfter = true
			}
		}
		classes := []string{}
		if v4 == 0 || v6 == 0 {
			classes = append(classes, "mask-omitted")
		}
		if burst == 0 {
			classes = append(classes, "burst-default")
		}
		if len(subnets) >= 2 {
			classes = append(classes, "multi-subnet")
		}
		if nCrowd > 0 {
			classes = append(classes, "crowd-of-66000+-subnets-first")
			evs, got = evs[nCrowd:], got[nCrowd:]
		}
		st.Case(vfkit.Fingerprint(fmt.Sprint(opts), fmt.Sprint(evs)), len(subnets) >= 2 && refused && admittedAfter, classes, func() any {
			return map[string]any{"opts": fmt.Sprintf("%+v", opts), "events": fmt.Sprint(evs[:min(8, len(evs))]), "decisions": fmt.Sprint(got[:min(8, len(got))])}
		})
	})
}

// orZero returns the bucket or a fresh full one (used to probe without mutating the reference state).
func (b *vfBucket) orZero(burst float64, at time.Duration) *vfBucket {
	if b == nil {
		return &vfBucket{tokens: burst, last: at}
	}
	c := *b
	return &c
}

// TestVfC15Concurrent: many goroutines charge one subnet at the same virtual instant; the bucket must be
// created once and admit exactly its burst.
func TestVfC15Concurrent(t *testing.T) {
	st := vfkit.Stats("TestVfC15Concurrent", "4-32 goroutines x 5-40 calls of cost 1 from addresses of one /24 (or /48) at one virtual instant, racing on the creation of the subnet's bucket, next to a second subnet doing the same; oracle: each subnet is admitted exactly min(burst, calls) - one bucket per subnet, created once; non-trivial = calls exceed the burst")
	defer vfkit.Flush()
	base := time.Now()
	rapid.Check(t, func(t *rapid.T) {
		burst := rapid.SampledFrom([]int{1, 5, 20, 50}).Draw(t, "burst")
		g := rapid.SampledFrom([]int{4, 8, 16, 32}).Draw(t, "goroutines")
		m := rapid.IntRange(5, 40).Draw(t, "calls")
		v6 := rapid.Bool().Draw(t, "v6")
		cl := limiter.NewClientLimiter(limiter.ClientLimiterOpts{Limit: 1, Burst: burst})
		defer cl.Close()
		addr := func(sub, host int) netip.Addr {
			if v6 {
				var x [16]byte
				x[0], x[1], x[5] = 0x20, 0x01, byte(sub)
				x[15] = byte(host)
				return netip.AddrFrom16(x)
			}
			return netip.AddrFrom4([4]byte{10, 9, byte(sub), byte(host)})
		}
		var admitted [2]atomic.Int32
		var start atomic.Bool
		var wg sync.WaitGroup
		for i := 0; i < g; i++ {
			wg.Add(1)
			go func(i int) {
				defer wg.Done()
				for !start.Load() {
					runtime.Gosched()
				}
				sub := i % 2
				for j := 0; j < m; j++ {
					if cl.AllowN(addr(sub, 1+(i*m+j)%250), base, 1) {
						admitted[sub].Add(1)
					}
				}
			}(i)
		}
		start.Store(true)
		wg.Wait()
		for sub := 0; sub < 2; sub++ {
			calls := ((g + 1 - sub) / 2) * m
			want := min(burst, calls)
			if got := int(admitted[sub].Load()); got != want {
				t.Fatalf("subnet %d: %d of %d simultaneous calls (cost 1) admitted, a single bucket with burst %d admits exactly %d", sub, got, calls, burst, want)
			}
		}
		st.Case(vfkit.Fingerprint(burst, g, m, v6), g/2*m > burst, nil, func() any {
			return map[string]any{"burst": burst, "goroutines": g, "calls_each": m, "v6": v6}
		})
	})
}

// TestVfC15GcKeepsLive (thorough tier only, 65 s of real time): the limiter's garbage collector runs once
// a minute; a bucket that is in use must survive it, otherwise its subnet gets a fresh burst every minute.
func TestVfC15GcKeepsLive(t *testing.T) {
	st := vfkit.Stats("TestVfC15GcKeepsLive", "one limiter (limit 1/s, burst 30) used by a flooding /24 every 50 ms of real time for 65 s, across the garbage collector's one-minute tick, with idle subnets next to it; oracle: admitted cost <= burst + rate x elapsed at every moment; non-trivial = the run crossed a gc tick")
	defer vfkit.Flush()
	rapid.Check(t, func(t *rapid.T) {
		burst := rapid.SampledFrom([]int{10, 30}).Draw(t, "burst")
		cl := limiter.NewClientLimiter(limiter.ClientLimiterOpts{Limit: 1, Burst: burst})
		defer cl.Close()
		start := time.Now()
		admitted := 0
		for i := 0; time.Since(start) < 65*time.Second; i++ {
			now := time.Now()
			if cl.AllowN(netip.AddrFrom4([4]byte{10, 1, 1, byte(1 + i%200)}), now, 1) {
				admitted++
			}
			if i%40 == 0 {
				cl.AllowN(netip.AddrFrom4([4]byte{10, 2, byte(i / 40), 1}), now, 1) // idle subnets for the gc to collect
			}
			if float64(admitted) > float64(burst)+time.Since(start).Seconds()+1.5 {
				t.Fatalf("after %.1fs the flooding subnet has %d admitted calls, more than burst %d + 1/s x elapsed: its bucket was replaced while in use", time.Since(start).Seconds(), admitted, burst)
			}
			time.Sleep(50 * time.Millisecond)
		}
		st.Case(vfkit.Fingerprint(burst, admitted), true, nil, func() any { return map[string]any{"burst": burst, "admitted_in_65s": admitted} })
		st.Case(vfkit.Fingerprint(burst, admitted, "x"), true, nil, nil)
	})
}
