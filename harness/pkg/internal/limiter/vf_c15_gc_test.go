package limiter

// C15 (limiter level, white box) - the garbage collection of idle buckets must not change what a subnet is admitted.
// gc() runs from a one-minute ticker in production; here it is called directly, once per case, at a drawn point of a
// timed arrival sequence. All event times are laid out around the real "now" of the call (earlier events in the past,
// later ones in the future; AllowN takes its time from the caller), so that gc's own time.Now() is the virtual
// instant of the collection. Oracle: the window bound of the statement, checked over every window of the sequence.

import (
	"fmt"
	"net/netip"
	"testing"
	"time"

	"pgregory.net/rapid"
	"vfkit"
)

func TestVfC15Gc(t *testing.T) {
	st := vfkit.Stats("TestVfC15Gc", "limit in {0.05 .. 50}/s, burst 1..300 (incl. burst far above 60 x limit), 1-4 client subnets, 2-40 timed events per subnet with gaps of 0-200 s before and after one garbage collection run (called directly at a drawn instant); oracle: for every subnet and every window of the sequence the admitted cost is <= burst + limit x window (+1e-6); non-trivial = a subnet was idle for >= 60 s at the collection while its bucket had not refilled")
	defer vfkit.Flush()
	rapid.Check(t, func(t *rapid.T) {
		limit := rapid.SampledFrom([]float64{0.05, 0.1, 0.5, 1, 5, 20, 50}).Draw(t, "limit")
		burst := rapid.SampledFrom([]int{1, 5, 20, 30, 100, 300}).Draw(t, "burst")
		cl := NewClientLimiter(ClientLimiterOpts{Limit: limit, Burst: burst})
		defer cl.Close()
		nSub := rapid.IntRange(1, 4).Draw(t, "subnets")
		type ev struct {
			at   time.Duration // relative to the collection (negative = before)
			cost int
			ok   bool
		}
		seqs := make([][]ev, nSub)
		inDebtIdle := false
		for s := 0; s < nSub; s++ {
			// before the collection: events at decreasing distance, the last one `idle` before the collection
			idle := time.Duration(rapid.SampledFrom([]int{0, 1, 30, 59, 61, 75, 119, 200}).Draw(t, "idleBeforeGcS")) * time.Second
			nBefore := rapid.IntRange(1, 20).Draw(t, "nBefore")
			at := -idle
			var before []ev
			for i := 0; i < nBefore; i++ {
				before = append([]ev{{at: at, cost: rapid.SampledFrom([]int{1, 1, 2, 5, burst}).Draw(t, "cost")}}, before...)
				at -= time.Duration(rapid.SampledFrom([]int{0, 1, 10, 100, 1000, 30000, 90000}).Draw(t, "gapMs")) * time.Millisecond
			}
			nAfter := rapid.IntRange(1, 20).Draw(t, "nAfter")
			at = time.Duration(rapid.SampledFrom([]int{0, 1, 500, 5000, 70000}).Draw(t, "firstAfterMs")) * time.Millisecond
			var after []ev
			for i := 0; i < nAfter; i++ {
				after = append(after, ev{at: at, cost: rapid.SampledFrom([]int{1, 1, 2, 5, burst}).Draw(t, "cost")})
				at += time.Duration(rapid.SampledFrom([]int{0, 1, 10, 100, 1000, 30000, 200000}).Draw(t, "gapMs")) * time.Millisecond
			}
			seqs[s] = append(before, after...)
			if idle >= 60*time.Second && float64(burst) > limit*idle.Seconds() {
				inDebtIdle = true
			}
		}
		addr := func(s int) netip.Addr { return netip.AddrFrom4([4]byte{10, 9, byte(s), 7}) }
		// replay: everything before the collection (merged by time), the collection, everything after
		gcAt := time.Now().Add(4 * time.Millisecond) // leave room so that "before" really is before gc's own clock reading
		type step struct {
			s, i int
			at   time.Duration
		}
		var order []step
		for s := range seqs {
			for i := range seqs[s] {
				order = append(order, step{s, i, seqs[s][i].at})
			}
		}
		// stable order by time (insertion sort: sequences are short)
		for i := 1; i < len(order); i++ {
			for j := i; j > 0 && order[j].at < order[j-1].at; j-- {
				order[j], order[j-1] = order[j-1], order[j]
			}
		}
		collected := false
		for _, o := range order {
			if !collected && o.at >= 0 {
				time.Sleep(time.Until(gcAt))
				cl.gc()
				collected = true
			}
			e := &seqs[o.s][o.i]
			e.ok = cl.AllowN(addr(o.s), gcAt.Add(e.at), e.cost)
		}
		for s := range seqs {
			for i := range seqs[s] {
				sum := 0
				for j := i; j < len(seqs[s]); j++ {
					if seqs[s][j].ok {
						sum += seqs[s][j].cost
					}
					window := (seqs[s][j].at - seqs[s][i].at).Seconds()
					if float64(sum) > float64(burst)+limit*window+1e-6 {
						t.Fatalf("subnet %d was admitted cost %d in a window of %.3f s that contains the garbage collection (limit %g/s, burst %d: at most %.2f); events relative to the collection: %s",
							s, sum, window, limit, burst, float64(burst)+limit*window, fmtEvents(seqs[s][i:j+1]))
					}
				}
			}
		}
		st.Case(vfkit.Fingerprint(limit, burst, fmt.Sprint(seqs)), inDebtIdle, []string{fmt.Sprintf("in-debt-idle=%v", inDebtIdle)}, func() any {
			return map[string]any{"limit": limit, "burst": burst, "subnets": nSub, "events": len(order)}
		})
	})
}

func fmtEvents[E any](es []E) string {
	s := fmt.Sprint(es)
	if len(s) > 600 {
		s = s[:600] + "..."
	}
	return s
}

// TestVfC15GcVsUse: the collection of an idle bucket and a client coming back at that very moment. The collector looks
// at a bucket (idle for more than a minute, refilled) and removes it; a request of the subnet that arrives in between
// spends tokens from a bucket that is then thrown away, and the next request finds a fresh, full one - two bursts at
// one instant. Hammered with real goroutines (the collector's own clock is real time, the idle period is laid into
// the past through the time AllowN is given).
func TestVfC15GcVsUse(t *testing.T) {
	st := vfkit.Stats("TestVfC15GcVsUse", "per case 2000-6000 rounds on fresh subnets of one limiter (limit 1/s, burst 2-20): the subnet's bucket is created 2 minutes in the past (idle, refilled), then gc() and a request for the whole burst run at the same time (started together, 0-3 us apart), followed by a second request for the whole burst at the same instant; oracle: both cannot be admitted - two bursts at one instant exceed burst + rate x window; non-trivial = every case")
	defer vfkit.Flush()
	rapid.Check(t, func(t *rapid.T) {
		burst := rapid.SampledFrom([]int{2, 5, 20}).Draw(t, "burst")
		rounds := rapid.IntRange(2000, 6000).Draw(t, "rounds")
		spin := rapid.IntRange(0, 300).Draw(t, "spin")
		cl := NewClientLimiter(ClientLimiterOpts{Limit: 1, Burst: burst})
		defer cl.Close()
		both := 0
		for r := 0; r < rounds; r++ {
			addr := netip.AddrFrom4([4]byte{10, byte(r >> 16), byte(r >> 8), byte(r)})
			// 256 distinct /24s, then the same ones again: delete what earlier rounds left, so that every round starts alike
			cl.m.Delete(cl.mask(addr))
			cl.AllowN(addr, time.Now().Add(-2*time.Minute), 0)
			start := make(chan struct{})
			done := make(chan bool, 1)
			go func() {
				<-start
				for i := 0; i < spin; i++ {
				}
				done <- cl.AllowN(addr, time.Now(), burst)
			}()
			gcd := make(chan struct{})
			go func() {
				<-start
				cl.gc()
				close(gcd)
			}()
			close(start)
			first := <-done
			<-gcd
			second := cl.AllowN(addr, time.Now(), burst)
			if first && second {
				both++
				t.Fatalf("round %d: a subnet idle for two minutes came back while the collector ran: a request for the whole burst (%d) was admitted, and so was a second one at the same instant - the first spent the tokens of a bucket the collector was removing, the second found a fresh one (limit 1/s, burst %d)", r, burst, burst)
			}
		}
		st.Case(vfkit.Fingerprint(burst, rounds, spin), true, nil, func() any { return map[string]any{"burst": burst, "rounds": rounds, "spin": spin} })
	})
}
