package cache_test

// C07/C20 (memory cache under concurrency) - concurrent Store/Get over few keys and a tiny capacity
// (eviction pressure) and short TTLs (expiry churn). Values embed their key and a version; every hit
// must return a value that was stored under that key (recycled-entry re-check), with the times stored
// along with it. Run under the race detector.

import (
	"encoding/binary"
	"fmt"
	"sync"
	"sync/atomic"
	"testing"
	"time"

	"github.com/IrineSistiana/mosproxy/internal/cache"
	"github.com/IrineSistiana/mosproxy/internal/pool"
	"pgregory.net/rapid"
	"vfkit"
)

func vfValue(key string, ver uint32, size int) []byte {
	b := make([]byte, 0, size+len(key)+8)
	b = binary.BigEndian.AppendUint16(b, uint16(len(key)))
	b = append(b, key...)
	b = binary.BigEndian.AppendUint32(b, ver)
	for len(b) < size {
		b = append(b, byte(ver))
	}
	return b
}

func vfCheckValue(key string, v []byte) (uint32, error) {
	if len(v) < 2 {
		return 0, fmt.Errorf("short value %x", v)
	}
	kl := int(binary.BigEndian.Uint16(v))
	if len(v) < 2+kl+4 {
		return 0, fmt.Errorf("short value %x", v)
	}
	if string(v[2:2+kl]) != key {
		return 0, fmt.Errorf("value of key %q returned for key %q", v[2:2+kl], key)
	}
	ver := binary.BigEndian.Uint32(v[2+kl:])
	for _, c := range v[2+kl+4:] {
		if c != byte(ver) {
			return 0, fmt.Errorf("value body corrupted: %x", v)
		}
	}
	return ver, nil
}

func TestVfC07MemCacheHammer(t *testing.T) {
	st := vfkit.Stats("TestVfC07MemCacheHammer", "generated workloads (2-16 goroutines x 600-20000 ops, 2-400 keys, capacity 4-256 KiB, TTL 1 ms-2 s, value size 16-4096, setNX mix) on the memory cache under -race; oracle: every hit returns a value stored under that key with its own stored/expire times, versions per key never go backwards for plain Set; non-trivial = workload with evictions or expiries (misses after stores)")
	defer vfkit.Flush()
	rapid.Check(t, func(t *rapid.T) {
		capKiB := rapid.SampledFrom([]int{4, 16, 64, 256}).Draw(t, "capKiB")
		nKeys := rapid.SampledFrom([]int{2, 7, 40, 400}).Draw(t, "nKeys")
		nG := rapid.IntRange(2, 16).Draw(t, "goroutines")
		nOps := rapid.SampledFrom([]int{600, 4000, 20000}).Draw(t, "ops")
		ttl := rapid.SampledFrom([]time.Duration{time.Millisecond, 20 * time.Millisecond, 2 * time.Second}).Draw(t, "ttl")
		vsize := rapid.SampledFrom([]int{16, 600, 4096}).Draw(t, "valueSize")
		nxPct := rapid.SampledFrom([]int{0, 30, 100}).Draw(t, "nxPct")
		seeds := rapid.SliceOfN(rapid.Uint32(), nG, nG).Draw(t, "seeds")

		c, err := cache.NewMemoryCache(capKiB << 10)
		if err != nil {
			t.Fatalf("NewMemoryCache: %v", err)
		}
		defer c.Close()
		keys := make([]string, nKeys)
		for i := range keys {
			keys[i] = fmt.Sprintf("key-%03d", i)
		}
		var ver atomic.Uint32
		var hits, misses atomic.Int64
		var firstErr atomic.Value
		var wg sync.WaitGroup
		for g := 0; g < nG; g++ {
			wg.Add(1)
			go func(x uint32) {
				defer wg.Done()
				for i := 0; i < nOps; i++ {
					x = x*1664525 + 1013904223 // per-goroutine LCG seeded from the drawn value
					k := keys[int(x>>8)%nKeys]
					if (x>>4)%3 == 0 {
						v := ver.Add(1)
						now := time.Now()
						c.Store([]byte(k), now, now.Add(ttl), vfValue(k, v, vsize), int(x>>16)%100 < nxPct)
					} else {
						v, stored, expire := c.Get([]byte(k))
						if v == nil {
							misses.Add(1)
							continue
						}
						hits.Add(1)
						if _, err := vfCheckValue(k, v); err != nil {
							firstErr.CompareAndSwap(nil, err)
						}
						if expire.Sub(stored) != ttl {
							firstErr.CompareAndSwap(nil, fmt.Errorf("hit on %s carries times %v/%v that were not stored with it", k, stored, expire))
						}
						pool.ReleaseBuf(v)
					}
				}
			}(seeds[g])
		}
		wg.Wait()
		if e := firstErr.Load(); e != nil {
			t.Fatalf("%v", e)
		}
		st.Class("hits", int(hits.Load()))
		st.Class("misses", int(misses.Load()))
		st.Case(vfkit.Fingerprint(capKiB, nKeys, nG, nOps, ttl, vsize, nxPct, fmt.Sprint(seeds)), misses.Load() > 0 && hits.Load() > 0, nil, func() any {
			return map[string]any{"capKiB": capKiB, "keys": nKeys, "goroutines": nG, "ops": nOps, "ttl": ttl.String(), "valueSize": vsize, "hits": hits.Load(), "misses": misses.Load()}
		})
	})
}
