package cache_test

// C08 (memory backend) - an entry leaves the cache when its expire time has passed, whatever its stored time says:
// entries that were fetched long ago (handed down from a second-level cache, or stored late) must not get a new lease
// of life from the moment they are stored.

import (
	"fmt"
	"sync/atomic"
	"testing"
	"time"

	"github.com/IrineSistiana/mosproxy/internal/cache"
	"github.com/IrineSistiana/mosproxy/internal/pool"
	"pgregory.net/rapid"
	"vfkit"
)

var vfC08Seq atomic.Uint32

func TestVfC08MemExpiry(t *testing.T) {
	st := vfkit.Stats("TestVfC08MemExpiry", "10-40 entries per case stored in the memory cache with an expire time 1-3 s ahead and a stored time 0 s, 1 s, 40 s or 1 h in the past (Set and SetIfAbsent); oracle: an entry with at least 2.2 s to go is found right away with exactly the times it was stored with, and 2.2 s (cache clock granularity) after its expire time every entry is gone; non-trivial = stored time in the past")
	defer vfkit.Flush()
	rapid.Check(t, func(t *rapid.T) {
		c, err := cache.NewMemoryCache(4 << 20)
		if err != nil {
			t.Fatalf("NewMemoryCache: %v", err)
		}
		defer c.Close()
		n := rapid.IntRange(10, 40).Draw(t, "entries")
		type ent struct {
			key            string
			stored, expire time.Time
			age            time.Duration
		}
		ents := make([]ent, n)
		base := time.Now()
		var last time.Time
		past := false
		for i := range ents {
			age := rapid.SampledFrom([]time.Duration{0, time.Second, 40 * time.Second, time.Hour}).Draw(t, "age")
			remain := time.Duration(rapid.IntRange(1000, 3000).Draw(t, "remainMs")) * time.Millisecond
			e := ent{key: fmt.Sprintf("k%d-%d", vfC08Seq.Add(1), i), stored: base.Add(-age), expire: base.Add(remain), age: age}
			c.Store([]byte(e.key), e.stored, e.expire, []byte("value of "+e.key), rapid.Bool().Draw(t, "setNX"))
			ents[i] = e
			if e.expire.After(last) {
				last = e.expire
			}
			past = past || age > 0
		}
		for _, e := range ents {
			if time.Until(e.expire) < 2200*time.Millisecond {
				continue
			}
			v, stored, expire := c.Get([]byte(e.key))
			if v == nil {
				t.Fatalf("entry %s (stored %v ago, %v to go) is not found right after Store", e.key, e.age, time.Until(e.expire).Round(time.Millisecond))
			}
			if string(v) != "value of "+e.key || !stored.Equal(e.stored) || !expire.Equal(e.expire) {
				t.Fatalf("entry %s came back as %q stored %v expire %v", e.key, v, stored, expire)
			}
			pool.ReleaseBuf(v)
		}
		time.Sleep(time.Until(last.Add(2200 * time.Millisecond)))
		for _, e := range ents {
			if v, _, _ := c.Get([]byte(e.key)); v != nil {
				pool.ReleaseBuf(v)
				t.Fatalf("entry %s is still served %.1f s after its expire time (it was stored with a stored time %v in the past and %v to live)", e.key, time.Since(e.expire).Seconds(), e.age, e.expire.Sub(base))
			}
		}
		st.Case(vfkit.Fingerprint(fmt.Sprint(ents)), past, nil, func() any { return map[string]any{"entries": n} })
	})
}
