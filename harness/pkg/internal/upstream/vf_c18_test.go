package upstream_test

// C18 (upstream level) - closing an upstream is prompt, idempotent, makes in-flight and later exchanges
// return, and leaves no connection or socket of the upstream open - including dials that complete
// after the close. Schedules are drawn around Close(); run under the race detector.

import (
	"context"
	"crypto/tls"
	"fmt"
	"github.com/IrineSistiana/mosproxy/internal/upstream"
	"os"
	"strings"
	"sync"
	"sync/atomic"
	"syscall"
	"testing"
	"time"

	"pgregory.net/rapid"
	"vfkit"
)

// vfSocketInodes lists the socket inodes this process holds.
func vfSocketInodes() map[string]bool {
	out := map[string]bool{}
	ents, err := os.ReadDir("/proc/self/fd")
	if err != nil {
		return out
	}
	for _, e := range ents {
		l, err := os.Readlink("/proc/self/fd/" + e.Name())
		if err == nil && strings.HasPrefix(l, "socket:") {
			out[l] = true
		}
	}
	return out
}

func TestVfC18UpstreamClose(t *testing.T) {
	st := vfkit.Stats("TestVfC18UpstreamClose", "per upstream kind (udp incl. its TCP fallback, tcp, tcp+pipeline, tls, tls+pipeline, https, h3, quic): 0-3 warm exchanges (pooled idle connections), then 1-8 exchanges without deadline in flight - waiting for held replies, or mid-dial against a server that delays its accept/handshake by a drawn amount - then Close() at a drawn instant, a concurrent and a later Close(), then 1-2 further exchanges; oracles: every Close returns within 2 s, every in-flight and later exchange returns within 3 s of the Close, every connection the server accepted is closed by the upstream within 2 s, and the process holds no more sockets than before the upstream was created; non-trivial = Close overlaps >= 1 pending dial or exchange")
	defer vfkit.Flush()
	_, leaf := vfTLSMaterial()
	rapid.Check(t, func(t *rapid.T) {
		kind := rapid.SampledFrom(vfAllKinds).Draw(t, "kind")
		gate := make(chan struct{})
		var hold atomic.Bool
		var tcUDP atomic.Bool // udp kind: answer UDP with TC so that the TCP fallback leg is used
		srv, err := vfkit.StartUpstream(kind, "c", "127.0.0.1", 0, vfkit.ServerTLS(leaf), func(q *vfkit.UpQuery) vfkit.UpAction {
			a := vfkit.UpAction{Reply: vfOKReply(q)}
			if q.Transport == "udp" && tcUDP.Load() && a.Reply != nil {
				a.Reply[2] |= 0x02 // TC
				return a
			}
			if hold.Load() {
				a.Gate = gate
			}
			return a
		})
		if err != nil {
			t.Fatalf("fake server: %v", err)
		}
		defer srv.Close()
		defer func() {
			select {
			case <-gate:
			default:
				close(gate)
			}
		}()
		before := vfSocketInodes()
		// The socket hook the package offers (Opt.Control) is used to make dials take time: from a drawn moment on every
		// new socket of the upstream is held for 5-40 ms before it may connect, so that Close() falls into dials that are
		// under way and complete only afterwards.
		var dialStall atomic.Int64
		ca, _ := vfTLSMaterial()
		u, err := upstream.NewUpstream(vfUpstreamAddr(kind, srv.Port), upstream.Opt{TLSConfig: &tls.Config{RootCAs: ca.Pool()},
			Control: func(network, address string, c syscall.RawConn) error {
				if d := dialStall.Load(); d > 0 {
					time.Sleep(time.Duration(d))
				}
				return nil
			}})
		if err != nil {
			t.Fatalf("NewUpstream(%s): %v", kind, err)
		}
		if kind == "udp" && rapid.Bool().Draw(t, "useTCPFallback") {
			tcUDP.Store(true)
		}
		warm := rapid.IntRange(0, 3).Draw(t, "warm")
		for i := 0; i < warm; i++ {
			ctx, cancel := context.WithTimeout(context.Background(), 3*time.Second)
			ok, err, _ := vfExchange(u, ctx, uint16(i+1), "warm.c18")
			cancel()
			if !ok {
				t.Fatalf("%s: warm-up exchange failed: %v", kind, err)
			}
		}
		// in-flight exchanges
		if rapid.Bool().Draw(t, "delayedAccept") {
			srv.AcceptDelay.Store(int64(time.Duration(rapid.IntRange(30, 300).Draw(t, "acceptDelayMs")) * time.Millisecond))
		}
		if rapid.Bool().Draw(t, "slowDials") {
			dialStall.Store(int64(time.Duration(rapid.IntRange(5, 40).Draw(t, "dialStallMs")) * time.Millisecond))
		}
		hold.Store(true)
		k := rapid.IntRange(1, 8).Draw(t, "inflight")
		type res struct {
			ok   bool
			err  error
			done time.Time
		}
		results := make(chan res, k+4)
		ctxAll, cancelAll := context.WithCancel(context.Background())
		defer cancelAll()
		var started sync.WaitGroup
		for i := 0; i < k; i++ {
			started.Add(1)
			go func(i int) {
				started.Done()
				ok, err, _ := vfExchange(u, ctxAll, uint16(100+i), fmt.Sprintf("inflight%d.c18", i))
				results <- res{ok, err, time.Now()}
			}(i)
		}
		started.Wait()
		time.Sleep(time.Duration(rapid.IntRange(0, 150).Draw(t, "closeAfterMs")) * time.Millisecond)
		pendingAtClose := k - len(results)
		// Close, twice concurrently, then once more
		closeAt := time.Now()
		closed := make(chan time.Duration, 3)
		for i := 0; i < 2; i++ {
			go func() { u.Close(); closed <- time.Since(closeAt) }()
		}
		for i := 0; i < 2; i++ {
			select {
			case d := <-closed:
				if d > 2*time.Second {
					t.Fatalf("%s: Close returned only after %v", kind, d)
				}
			case <-time.After(4 * time.Second):
				t.Fatalf("%s: Close did not return within 4 s (%d exchanges were pending)", kind, pendingAtClose)
			}
		}
		go func() { u.Close(); closed <- 0 }()
		select {
		case <-closed:
		case <-time.After(4 * time.Second):
			t.Fatalf("%s: a repeated Close did not return", kind)
		}
		// later exchanges
		later := rapid.IntRange(1, 2).Draw(t, "later")
		for i := 0; i < later; i++ {
			go func(i int) {
				ok, err, _ := vfExchange(u, ctxAll, uint16(200+i), fmt.Sprintf("later%d.c18", i))
				results <- res{ok, err, time.Now()}
			}(i)
		}
		for i := 0; i < k+later; i++ {
			select {
			case r := <-results:
				if d := r.done.Sub(closeAt); d > 3*time.Second {
					t.Fatalf("%s: an exchange returned only %v after Close", kind, d)
				}
			case <-time.After(time.Until(closeAt.Add(3500 * time.Millisecond))):
				t.Fatalf("%s: %d of %d exchanges (in flight or started after Close, no deadline of their own) had not returned 3 s after Close - they hang", kind, k+later-i, k+later)
			}
		}
		// connections seen by the server must be closed by the upstream
		// (a leaked connection stays for ever, so a generous bound costs nothing on a correct tree and keeps a starved
		// fake-server goroutine on a saturated machine from looking like a leak)
		// (not for h3: tearing the QUIC transport down closes the proxy's socket - which the inode invariant below sees -
		// without a CONNECTION_CLOSE for the peer, so the server's view of such a connection lasts until its own idle
		// time-out; what the peer still believes is not a connection "of the proxy")
		deadline := time.Now().Add(2 * time.Second)
		for kind != "h3" && srv.OpenConns() > 0 && time.Now().Before(deadline.Add(8*time.Second)) {
			time.Sleep(5 * time.Millisecond)
		}
		if time.Now().After(deadline) {
			deadline = time.Now()
		}
		if n := srv.OpenConns(); n > 0 && kind != "h3" {
			t.Fatalf("%s: %d connection(s) to the server are still open 10 s after Close (accepted in total: %d, pending exchanges at Close: %d, warm exchanges: %d)", kind, n, srv.Conns(), pendingAtClose, warm)
		}
		// release held server goroutines, then compare the process's sockets
		close(gate)
		var extra []string
		for time.Now().Before(deadline.Add(2 * time.Second)) {
			extra = extra[:0]
			for s := range vfSocketInodes() {
				if !before[s] {
					extra = append(extra, s)
				}
			}
			if len(extra) == 0 {
				break
			}
			time.Sleep(10 * time.Millisecond)
		}
		if len(extra) > 0 {
			t.Fatalf("%s: %d socket(s) opened by the upstream are still open after Close: %v", kind, len(extra), extra)
		}
		classes := []string{"kind=" + kind}
		if tcUDP.Load() {
			classes = append(classes, "udp-tcp-fallback")
		}
		if srv.AcceptDelay.Load() > 0 {
			classes = append(classes, "delayed-accept")
		}
		st.Case(vfkit.Fingerprint(kind, warm, k, later, pendingAtClose, srv.AcceptDelay.Load()), pendingAtClose > 0, classes, func() any {
			return map[string]any{"kind": kind, "warm": warm, "in_flight": k, "pending_at_close": pendingAtClose, "accept_delay_ms": time.Duration(srv.AcceptDelay.Load()).Milliseconds()}
		})
	})
}
