package upstream_test

// C16 - a truncated UDP upstream reply is retried over TCP.
// A fake server bound on the same UDP and TCP port answers according to a per-query script that
// the generator draws; replies carry tokens, so which leg produced the returned message is visible.

import (
	"strings"
	"context"
	"encoding/binary"
	"fmt"
	"io"
	"net"
	"sync"
	"testing"
	"time"

	"github.com/IrineSistiana/mosproxy/internal/dnsmsg"
	"github.com/IrineSistiana/mosproxy/internal/upstream"
	"pgregory.net/rapid"
	"vfkit"
)

type vfC16Script struct {
	udpPadTo   int // > 0: the UDP reply is padded to exactly this many octets
	udpDelay time.Duration // the UDP reply is held back this long (to arrive late in the caller's deadline)
	udpTC      bool
	udpEcho    string // how a truncated UDP reply echoes the question: "same", "upper" (other letter case), "none" (no question section)
	udpRcode   uint16
	udpExtra   int    // extra answer records in the UDP reply
	tcp        string // "reply", "rcode", "close", "silence", "tc-reply"
	tcpRcode   uint16
	udpToken   uint32
	tcpToken   uint32
	tcpQueries [][]byte // what the TCP leg received (raw query bytes)
	udpQueries int
}

type vfC16Server struct {
	hold    chan struct{} // when not nil: TCP replies wait until it is closed
	mu      sync.Mutex
	scripts map[uint32]*vfC16Script
	udp     *net.UDPConn
	tcp     net.Listener
	addr    string
}

func vfTokenOf(b []byte) (uint32, *vfkit.Decoded, bool) {
	d := vfkit.Decode(b)
	if d.Err != nil || len(d.Q) != 1 || len(d.Q[0].Name) < 1 {
		return 0, d, false
	}
	var tok uint32
	if _, err := fmt.Sscanf(string(d.Q[0].Name[0]), "t%d", &tok); err != nil {
		return 0, d, false
	}
	return tok, d, true
}

func vfTokenReply(q *vfkit.Decoded, bits uint16, token uint32, extra int) []byte {
	return vfTokenReplyQ(q, q.Q, bits, token, extra)
}

// vfTokenReplyQ is vfTokenReply with the question section given (nil = none).
func vfTokenReplyQ(q *vfkit.Decoded, qs []vfkit.Question, bits uint16, token uint32, extra int) []byte {
	rd := binary.BigEndian.AppendUint32(nil, token)
	m := &vfkit.Msg{ID: q.ID, Bits: vfkit.BitQR | vfkit.BitRD | vfkit.BitRA | bits, Q: qs,
		An: []vfkit.RR{{Owner: q.Q[0].Name, Type: 1, Class: 1, TTL: 60, RData: []vfkit.RDPart{{Raw: rd}}}}}
	for i := 0; i < extra; i++ {
		m.An = append(m.An, vfkit.RR{Owner: q.Q[0].Name, Type: 16, Class: 1, TTL: 60, RData: []vfkit.RDPart{{Raw: []byte{3, 'a', 'b', byte('0' + i%10)}}}})
	}
	w, _ := vfkit.Encode(m, vfkit.EncOpts{})
	return w
}

func vfNewC16Server(t vfFatal) *vfC16Server {
	s := &vfC16Server{scripts: map[uint32]*vfC16Script{}}
	for try := 0; try < 50; try++ {
		l, err := net.Listen("tcp", "127.0.0.1:0")
		if err != nil {
			t.Fatalf("listen: %v", err)
		}
		port := l.Addr().(*net.TCPAddr).Port
		u, err := net.ListenUDP("udp", &net.UDPAddr{IP: net.IPv4(127, 0, 0, 1), Port: port})
		if err != nil {
			l.Close()
			continue
		}
		s.tcp, s.udp = l, u
		s.addr = fmt.Sprintf("127.0.0.1:%d", port)
		break
	}
	if s.udp == nil {
		t.Fatalf("could not bind the same UDP and TCP port")
	}
	go s.serveUDP()
	go s.serveTCP()
	return s
}

func (s *vfC16Server) close() { s.udp.Close(); s.tcp.Close() }

// stopTCP closes the TCP side (dials are refused from now on); startTCP brings it back on the same port.
func (s *vfC16Server) stopTCP() { s.tcp.Close() }
func (s *vfC16Server) startTCP() error {
	l, err := net.Listen("tcp", s.addr)
	if err != nil {
		return err
	}
	s.tcp = l
	go s.serveTCP()
	return nil
}

func (s *vfC16Server) serveUDP() {
	buf := make([]byte, 65535)
	for {
		n, from, err := s.udp.ReadFromUDP(buf)
		if err != nil {
			return
		}
		tok, d, ok := vfTokenOf(buf[:n])
		if !ok {
			continue
		}
		s.mu.Lock()
		sc := s.scripts[tok]
		if sc != nil {
			sc.udpQueries++
		}
		s.mu.Unlock()
		if sc == nil {
			continue
		}
		bits := sc.udpRcode
		if sc.udpTC {
			bits |= vfkit.BitTC
		}
		dd := d
		if sc.udpTC && sc.udpEcho != "" && sc.udpEcho != "same" {
			cp := *d
			cp.Q = nil
			if sc.udpEcho == "upper" {
				q0 := d.Q[0]
				n := make(vfkit.Name, len(q0.Name))
				for i, l := range q0.Name {
					n[i] = []byte(strings.ToUpper(string(l)))
				}
				q0.Name = n
				cp.Q = []vfkit.Question{q0}
			}
			dd = &cp
		}
		reply := vfTokenReplyQ(d, dd.Q, bits, sc.udpToken, sc.udpExtra)
		if n := sc.udpPadTo - len(reply) - 11; sc.udpPadTo > 0 && n >= 0 {
			// one opaque additional record owned by the root brings the datagram to exactly udpPadTo octets
			reply = append([]byte(nil), reply...)
			binary.BigEndian.PutUint16(reply[10:], binary.BigEndian.Uint16(reply[10:])+1)
			reply = append(reply, 0, 0xFF, 0x00, 0, 1, 0, 0, 0, 60, byte(n>>8), byte(n))
			reply = append(reply, make([]byte, n)...)
		}
		if sc.udpDelay > 0 {
			go func(delay time.Duration) {
				time.Sleep(delay)
				s.udp.WriteToUDP(reply, from)
			}(sc.udpDelay)
			continue
		}
		s.udp.WriteToUDP(reply, from)
	}
}

func (s *vfC16Server) serveTCP() {
	for {
		c, err := s.tcp.Accept()
		if err != nil {
			return
		}
		go func() {
			defer c.Close()
			for {
				var lb [2]byte
				if _, err := io.ReadFull(c, lb[:]); err != nil {
					return
				}
				body := make([]byte, binary.BigEndian.Uint16(lb[:]))
				if _, err := io.ReadFull(c, body); err != nil {
					return
				}
				tok, d, ok := vfTokenOf(body)
				if !ok {
					return
				}
				s.mu.Lock()
				sc := s.scripts[tok]
				if sc != nil {
					sc.tcpQueries = append(sc.tcpQueries, body)
				}
				s.mu.Unlock()
				if sc == nil {
					return
				}
				var reply []byte
				switch sc.tcp {
				case "reply":
					reply = vfTokenReply(d, 0, sc.tcpToken, 2)
				case "tc-reply":
					reply = vfTokenReply(d, vfkit.BitTC, sc.tcpToken, 0)
				case "rcode":
					reply = vfTokenReply(d, sc.tcpRcode, sc.tcpToken, 0)
				case "close":
					return
				case "silence":
					time.Sleep(2 * time.Second)
					return
				}
				s.mu.Lock()
				hold := s.hold
				s.mu.Unlock()
				if hold != nil {
					select {
					case <-hold:
					case <-time.After(8 * time.Second):
					}
				}
				c.Write(append(binary.BigEndian.AppendUint16(nil, uint16(len(reply))), reply...))
			}
		}()
	}
}

func vfMsgToken(m *dnsmsg.Msg) (uint32, bool) {
	if len(m.Answers) < 1 {
		return 0, false
	}
	a, ok := m.Answers[0].(*dnsmsg.A)
	if !ok {
		return 0, false
	}
	return binary.BigEndian.Uint32(a.A[:]), true
}

var vfC16Tok uint32

func TestVfC16Fallback(t *testing.T) {
	st := vfkit.Stats("TestVfC16Fallback", "queries x UDP reply (TC on/off, rcode 0-5, 0-3 extra records, one in five padded to exactly 4080-4096 octets - the transport's receive buffer - or 511-513 / 1232-1233) x TCP leg outcome (distinct reply, reply with TC, error rcode, close, silence until the deadline), in one case of twelve with the UDP reply arriving 20-190 ms before the deadline, against a fake server on one UDP+TCP port, addressed directly or through dial_addr (URL host = an address where nothing listens); oracle: TC=0 => UDP reply returned, no TCP query; TC=1 => TCP leg receives the same query and the caller gets exactly the TCP outcome; non-trivial = UDP reply has TC")
	defer vfkit.Flush()
	srv := vfNewC16Server(t)
	defer srv.close()
	uDirect, err := upstream.NewUpstream("udp://"+srv.addr, upstream.Opt{})
	if err != nil {
		t.Fatalf("NewUpstream: %v", err)
	}
	defer uDirect.Close()
	// the same server reached through dial_addr: the URL names a host where nothing listens (another loopback address,
	// same port), so a leg that dials the URL host instead of dial_addr fails
	_, port, _ := net.SplitHostPort(srv.addr)
	uViaDialAddr, err := upstream.NewUpstream("udp://127.0.0.9:"+port, upstream.Opt{DialAddr: srv.addr})
	if err != nil {
		t.Fatalf("NewUpstream: %v", err)
	}
	defer uViaDialAddr.Close()
	uNoScheme, err := upstream.NewUpstream("127.0.0.9:"+port, upstream.Opt{DialAddr: "127.0.0.1:" + port})
	if err != nil {
		t.Fatalf("NewUpstream: %v", err)
	}
	defer uNoScheme.Close()
	rapid.Check(t, func(t *rapid.T) {
		u := []upstream.Upstream{uDirect, uViaDialAddr, uNoScheme}[rapid.IntRange(0, 2).Draw(t, "upstreamForm")]
		vfC16Tok++
		tok := vfC16Tok
		sc := &vfC16Script{
			udpTC:    rapid.Bool().Draw(t, "udpTC"),
			udpEcho:  rapid.SampledFrom([]string{"same", "same", "upper", "none"}).Draw(t, "truncatedReplyEchoesQuestion"),
			udpRcode: uint16(rapid.IntRange(0, 5).Draw(t, "udpRcode")),
			udpExtra: rapid.IntRange(0, 3).Draw(t, "udpExtra"),
			tcp:      rapid.SampledFrom([]string{"reply", "reply", "tc-reply", "rcode", "close", "silence"}).Draw(t, "tcpOutcome"),
			tcpRcode: uint16(rapid.IntRange(1, 5).Draw(t, "tcpRcode")),
			udpToken: tok*2 + 1000000,
			tcpToken: tok*2 + 1000001,
		}
		if rapid.IntRange(0, 4).Draw(t, "sizedUDPReply") == 0 {
			// a reply that fills the transport's receive buffer (4096 octets) exactly, or nearly, or a classic limit
			sc.udpPadTo = rapid.OneOf(rapid.IntRange(4080, 4096), rapid.SampledFrom([]int{511, 512, 513, 1232, 1233, 4095, 4096, 4096})).Draw(t, "udpReplyOctets")
		}
		srv.mu.Lock()
		srv.scripts[tok] = sc
		srv.mu.Unlock()
		callerID := rapid.Uint16().Draw(t, "id")
		qm := &vfkit.Msg{ID: callerID, Bits: vfkit.BitRD, Q: []vfkit.Question{{Name: vfkit.Name{[]byte(fmt.Sprintf("t%d", tok)), []byte("c16")}, Type: rapid.SampledFrom([]uint16{1, 28, 16}).Draw(t, "qtype"), Class: 1}}}
		q, _ := vfkit.Encode(qm, vfkit.EncOpts{})
		orig := append([]byte(nil), q...)
		deadline := 3 * time.Second
		if sc.udpTC && sc.tcp == "silence" {
			deadline = 300 * time.Millisecond
		}
		// one case in five: the (truncated or not) UDP reply arrives when only 20-190 ms of the deadline are left
		late := rapid.IntRange(0, 11).Draw(t, "lateUDPReply") == 0
		if late {
			deadline = 400 * time.Millisecond
			sc.udpDelay = deadline - time.Duration(rapid.IntRange(20, 190).Draw(t, "remainingMs"))*time.Millisecond
		}
		ctx, cancel := context.WithTimeout(context.Background(), deadline)
		start := time.Now()
		m, err := u.ExchangeContext(ctx, q)
		took := time.Since(start)
		cancel()
		if string(orig) != string(q) {
			t.Fatalf("query bytes modified")
		}
		srv.mu.Lock()
		tcpQ := append([][]byte(nil), sc.tcpQueries...)
		udpN := sc.udpQueries
		delete(srv.scripts, tok)
		srv.mu.Unlock()
		if udpN == 0 {
			vfkit.Inconclusive("C16: the UDP query never reached the fake server (loopback loss?)")
		}
		if !sc.udpTC && late && err != nil && m == nil {
			// the late reply lost the race against the deadline (it was sent only 20-190 ms before it): no verdict
			st.Case(vfkit.Fingerprint(fmt.Sprintf("%+v", *sc), callerID, "lost"), false, []string{"late-reply-lost-the-race"}, func() any { return nil })
			return
		}
		if !sc.udpTC {
			if err != nil {
				t.Fatalf("UDP reply without TC but the exchange failed: %v", err)
			}
			got, ok := vfMsgToken(m)
			if !ok || got != sc.udpToken {
				t.Fatalf("UDP reply without TC: caller got token %d, UDP reply was %d", got, sc.udpToken)
			}
			if m.Header.ID != callerID || m.Header.Truncated || uint16(m.Header.RCode) != sc.udpRcode || len(m.Answers) != 1+sc.udpExtra {
				t.Fatalf("UDP reply not returned as received: id %d (want %d) rcode %d (want %d) answers %d (want %d)", m.Header.ID, callerID, m.Header.RCode, sc.udpRcode, len(m.Answers), 1+sc.udpExtra)
			}
			if len(tcpQ) != 0 {
				t.Fatalf("a reply without TC caused %d TCP queries", len(tcpQ))
			}
			dnsmsg.ReleaseMsg(m)
		} else {
			if len(tcpQ) == 0 && late {
				// so late that the deadline may have passed before the TCP leg got anywhere: then there is no message at all
				if m != nil {
					t.Fatalf("UDP reply with TC arrived %v before the deadline, no TCP query was sent, yet the caller got a message (TC=%v)", deadline-sc.udpDelay, m.Header.Truncated)
				}
			} else if len(tcpQ) == 0 {
				t.Fatalf("UDP reply had TC but no query was sent over TCP (err=%v)", err)
			}
			for _, tq := range tcpQ {
				if string(tq) != string(orig) {
					t.Fatalf("the TCP leg sent a different query: %x, original %x", tq, orig)
				}
			}
			if m != nil {
				got, ok := vfMsgToken(m)
				if ok && got == sc.udpToken {
					t.Fatalf("the truncated UDP message was returned to the caller (TCP outcome %q)", sc.tcp)
				}
			}
			if late && err != nil && m == nil {
				// the deadline won the race against the TCP leg: fine
				sc.tcp = "deadline-first"
			}
			switch sc.tcp {
			case "deadline-first":
			case "reply", "tc-reply", "rcode":
				if err != nil {
					t.Fatalf("TCP leg answered (%s) but the exchange failed: %v", sc.tcp, err)
				}
				got, ok := vfMsgToken(m)
				if !ok || got != sc.tcpToken || m.Header.ID != callerID {
					t.Fatalf("caller did not get the TCP reply: token %d (want %d), id %d (want %d)", got, sc.tcpToken, m.Header.ID, callerID)
				}
				if sc.tcp == "rcode" && uint16(m.Header.RCode) != sc.tcpRcode {
					t.Fatalf("TCP rcode %d returned as %d", sc.tcpRcode, m.Header.RCode)
				}
				dnsmsg.ReleaseMsg(m)
			case "close", "silence":
				if err == nil {
					t.Fatalf("TCP leg %s but the exchange returned a message", sc.tcp)
				}
				if sc.tcp == "silence" && took > deadline+2*time.Second {
					t.Fatalf("exchange returned %v after a %v deadline", took, deadline)
				}
			}
		}
		classes := []string{"tcp=" + sc.tcp}
		if sc.udpTC {
			classes = append(classes, "udpTC")
		}
		st.Case(vfkit.Fingerprint(fmt.Sprintf("%+v", *sc), callerID), sc.udpTC, classes, func() any {
			return map[string]any{"udp_tc": sc.udpTC, "udp_rcode": sc.udpRcode, "tcp": sc.tcp, "tcp_queries": len(tcpQ)}
		})
	})
}


// TestVfC16TcpSideComesBack: "whenever the UDP reply has TC set" includes the time right after a TCP attempt that could
// not even connect. A server of its own per case (fresh upstream object, so no idle TCP connection exists): its TCP side
// is down for the first truncated exchange - the caller gets an error, never the truncated message - and back, 0-900 ms
// later, for the second, which must be carried over TCP.
func TestVfC16TcpSideComesBack(t *testing.T) {
	st := vfkit.Stats("TestVfC16TcpSideComesBack", "a udp upstream of its own per case against a server whose UDP replies are truncated: 1-3 exchanges while the server's TCP side is down (connection refused), then the TCP side comes back on the same port and, 0-900 ms after the last failure, 1-3 further exchanges follow; oracles: while TCP is down the caller gets an error or nothing - never the truncated UDP message; once it is back every exchange is re-sent over TCP (the TCP side receives the same query) and the caller gets the TCP reply; non-trivial = every case")
	defer vfkit.Flush()
	rapid.Check(t, func(t *rapid.T) {
		srv := vfNewC16Server(t)
		defer srv.close()
		u, err := upstream.NewUpstream("udp://"+srv.addr, upstream.Opt{})
		if err != nil {
			t.Fatalf("NewUpstream: %v", err)
		}
		defer u.Close()
		one := func(expectTCP bool, what string) {
			vfC16Tok++
			tok := vfC16Tok
			sc := &vfC16Script{udpTC: true, tcp: "reply", udpToken: tok*2 + 1000000, tcpToken: tok*2 + 1000001}
			srv.mu.Lock()
			srv.scripts[tok] = sc
			srv.mu.Unlock()
			callerID := rapid.Uint16().Draw(t, "id")
			qm := &vfkit.Msg{ID: callerID, Bits: vfkit.BitRD, Q: []vfkit.Question{{Name: vfkit.Name{[]byte(fmt.Sprintf("t%d", tok)), []byte("c16")}, Type: 1, Class: 1}}}
			q, _ := vfkit.Encode(qm, vfkit.EncOpts{})
			ctx, cancel := context.WithTimeout(context.Background(), 2*time.Second)
			m, err := u.ExchangeContext(ctx, q)
			cancel()
			srv.mu.Lock()
			tcpQ := append([][]byte(nil), sc.tcpQueries...)
			udpN := sc.udpQueries
			delete(srv.scripts, tok)
			srv.mu.Unlock()
			if udpN == 0 {
				vfkit.Inconclusive("C16: the UDP query never reached the fake server (loopback loss?)")
			}
			if m != nil {
				got, ok := vfMsgToken(m)
				if ok && got == sc.udpToken || m.Header.Truncated {
					t.Fatalf("%s: the truncated UDP message was returned to the caller", what)
				}
				if expectTCP && (!ok || got != sc.tcpToken || m.Header.ID != callerID) {
					t.Fatalf("%s: the caller got token %d (ok=%v) under ID %d, the TCP reply was %d under ID %d", what, got, ok, m.Header.ID, sc.tcpToken, callerID)
				}
				dnsmsg.ReleaseMsg(m)
			}
			if expectTCP {
				if len(tcpQ) == 0 {
					t.Fatalf("%s: the UDP reply had TC set, the server's TCP side is listening, yet no query arrived over TCP (the exchange returned: message=%v err=%v)", what, m != nil, err)
				}
				for _, tq := range tcpQ {
					if string(tq) != string(q) {
						t.Fatalf("%s: the TCP leg sent a different query", what)
					}
				}
				if m == nil {
					t.Fatalf("%s: the TCP side answered, the caller got no message: %v", what, err)
				}
			} else if m != nil && err == nil && len(tcpQ) == 0 {
				t.Fatalf("%s: a message was returned although nothing could be asked over TCP", what)
			}
		}
		srv.stopTCP()
		down := rapid.IntRange(1, 3).Draw(t, "exchangesWhileTcpIsDown")
		for i := 0; i < down; i++ {
			one(false, fmt.Sprintf("exchange %d with the TCP side down", i))
		}
		if err := srv.startTCP(); err != nil {
			vfkit.Inconclusive("C16: cannot listen again on %s: %v", srv.addr, err)
		}
		gap := time.Duration(rapid.SampledFrom([]int{0, 0, 5, 100, 400, 900}).Draw(t, "gapMs")) * time.Millisecond
		time.Sleep(gap)
		up := rapid.IntRange(1, 3).Draw(t, "exchangesAfterTcpIsBack")
		for i := 0; i < up; i++ {
			one(true, fmt.Sprintf("exchange %d, %v after the TCP side came back (it had refused %d attempt(s))", i, gap, down))
		}
		st.Case(vfkit.Fingerprint(down, gap, up), true, []string{fmt.Sprintf("gap=%v", gap)}, func() any {
			return map[string]any{"exchanges_while_down": down, "gap_ms": gap.Milliseconds(), "exchanges_after": up}
		})
	})
}

// TestVfC16Burst: "whenever the UDP reply has TC set" also holds when many replies are truncated at once (a zone
// whose answers outgrew 512 octets, a resolver that truncates everything under attack). 2-200 exchanges start
// together on one udp upstream, every UDP reply has TC, and the TCP side holds its answers until it has seen every
// query (or 1.5 s have passed): each exchange must have sent its query over TCP and must return the TCP reply.
func TestVfC16Burst(t *testing.T) {
	st := vfkit.Stats("TestVfC16Burst", "2-200 exchanges started together on one udp upstream (a fresh server and upstream object per case), every UDP reply truncated, the TCP side answering only when all queries have arrived over TCP or after 1.5 s; oracle: every exchange's query reaches the TCP side unchanged and every exchange returns the TCP reply to its own query under its own ID, never a truncated message; non-trivial = more than 8 exchanges in the TCP leg at once")
	defer vfkit.Flush()
	rapid.Check(t, func(t *rapid.T) {
		srv := vfNewC16Server(t)
		defer srv.close()
		u, err := upstream.NewUpstream("udp://"+srv.addr, upstream.Opt{})
		if err != nil {
			t.Fatalf("NewUpstream: %v", err)
		}
		defer u.Close()
		n := rapid.OneOf(rapid.IntRange(2, 200), rapid.SampledFrom([]int{33, 63, 64, 65, 66, 100, 127, 128, 129, 200})).Draw(t, "exchanges")
		hold := make(chan struct{})
		srv.mu.Lock()
		srv.hold = hold
		srv.mu.Unlock()
		type ex struct {
			tok      uint32
			callerID uint16
			sc       *vfC16Script
			q, orig  []byte
			m        *dnsmsg.Msg
			err      error
		}
		exs := make([]*ex, n)
		for i := range exs {
			vfC16Tok++
			e := &ex{tok: vfC16Tok, callerID: uint16(rapid.IntRange(0, 65535).Draw(t, "callerID"))}
			e.sc = &vfC16Script{udpTC: true, udpToken: e.tok*2 + 1, tcpToken: e.tok * 2, tcp: "reply"}
			qm := &vfkit.Msg{ID: e.callerID, Bits: vfkit.BitRD, Q: []vfkit.Question{{Name: vfkit.Name{[]byte(fmt.Sprintf("t%d", e.tok)), []byte("c16")}, Type: 1, Class: 1}}}
			e.q, _ = vfkit.Encode(qm, vfkit.EncOpts{})
			e.orig = append([]byte(nil), e.q...)
			srv.mu.Lock()
			srv.scripts[e.tok] = e.sc
			srv.mu.Unlock()
			exs[i] = e
		}
		var wg sync.WaitGroup
		for _, e := range exs {
			wg.Add(1)
			go func(e *ex) {
				defer wg.Done()
				ctx, cancel := context.WithTimeout(context.Background(), 5*time.Second)
				defer cancel()
				e.m, e.err = u.ExchangeContext(ctx, e.q)
			}(e)
		}
		// release the TCP answers when every query has arrived over TCP, or after 1.5 s
		maxTogether := 0
		for until := time.Now().Add(1500 * time.Millisecond); time.Now().Before(until); time.Sleep(2 * time.Millisecond) {
			got := 0
			srv.mu.Lock()
			for _, e := range exs {
				if len(e.sc.tcpQueries) > 0 {
					got++
				}
			}
			srv.mu.Unlock()
			maxTogether = max(maxTogether, got)
			if got == n {
				break
			}
		}
		close(hold)
		wg.Wait()
		lost := 0
		for _, e := range exs {
			srv.mu.Lock()
			tcpQ := append([][]byte(nil), e.sc.tcpQueries...)
			udpN := e.sc.udpQueries
			srv.mu.Unlock()
			if udpN == 0 {
				lost++
				continue
			}
			if string(e.orig) != string(e.q) {
				t.Fatalf("query bytes modified")
			}
			if e.m != nil {
				if got, ok := vfMsgToken(e.m); (ok && got == e.sc.udpToken) || e.m.Header.Truncated {
					t.Fatalf("exchange %d of %d at once: the truncated UDP message was returned to the caller (token %d, TC=%v); %d queries had reached the TCP side when it started to answer", e.tok, n, got, e.m.Header.Truncated, maxTogether)
				}
			}
			if len(tcpQ) == 0 {
				t.Fatalf("exchange %d of %d at once: its UDP reply had TC but its query was never sent over TCP (err=%v)", e.tok, n, e.err)
			}
			for _, tq := range tcpQ {
				if string(tq) != string(e.orig) {
					t.Fatalf("the TCP leg sent a different query: %x, original %x", tq, e.orig)
				}
			}
			if e.err != nil || e.m == nil {
				t.Fatalf("exchange %d of %d at once: the TCP side answered its query but the exchange failed: %v", e.tok, n, e.err)
			}
			if got, ok := vfMsgToken(e.m); !ok || got != e.sc.tcpToken || e.m.Header.ID != e.callerID {
				t.Fatalf("exchange %d of %d at once did not get the TCP reply to its own query: token %d (want %d), id %d (want %d)", e.tok, n, got, e.sc.tcpToken, e.m.Header.ID, e.callerID)
			}
			dnsmsg.ReleaseMsg(e.m)
		}
		srv.mu.Lock()
		for _, e := range exs {
			delete(srv.scripts, e.tok)
		}
		srv.mu.Unlock()
		if lost > n/2 {
			vfkit.Inconclusive("C16 burst: %d of %d UDP queries never reached the fake server", lost, n)
		}
		st.Case(vfkit.Fingerprint(n, exs[0].callerID), maxTogether > 8, []string{fmt.Sprintf("together>64=%v", maxTogether > 64)}, func() any {
			return map[string]any{"exchanges": n, "in_the_tcp_leg_together": maxTogether, "udp_queries_lost": lost}
		})
	})
}
