package upstream_test

// C14 - upstream exchanges end by their deadline and survive stale connections.
// Fault enumeration against scripted fake servers on real loopback sockets, for every transport.

import (
	"context"
	"crypto/tls"
	"errors"
	"fmt"
	"net"
	"strings"
	"sync"
	"sync/atomic"
	"syscall"
	"testing"
	"time"

	"github.com/IrineSistiana/mosproxy/internal/dnsmsg"
	"github.com/IrineSistiana/mosproxy/internal/upstream"
	"pgregory.net/rapid"
	"vfkit"
)

var vfAllKinds = []string{"udp", "tcp", "tcp+pipeline", "tls", "tls+pipeline", "https", "h3", "quic"}

var (
	vfCAOnce sync.Once
	vfCA     *vfkit.CA
	vfLeaf   *vfkit.Leaf
	vfIPSeq  atomic.Uint32
)

func vfTLSMaterial() (*vfkit.CA, *vfkit.Leaf) {
	vfCAOnce.Do(func() {
		vfCA = vfkit.NewCA("vf upstream ca")
		vfLeaf = vfCA.Issue(vfkit.LeafOpts{IPs: []string{"127.0.0.1"}, DNSNames: []string{"up.vf.test"}})
	})
	return vfCA, vfLeaf
}

// vfUpstreamAddr is the NewUpstream address for a fake of the given kind.
func vfUpstreamAddr(kind string, port int) string {
	hp := fmt.Sprintf("127.0.0.1:%d", port)
	switch kind {
	case "udp":
		return "udp://" + hp
	case "https":
		return "https://" + hp + "/dns-query"
	case "h3":
		return "h3://" + hp + "/dns-query"
	}
	return kind + "://" + hp
}

func vfOKReply(q *vfkit.UpQuery) []byte {
	if q.Msg.Err != nil || len(q.Msg.Q) != 1 {
		return nil
	}
	m := &vfkit.Msg{ID: q.Msg.ID, Bits: vfkit.BitQR | vfkit.BitRD | vfkit.BitRA, Q: q.Msg.Q,
		An: []vfkit.RR{{Owner: q.Msg.Q[0].Name, Type: 1, Class: 1, TTL: 30, RData: []vfkit.RDPart{{Raw: []byte{192, 0, 2, 1}}}}}}
	w, _ := vfkit.Encode(m, vfkit.EncOpts{})
	return w
}

func vfNewUpstream(t vfFatal, kind string, port int, idle time.Duration) upstream.Upstream {
	ca, _ := vfTLSMaterial()
	u, err := upstream.NewUpstream(vfUpstreamAddr(kind, port), upstream.Opt{TLSConfig: &tls.Config{RootCAs: ca.Pool()}, IdleTimeout: idle})
	if err != nil {
		t.Fatalf("NewUpstream(%s): %v", kind, err)
	}
	return u
}

type vfFatal interface {
	Fatalf(string, ...any)
}

// vfClose closes an upstream with a watchdog: a Close that does not return is reported, not waited for.
func vfClose(u upstream.Upstream) bool {
	done := make(chan struct{})
	go func() { defer close(done); u.Close() }()
	select {
	case <-done:
		return true
	case <-time.After(3 * time.Second):
		return false
	}
}

func vfExchange(u upstream.Upstream, ctx context.Context, id uint16, name string) (ok bool, err error, took time.Duration) {
	start := time.Now()
	m, err := u.ExchangeContext(ctx, vfQueryMsg(id, name))
	took = time.Since(start)
	if m != nil {
		// C14 is about returning in time; whether the message is the right one is C05/C06's subject
		ok = true
		dnsmsg.ReleaseMsg(m)
	}
	return ok, err, took
}

func TestVfC14Faults(t *testing.T) {
	st := vfkit.Stats("TestVfC14Faults", "fault placements per transport (udp, tcp, tcp+pipeline, tls, tls+pipeline, https, h3, quic): on the first query of a fresh or a warmed-up (pooled) connection the scripted server does one of {silence, half length prefix, half body then stall, half body then FIN, garbage frame, wrong ID, FIN before reply, RST, HTTP 500, HTTP 200 with half of the announced body then nothing, refuse (closed port), never completes the TLS/QUIC handshake}; exchanges carry deadlines of 150-600 ms; oracle: every exchange returns by deadline + 2 s; non-trivial = any fault other than refuse")
	defer vfkit.Flush()
	_, leaf := vfTLSMaterial()
	seq := 0
	rapid.Check(t, func(t *rapid.T) {
		seq++
		kind := rapid.SampledFrom(vfAllKinds).Draw(t, "kind")
		faults := []string{"silence", "garbage", "wrong-id", "close-before", "refuse", "stall-handshake"}
		if kind != "udp" && kind != "https" && kind != "h3" {
			faults = append(faults, "half-prefix", "half-body-stall", "half-body-fin", "rst")
		}
		if kind == "https" || kind == "h3" {
			faults = append(faults, "http-500", "http-body-stall")
		}
		fault := rapid.SampledFrom(faults).Draw(t, "fault")
		warm := rapid.Bool().Draw(t, "warmPooledConnection")
		deadline := time.Duration(rapid.IntRange(150, 600).Draw(t, "deadlineMs")) * time.Millisecond
		var faulty atomic.Bool
		handler := func(q *vfkit.UpQuery) vfkit.UpAction {
			ok := vfOKReply(q)
			if !faulty.Load() {
				return vfkit.UpAction{Reply: ok}
			}
			switch fault {
			case "garbage":
				return vfkit.UpAction{Reply: []byte{q.Raw[0], q.Raw[1], 0x81, 0x80, 0xff, 0xff, 0xff, 0xff, 0, 0, 0, 0, 0xc0}}
			case "wrong-id":
				b := append([]byte(nil), ok...)
				if len(b) > 1 {
					b[0] ^= 0x55
				}
				return vfkit.UpAction{Reply: b}
			case "close-before":
				return vfkit.UpAction{CloseBefore: true}
			case "rst":
				return vfkit.UpAction{CloseBefore: true, Reset: true}
			case "half-prefix":
				return vfkit.UpAction{Reply: ok, RawStream: []byte{0x00}}
			case "half-body-stall":
				f := vfkit.Frame(ok)
				return vfkit.UpAction{Reply: ok, RawStream: f[:len(f)/2]}
			case "half-body-fin":
				f := vfkit.Frame(ok)
				return vfkit.UpAction{Reply: ok, RawStream: f[:len(f)/2], CloseAfter: true}
			case "http-500":
				return vfkit.UpAction{Reply: ok, HTTPStatus: 500}
			case "http-body-stall":
				return vfkit.UpAction{Reply: ok, HTTPStall: true}
			}
			return vfkit.UpAction{} // silence
		}
		serverKind := kind
		if fault == "stall-handshake" {
			// a peer that accepts / receives but never speaks the security protocol
			switch kind {
			case "tls", "tls+pipeline", "https":
				serverKind = "tcp"
			case "h3", "quic":
				serverKind = "udp"
			default:
				serverKind = "tcp" // for plain kinds: accepts and never answers
			}
			warm = false
		}
		srv, err := vfkit.StartUpstream(serverKind, "f", "127.0.0.1", 0, vfkit.ServerTLS(leaf), func(q *vfkit.UpQuery) vfkit.UpAction {
			if fault == "stall-handshake" {
				return vfkit.UpAction{}
			}
			return handler(q)
		})
		if err != nil {
			t.Fatalf("fake server: %v", err)
		}
		port := srv.Port
		if fault == "refuse" {
			srv.Close() // nothing listens there any more
			warm = false
		} else {
			defer srv.Close()
		}
		u := vfNewUpstream(t, kind, port, 0)
		defer func() {
			if !vfClose(u) {
				t.Fatalf("%s upstream: Close did not return within 3 s after fault %s", kind, fault)
			}
		}()
		if warm {
			ctx, cancel := context.WithTimeout(context.Background(), 3*time.Second)
			ok, err, _ := vfExchange(u, ctx, 1, "warm.c14")
			cancel()
			if !ok {
				t.Fatalf("%s upstream: warm-up exchange against a healthy server failed: %v", kind, err)
			}
		}
		faulty.Store(true)
		ctx, cancel := context.WithTimeout(context.Background(), deadline)
		ok, exErr, took := vfExchange(u, ctx, 2, "fault.c14")
		cancel()
		if took > deadline+2*time.Second {
			t.Fatalf("%s upstream, fault %s (pooled connection: %v): exchange with a %v deadline returned after %v (ok=%v err=%v)", kind, fault, warm, deadline, took, ok, exErr)
		}
		if !ok && exErr == nil {
			t.Fatalf("%s upstream, fault %s: neither a valid reply nor an error", kind, fault)
		}
		st.Case(vfkit.Fingerprint(kind, fault, warm, deadline), fault != "refuse", []string{"kind=" + kind, "fault=" + fault, fmt.Sprintf("pooled=%v", warm)}, func() any {
			return map[string]any{"kind": kind, "fault": fault, "pooled": warm, "deadline_ms": deadline.Milliseconds(), "took_ms": took.Milliseconds(), "ok": ok, "err": fmt.Sprint(exErr)}
		})
	})
}

func TestVfC14Stale(t *testing.T) {
	st := vfkit.Stats("TestVfC14Stale", "per connection-oriented transport: after a successful exchange the server kills the pooled idle connection(s) by FIN or RST (quic also: keeps them open but resets every new stream on them; stream kinds also: answers the next query on them with the first octets of a reply and then closes), 0 us-50 ms before the next call, and stays healthy, 1-40 rounds per case; oracle: the next exchange succeeds within its 3 s deadline using at most 7 new connections; and a server that kills every connection on the first query yields an error with at most 7 connections per exchange; non-trivial = every case")
	defer vfkit.Flush()
	_, leaf := vfTLSMaterial()
	rapid.Check(t, func(t *rapid.T) {
		kind := rapid.SampledFrom([]string{"tcp", "tcp+pipeline", "tls", "tls+pipeline", "https", "quic", "h3"}).Draw(t, "kind")
		mode := rapid.SampledFrom([]string{"stale-fin", "stale-rst", "always-kill"}).Draw(t, "mode")
		if (kind == "tcp" || kind == "tls" || kind == "tcp+pipeline" || kind == "tls+pipeline") && rapid.IntRange(0, 3).Draw(t, "halfReplies") == 0 {
			// the pooled connections stay open, but on each of them the server answers the next query with the beginning
			// of a reply (1, 2, 3 or 9 octets) and then closes; connections dialled afterwards are served
			mode = "stale-half-reply"
		}
		idle := time.Duration(0)
		if (kind == "tcp+pipeline" || kind == "tls+pipeline") && mode != "stale-half-reply" && rapid.IntRange(0, 2).Draw(t, "silentConnections") == 1 {
			// the pooled connection stays open and takes queries, but the server answers nothing on it any more (idle_timeout
			// 300 ms: a connection that stays silent that long while a query waits is given up, and the query asked again
			// on a new connection, which is served)
			mode, idle = "stale-silent", 300*time.Millisecond
		}
		if kind == "quic" && rapid.Bool().Draw(t, "streamResets") {
			// the pooled connection stays open, but the server refuses every new stream on it (it is draining that
			// connection); connections dialled afterwards are served
			mode = "stale-stream-reset"
		}
		var killAll atomic.Bool
		var halfReplyUpTo, halfReplyOctets, silentUpTo atomic.Int64
		// the pool may hold more than one idle connection: "pool.c14" queries are held until poolSize of them have arrived,
		// so that as many connections are open at once (on the kinds that use a connection per exchange)
		poolSize := rapid.SampledFrom([]int{1, 1, 1, 2, 4, 8, 12}).Draw(t, "idleConnections")
		var poolArrived atomic.Int32
		poolGate := make(chan struct{})
		var poolOnce sync.Once
		srv, err := vfkit.StartUpstream(kind, "s", "127.0.0.1", 0, vfkit.ServerTLS(leaf), func(q *vfkit.UpQuery) vfkit.UpAction {
			if killAll.Load() {
				return vfkit.UpAction{CloseBefore: true}
			}
			if up := silentUpTo.Load(); up > 0 && q.ConnID <= up {
				return vfkit.UpAction{} // a connection from before: silence
			}
			if up := halfReplyUpTo.Load(); up > 0 && q.ConnID <= up {
				// a connection from before: the server starts its reply and hangs up in the middle of it
				f := vfkit.Frame(vfOKReply(q))
				return vfkit.UpAction{RawStream: f[:min(int(halfReplyOctets.Load()), len(f)-1)], CloseAfter: true}
			}
			if q.Msg.Err == nil && len(q.Msg.Q) == 1 && string(q.Msg.Q[0].Name[0]) == "pool" {
				if int(poolArrived.Add(1)) >= poolSize {
					poolOnce.Do(func() { close(poolGate) })
				}
				return vfkit.UpAction{Reply: vfOKReply(q), Gate: poolGate}
			}
			return vfkit.UpAction{Reply: vfOKReply(q)}
		})
		if err != nil {
			t.Fatalf("fake server: %v", err)
		}
		defer srv.Close()
		u := vfNewUpstream(t, kind, srv.Port, idle)
		defer vfClose(u)
		warmN := rapid.IntRange(1, 3).Draw(t, "warmExchanges")
		for i := 0; i < warmN; i++ {
			ctx, cancel := context.WithTimeout(context.Background(), 3*time.Second)
			ok, err, _ := vfExchange(u, ctx, uint16(10+i), "warm.c14")
			cancel()
			if !ok {
				t.Fatalf("%s: warm-up exchange failed: %v", kind, err)
			}
		}
		if poolSize > 1 {
			var pw sync.WaitGroup
			for i := 0; i < poolSize; i++ {
				pw.Add(1)
				go func(i int) {
					defer pw.Done()
					ctx, cancel := context.WithTimeout(context.Background(), 3*time.Second)
					vfExchange(u, ctx, uint16(40+i), "pool.c14")
					cancel()
				}(i)
			}
			go func() { time.Sleep(time.Second); poolOnce.Do(func() { close(poolGate) }) }()
			pw.Wait()
		}
		before := srv.Conns()
		switch mode {
		case "stale-fin", "stale-rst", "stale-stream-reset", "stale-half-reply", "stale-silent":
			// several rounds per case: kill, wait 0 .. 50 ms (mostly next to nothing, so that the next exchange meets the
			// connection while the client side is still finding out), exchange - which is also the warm-up of the next round
			rounds := rapid.IntRange(1, 40).Draw(t, "rounds")
			if mode == "stale-silent" {
				rounds = min(rounds, 4) // each round waits for the idle time-out
			}
			for r := 0; r < rounds; r++ {
				before = srv.Conns()
				killed := 0
				if mode == "stale-stream-reset" {
					srv.ResetStreamsOnLiveConns()
				} else if mode == "stale-silent" {
					silentUpTo.Store(srv.LastConnID())
				} else if mode == "stale-half-reply" {
					halfReplyOctets.Store(int64(rapid.SampledFrom([]int{1, 2, 3, 9}).Draw(t, "replyOctetsBeforeTheClose")))
					halfReplyUpTo.Store(srv.LastConnID())
				} else {
					killed = srv.KillConns(mode == "stale-rst")
				}
				gap := time.Duration(rapid.SampledFrom([]int{0, 0, 0, 20, 60, 150, 400, 1000, 5000, 50000}).Draw(t, "gapMicros")) * time.Microsecond
				if gap > 0 {
					time.Sleep(gap)
				}
				ctx, cancel := context.WithTimeout(context.Background(), 3*time.Second)
				ok, err, took := vfExchange(u, ctx, uint16(99+r), "after-kill.c14")
				cancel()
				dials := srv.Conns() - before
				if !ok {
					t.Fatalf("%s: the server closed %d pooled idle connection(s) (%s, round %d, %v before the call) and stayed healthy, but the next exchange failed after %v: %v", kind, killed, mode, r, gap, took, err)
				}
				if dials > 7 {
					t.Fatalf("%s: %d new connections for one exchange after a stale pooled connection", kind, dials)
				}
			}
		default:
			killAll.Store(true)
			ctx, cancel := context.WithTimeout(context.Background(), 3*time.Second)
			ok, err, took := vfExchange(u, ctx, 98, "always-kill.c14")
			cancel()
			dials := srv.Conns() - before
			if ok {
				t.Fatalf("%s: exchange succeeded although the server kills every connection", kind)
			}
			if err == nil {
				t.Fatalf("%s: no error", kind)
			}
			if dials > 7 {
				t.Fatalf("%s: %d connections were dialled for one exchange against a server that kills every connection (unbounded retry?)", kind, dials)
			}
			if took > 5*time.Second {
				t.Fatalf("%s: returned after %v with a 3 s deadline", kind, took)
			}
		}
		st.Case(vfkit.Fingerprint(kind, mode, warmN), true, []string{"kind=" + kind, "mode=" + mode}, func() any {
			return map[string]any{"kind": kind, "mode": mode, "new_connections": srv.Conns() - before}
		})
	})
}

func TestVfC14MassWake(t *testing.T) {
	st := vfkit.Stats("TestVfC14MassWake", "n in 2..40 (one case in three 65..200, i.e. more than one pipelined connection holds) exchanges with 5 s deadlines wait on multiplexed connections (tcp+pipeline, tls+pipeline, quic) whose replies the server holds; the server then kills its connections; oracle: all n exchanges return (error, or success through a retry on a new connection) within 1.5 s of the kill; non-trivial = every case")
	defer vfkit.Flush()
	_, leaf := vfTLSMaterial()
	rapid.Check(t, func(t *rapid.T) {
		kind := rapid.SampledFrom([]string{"tcp+pipeline", "tls+pipeline", "quic"}).Draw(t, "kind")
		// (beyond 64 the pipelined transports spread the exchanges over several connections - all of them are killed)
		n := rapid.OneOf(rapid.IntRange(2, 40), rapid.IntRange(2, 40), rapid.IntRange(65, 200)).Draw(t, "n")
		gate := make(chan struct{})
		var arrived atomic.Int32
		var released atomic.Bool
		srv, err := vfkit.StartUpstream(kind, "m", "127.0.0.1", 0, vfkit.ServerTLS(leaf), func(q *vfkit.UpQuery) vfkit.UpAction {
			if released.Load() || (q.Msg.Err == nil && len(q.Msg.Q) == 1 && strings.HasPrefix(string(q.Msg.Q[0].Name[0]), "warm")) {
				return vfkit.UpAction{Reply: vfOKReply(q)}
			}
			arrived.Add(1)
			return vfkit.UpAction{Reply: vfOKReply(q), Gate: gate}
		})
		if err != nil {
			t.Fatalf("fake server: %v", err)
		}
		defer srv.Close()
		u := vfNewUpstream(t, kind, srv.Port, 0)
		defer vfClose(u)
		ctx0, c0 := context.WithTimeout(context.Background(), 3*time.Second)
		if ok, err, _ := vfExchange(u, ctx0, 1, "warm.c14"); !ok {
			t.Fatalf("%s: warm-up failed: %v", kind, err)
		}
		c0()
		type res struct {
			ok   bool
			err  error
			done time.Time
		}
		results := make(chan res, n)
		for i := 0; i < n; i++ {
			go func(i int) {
				ctx, cancel := context.WithTimeout(context.Background(), 5*time.Second)
				defer cancel()
				ok, err, _ := vfExchange(u, ctx, uint16(100+i), fmt.Sprintf("w%d.c14", i))
				results <- res{ok, err, time.Now()}
			}(i)
		}
		wait := time.Now().Add(time.Second)
		for int(arrived.Load()) < n && time.Now().Before(wait) {
			time.Sleep(time.Millisecond)
		}
		waiting := arrived.Load()
		killAt := time.Now()
		released.Store(true)
		srv.KillConns(rapid.Bool().Draw(t, "rst"))
		close(gate)
		for i := 0; i < n; i++ {
			select {
			case r := <-results:
				if d := r.done.Sub(killAt); d > 1500*time.Millisecond {
					t.Fatalf("%s: an exchange waiting on the killed connection returned only %v after the connection died (ok=%v err=%v); %d were waiting", kind, d, r.ok, r.err, waiting)
				}
				if !r.ok && r.err == nil {
					t.Fatalf("%s: neither reply nor error", kind)
				}
			case <-time.After(6 * time.Second):
				t.Fatalf("%s: %d of %d exchanges never returned after their connection died", kind, n-i, n)
			}
		}
		st.Case(vfkit.Fingerprint(kind, n, waiting), true, []string{"kind=" + kind}, func() any {
			return map[string]any{"kind": kind, "n": n, "waiting_at_kill": waiting}
		})
	})
	_ = errors.New
	_ = net.IPv4zero
}

// TestVfC14Saturated: the probe's deadline must hold while the shared transport is saturated by other exchanges whose
// replies the server withholds - all stream credit of a QUIC connection used up, a full pipeline, every pooled
// connection busy. "Accepts and stays silent" is then true for the blockers, and the probe must not inherit their wait.
func TestVfC14Saturated(t *testing.T) {
	st := vfkit.Stats("TestVfC14Saturated", "b in 1..24 blocker exchanges (4 s deadlines, replies withheld by the server) saturate one upstream of every kind; quic / h3 servers grant 1, 2, 4 or unlimited concurrent streams; then a probe with a 100-400 ms deadline; oracle: the probe returns by its deadline + 1.2 s, blockers return by theirs + 1.2 s, a later exchange after the release is answered; non-trivial = blockers >= stream credit (quic, h3) or b >= 2")
	defer vfkit.Flush()
	_, leaf := vfTLSMaterial()
	rapid.Check(t, func(t *rapid.T) {
		kind := rapid.SampledFrom(vfAllKinds).Draw(t, "kind")
		b := rapid.IntRange(1, 24).Draw(t, "blockers")
		credit := int64(0)
		if kind == "quic" || kind == "h3" {
			credit = rapid.SampledFrom([]int64{1, 2, 4, 0}).Draw(t, "streamCredit")
		}
		deadline := time.Duration(rapid.IntRange(100, 400).Draw(t, "deadlineMs")) * time.Millisecond
		gate := make(chan struct{})
		var arrived atomic.Int32
		var released atomic.Bool
		srv, err := vfkit.StartUpstreamWith(kind, "s", "127.0.0.1", 0, vfkit.ServerTLS(leaf), func(q *vfkit.UpQuery) vfkit.UpAction {
			if released.Load() || (q.Msg.Err == nil && len(q.Msg.Q) == 1 && strings.HasPrefix(string(q.Msg.Q[0].Name[0]), "warm")) {
				return vfkit.UpAction{Reply: vfOKReply(q)}
			}
			arrived.Add(1)
			return vfkit.UpAction{Reply: vfOKReply(q), Gate: gate}
		}, vfkit.UpOpts{QUICMaxStreams: credit})
		if err != nil {
			t.Fatalf("fake server: %v", err)
		}
		defer srv.Close()
		u := vfNewUpstream(t, kind, srv.Port, 0)
		defer func() {
			if !vfClose(u) {
				t.Fatalf("%s upstream: Close did not return within 3 s", kind)
			}
		}()
		ctx0, c0 := context.WithTimeout(context.Background(), 3*time.Second)
		if ok, err, _ := vfExchange(u, ctx0, 1, "warm.c14"); !ok {
			c0()
			t.Fatalf("%s: warm-up failed: %v", kind, err)
		}
		c0()
		const blockerDeadline = 4 * time.Second
		type res struct {
			took time.Duration
			ok   bool
			err  error
		}
		bres := make(chan res, b)
		for i := 0; i < b; i++ {
			go func(i int) {
				ctx, cancel := context.WithTimeout(context.Background(), blockerDeadline)
				defer cancel()
				ok, err, took := vfExchange(u, ctx, uint16(100+i), fmt.Sprintf("b%d.c14", i))
				bres <- res{took, ok, err}
			}(i)
		}
		// let the blockers reach the server (those beyond the stream credit cannot)
		want := int32(b)
		if credit > 0 && int64(b) > credit {
			want = int32(credit)
		}
		wait := time.Now().Add(800 * time.Millisecond)
		for arrived.Load() < want && time.Now().Before(wait) {
			time.Sleep(time.Millisecond)
		}
		ctx, cancel := context.WithTimeout(context.Background(), deadline)
		ok, exErr, took := vfExchange(u, ctx, 7, "probe.c14")
		cancel()
		if took > deadline+1200*time.Millisecond {
			t.Fatalf("%s upstream saturated by %d unanswered exchanges (server stream credit %d): the probe with a %v deadline returned after %v (ok=%v err=%v)", kind, b, credit, deadline, took, ok, exErr)
		}
		if !ok && exErr == nil {
			t.Fatalf("%s: neither reply nor error for the probe", kind)
		}
		released.Store(true)
		close(gate)
		for i := 0; i < b; i++ {
			select {
			case r := <-bres:
				if r.took > blockerDeadline+1200*time.Millisecond {
					t.Fatalf("%s: a blocker with a %v deadline returned after %v", kind, blockerDeadline, r.took)
				}
			case <-time.After(blockerDeadline + 3*time.Second):
				t.Fatalf("%s: %d of %d blocker exchanges never returned", kind, b-i, b)
			}
		}
		// the transport is usable again once the server has handed the stream credit back (a MAX_STREAMS frame that
		// follows the closed streams after a round trip - seconds on a machine that is busy with other checks): allow 15 s for
		// that, then it counts as wedged (a wedged transport stays wedged, so the bound costs nothing in sensitivity)
		var ok2 bool
		var err2 error
		for until := time.Now().Add(15 * time.Second); ; {
			ctx2, c2 := context.WithTimeout(context.Background(), 3*time.Second)
			ok2, err2, _ = vfExchange(u, ctx2, 9, "after.c14")
			c2()
			if ok2 || time.Now().After(until) {
				break
			}
			time.Sleep(20 * time.Millisecond)
		}
		if !ok2 {
			t.Fatalf("%s: no exchange succeeded within 15 s after the saturation was released (%d blockers, credit %d): %v", kind, b, credit, err2)
		}
		nontrivial := b >= 2
		if credit > 0 {
			nontrivial = int64(b) >= credit
		}
		st.Case(vfkit.Fingerprint(kind, b, credit, deadline), nontrivial, []string{"kind=" + kind, fmt.Sprintf("credit=%d", credit)}, func() any {
			return map[string]any{"kind": kind, "blockers": b, "credit": credit, "deadline_ms": deadline.Milliseconds(), "probe_took_ms": took.Milliseconds(), "probe_ok": ok}
		})
	})
}

// TestVfC14WriteStall: a server that stops reading. Queries of 60 KiB keep being written until the socket buffers of
// the shared (or each) connection are full and the writes block; every exchange must still end by its own deadline.
func TestVfC14WriteStall(t *testing.T) {
	st := vfkit.Stats("TestVfC14WriteStall", "stream transports (tcp, tcp+pipeline, tls, tls+pipeline): after a warm-up exchange the server stops reading; 8-60 exchanges with 60 KiB queries and 0.5-1.5 s deadlines are started on sockets with an 8 KiB send buffer (on a pipelined connection the send path blocks after two or three of them), then a small probe with a 100-400 ms deadline; oracle: every exchange returns by its deadline + 3 s of scheduling slack (hundreds of exchanges start at once), and after the server resumes reading a new exchange is answered within 3 s; non-trivial = pipelined kind")
	defer vfkit.Flush()
	_, leaf := vfTLSMaterial()
	rapid.Check(t, func(t *rapid.T) {
		kind := rapid.SampledFrom([]string{"tcp", "tcp+pipeline", "tls", "tls+pipeline"}).Draw(t, "kind")
		// The upstream's sockets get a small send buffer (through the Control option the upstream package offers), so that
		// a handful of 60 KiB queries fills send and receive buffers and the write really blocks - independent of how far
		// the kernel would auto-tune the buffers on this machine.
		n := rapid.SampledFrom([]int{8, 20, 60}).Draw(t, "bigQueries")
		// scheduling slack: hundreds of goroutines with 60 KiB payloads (and TLS) are started at once on a machine that
		// may be busy; the defect this test is after blocks until the connection's idle time-out, many seconds later
		const slack = 3 * time.Second
		bigDeadline := time.Duration(rapid.IntRange(500, 1500).Draw(t, "bigDeadlineMs")) * time.Millisecond
		probeDeadline := time.Duration(rapid.IntRange(100, 400).Draw(t, "probeDeadlineMs")) * time.Millisecond
		srv, err := vfkit.StartUpstream(kind, "w", "127.0.0.1", 0, vfkit.ServerTLS(leaf), func(q *vfkit.UpQuery) vfkit.UpAction {
			return vfkit.UpAction{Reply: vfOKReply(q)}
		})
		if err != nil {
			t.Fatalf("fake server: %v", err)
		}
		defer srv.Close()
		ca, _ := vfTLSMaterial()
		u, err := upstream.NewUpstream(vfUpstreamAddr(kind, srv.Port), upstream.Opt{TLSConfig: &tls.Config{RootCAs: ca.Pool()},
			Control: func(network, address string, c syscall.RawConn) error {
				return c.Control(func(fd uintptr) { syscall.SetsockoptInt(int(fd), syscall.SOL_SOCKET, syscall.SO_SNDBUF, 8192) })
			}})
		if err != nil {
			t.Fatalf("NewUpstream(%s): %v", kind, err)
		}
		defer func() {
			srv.StopReading.Store(false)
			if !vfClose(u) {
				t.Fatalf("%s upstream: Close did not return within 3 s", kind)
			}
		}()
		ctx0, c0 := context.WithTimeout(context.Background(), 3*time.Second)
		if ok, err, _ := vfExchange(u, ctx0, 1, "warm.c14"); !ok {
			c0()
			t.Fatalf("%s: warm-up failed: %v", kind, err)
		}
		c0()
		srv.StopReading.Store(true)
		big := func(id uint16) []byte {
			m := &vfkit.Msg{ID: id, Bits: vfkit.BitRD, Q: []vfkit.Question{{Name: vfkit.Name{[]byte(fmt.Sprintf("big%d", id)), []byte("c14")}, Type: 1, Class: 1}},
				Ar: []vfkit.RR{{Type: 65280, Class: 1, RData: []vfkit.RDPart{{Raw: make([]byte, 60000)}}}}}
			w, _ := vfkit.Encode(m, vfkit.EncOpts{})
			return w
		}
		type res struct {
			took time.Duration
			err  error
		}
		results := make(chan res, n)
		for i := 0; i < n; i++ {
			go func(i int) {
				ctx, cancel := context.WithTimeout(context.Background(), bigDeadline)
				defer cancel()
				start := time.Now()
				m, err := u.ExchangeContext(ctx, big(uint16(100+i)))
				if m != nil {
					dnsmsg.ReleaseMsg(m)
				}
				results <- res{time.Since(start), err}
			}(i)
		}
		time.Sleep(time.Duration(rapid.IntRange(0, 200).Draw(t, "probeAfterMs")) * time.Millisecond)
		ctx, cancel := context.WithTimeout(context.Background(), probeDeadline)
		ok, exErr, took := vfExchange(u, ctx, 7, "probe.c14")
		cancel()
		if took > probeDeadline+slack {
			t.Fatalf("%s upstream whose server stopped reading (%d queries of 60 KiB backed up): the probe with a %v deadline returned after %v (ok=%v err=%v)", kind, n, probeDeadline, took, ok, exErr)
		}
		for i := 0; i < n; i++ {
			select {
			case r := <-results:
				if r.took > bigDeadline+slack {
					t.Fatalf("%s upstream whose server stopped reading: an exchange with a %v deadline returned after %v (%v)", kind, bigDeadline, r.took, r.err)
				}
			case <-time.After(bigDeadline + slack + 2*time.Second):
				t.Fatalf("%s upstream whose server stopped reading: %d of %d exchanges never returned (deadline %v)", kind, n-i, n, bigDeadline)
			}
		}
		srv.StopReading.Store(false)
		var ok2 bool
		var err2 error
		for until := time.Now().Add(3 * time.Second); ; {
			ctx2, c2 := context.WithTimeout(context.Background(), 2*time.Second)
			ok2, err2, _ = vfExchange(u, ctx2, 9, "after.c14")
			c2()
			if ok2 || time.Now().After(until) {
				break
			}
			time.Sleep(20 * time.Millisecond)
		}
		if !ok2 {
			t.Fatalf("%s: no exchange succeeded within 3 s after the server resumed reading: %v", kind, err2)
		}
		st.Case(vfkit.Fingerprint(kind, n, bigDeadline, probeDeadline), strings.Contains(kind, "pipeline"), []string{"kind=" + kind}, func() any {
			return map[string]any{"kind": kind, "big_queries": n, "probe_took_ms": took.Milliseconds(), "probe_ok": ok}
		})
	})
}

// TestVfC14UdpServerRestart: the datagram transport's "connection" dies too - an ICMP port unreachable turns the next
// read on the connected socket into ECONNREFUSED. Exchanges waiting on it fail promptly, and once the server is back on
// its port the upstream works again: a dead socket that stays in the pool would swallow every later query.
func TestVfC14UdpServerRestart(t *testing.T) {
	st := vfkit.Stats("TestVfC14UdpServerRestart", "udp upstream on real loopback sockets: 1-3 warm exchanges, the server goes away (port closed), 1-4 exchanges with 1-2 s deadlines meet the closed port (sequentially or together), the server comes back on the same port after 0-300 ms; oracles: every exchange against the closed port returns an error and none later than its deadline + 1.2 s, at least one of them well before its deadline (the port-unreachable error is a dead connection, not silence), and after the restart an exchange succeeds within 3 attempts of 1 s; non-trivial = every case")
	defer vfkit.Flush()
	rapid.Check(t, func(t *rapid.T) {
		handler := func(q *vfkit.UpQuery) vfkit.UpAction { return vfkit.UpAction{Reply: vfOKReply(q)} }
		srv, err := vfkit.StartUpstream("udp", "s", "127.0.0.1", 0, nil, handler)
		if err != nil {
			t.Fatalf("fake server: %v", err)
		}
		port := srv.Port
		closed := false
		defer func() {
			if !closed {
				srv.Close()
			}
		}()
		u := vfNewUpstream(t, "udp", port, 0)
		defer vfClose(u)
		for i, n := 0, rapid.IntRange(1, 3).Draw(t, "warmExchanges"); i < n; i++ {
			ctx, cancel := context.WithTimeout(context.Background(), 3*time.Second)
			ok, err, _ := vfExchange(u, ctx, uint16(10+i), "warm.c14")
			cancel()
			if !ok {
				t.Fatalf("warm-up exchange failed: %v", err)
			}
		}
		srv.Close()
		closed = true
		time.Sleep(time.Duration(rapid.SampledFrom([]int{0, 1, 20}).Draw(t, "afterCloseMs")) * time.Millisecond)
		k := rapid.IntRange(1, 4).Draw(t, "exchangesAgainstClosedPort")
		together := rapid.Bool().Draw(t, "together")
		deadline := time.Duration(rapid.SampledFrom([]int{1000, 1500, 2000}).Draw(t, "deadlineMs")) * time.Millisecond
		type res struct {
			ok   bool
			err  error
			took time.Duration
		}
		out := make(chan res, k)
		one := func(i int) {
			ctx, cancel := context.WithTimeout(context.Background(), deadline)
			ok, err, took := vfExchange(u, ctx, uint16(50+i), "down.c14")
			cancel()
			out <- res{ok, err, took}
		}
		for i := 0; i < k; i++ {
			if together {
				go one(i)
			} else {
				one(i)
			}
		}
		fastest := time.Hour
		for i := 0; i < k; i++ {
			r := <-out
			if r.ok || r.err == nil {
				t.Fatalf("an exchange against a closed port returned ok=%v err=%v", r.ok, r.err)
			}
			if r.took > deadline+1200*time.Millisecond {
				t.Fatalf("an exchange with a %v deadline against a closed port returned after %v", deadline, r.took)
			}
			if r.took < fastest {
				fastest = r.took
			}
		}
		if fastest > deadline-300*time.Millisecond {
			t.Fatalf("the server's port was closed (ICMP port unreachable on loopback), yet each of the %d exchanges sat out its %v deadline (fastest %v): the dead connection was not noticed", k, deadline, fastest)
		}
		time.Sleep(time.Duration(rapid.SampledFrom([]int{0, 5, 300}).Draw(t, "downForMs")) * time.Millisecond)
		srv2, err := vfkit.StartUpstream("udp", "s", "127.0.0.1", port, nil, handler)
		if err != nil {
			vfkit.Inconclusive("cannot rebind 127.0.0.1:%d: %v", port, err)
		}
		defer srv2.Close()
		var lastErr error
		okAfter := false
		for attempt := 0; attempt < 3 && !okAfter; attempt++ {
			ctx, cancel := context.WithTimeout(context.Background(), time.Second)
			okAfter, lastErr, _ = vfExchange(u, ctx, uint16(90+attempt), "back.c14")
			cancel()
		}
		if !okAfter {
			t.Fatalf("the server is back on port %d, but three exchanges of 1 s each failed (last error: %v): the upstream keeps using a dead socket", port, lastErr)
		}
		st.Case(vfkit.Fingerprint(k, together, deadline), true, []string{fmt.Sprintf("together=%v", together)}, func() any {
			return map[string]any{"exchanges_against_closed_port": k, "together": together, "deadline_ms": deadline.Milliseconds(), "fastest_failure_ms": fastest.Milliseconds()}
		})
	})
}

// TestVfC14LocalSocketBroken: a pooled connection can also die on the proxy's own side - the kernel refuses to send on
// it although the server is healthy and nothing arrives that would tell the reader. The harness keeps a duplicate of
// the descriptor of every socket the upstream opens (through the Control option the package offers) and shuts the
// sending direction of the pooled ones down: every later write on them fails (EPIPE), reads stay quiet (udp) or see
// the peer's answer to the FIN (stream). The failure is on a connection reused from the pool and a healthy server is
// reachable, so the next exchange has to succeed, on a new socket, with a bounded number of attempts.
func TestVfC14LocalSocketBroken(t *testing.T) {
	st := vfkit.Stats("TestVfC14LocalSocketBroken", "udp / tcp / tcp+pipeline / tls / tls+pipeline upstreams on loopback sockets: 1-3 warm exchanges, then the sending direction of every pooled socket is shut down from the proxy's side (shutdown(SHUT_WR) on a duplicate of the descriptor: later sends fail with EPIPE, nothing is received on udp), 0-20 ms later 1-3 exchanges with a 3 s deadline, sequentially or together, over 1-6 rounds; oracle: every one of them succeeds (the server is healthy and reachable) and at most 7 new sockets are opened per exchange; non-trivial = every case")
	defer vfkit.Flush()
	_, leaf := vfTLSMaterial()
	rapid.Check(t, func(t *rapid.T) {
		kind := rapid.SampledFrom([]string{"udp", "udp", "tcp", "tcp+pipeline", "tls", "tls+pipeline"}).Draw(t, "kind")
		srv, err := vfkit.StartUpstream(kind, "s", "127.0.0.1", 0, vfkit.ServerTLS(leaf), func(q *vfkit.UpQuery) vfkit.UpAction {
			return vfkit.UpAction{Reply: vfOKReply(q)}
		})
		if err != nil {
			t.Fatalf("fake server: %v", err)
		}
		defer srv.Close()
		var mu sync.Mutex
		var dups []int
		opened := 0
		defer func() {
			mu.Lock()
			for _, fd := range dups {
				syscall.Close(fd)
			}
			mu.Unlock()
		}()
		ca, _ := vfTLSMaterial()
		u, err := upstream.NewUpstream(vfUpstreamAddr(kind, srv.Port), upstream.Opt{TLSConfig: &tls.Config{RootCAs: ca.Pool()},
			Control: func(network, address string, c syscall.RawConn) error {
				return c.Control(func(fd uintptr) {
					if d, err := syscall.Dup(int(fd)); err == nil {
						mu.Lock()
						dups = append(dups, d)
						opened++
						mu.Unlock()
					}
				})
			}})
		if err != nil {
			t.Fatalf("NewUpstream(%s): %v", kind, err)
		}
		defer vfClose(u)
		for i, n := 0, rapid.IntRange(1, 3).Draw(t, "warmExchanges"); i < n; i++ {
			ctx, cancel := context.WithTimeout(context.Background(), 3*time.Second)
			ok, err, _ := vfExchange(u, ctx, uint16(10+i), "warm.c14")
			cancel()
			if !ok {
				t.Fatalf("%s: warm-up exchange failed: %v", kind, err)
			}
		}
		rounds := rapid.IntRange(1, 6).Draw(t, "rounds")
		for r := 0; r < rounds; r++ {
			mu.Lock()
			broken := len(dups)
			for _, fd := range dups {
				syscall.Shutdown(fd, syscall.SHUT_WR)
				syscall.Close(fd)
			}
			dups = nil
			before := opened
			mu.Unlock()
			time.Sleep(time.Duration(rapid.SampledFrom([]int{0, 0, 1, 20}).Draw(t, "gapMs")) * time.Millisecond)
			k := rapid.IntRange(1, 3).Draw(t, "exchanges")
			together := rapid.Bool().Draw(t, "together")
			type res struct {
				ok   bool
				err  error
				took time.Duration
			}
			out := make(chan res, k)
			one := func(i int) {
				ctx, cancel := context.WithTimeout(context.Background(), 3*time.Second)
				ok, err, took := vfExchange(u, ctx, uint16(100+10*r+i), "after-shutdown.c14")
				cancel()
				out <- res{ok, err, took}
			}
			for i := 0; i < k; i++ {
				if together {
					go one(i)
				} else {
					one(i)
				}
			}
			for i := 0; i < k; i++ {
				x := <-out
				if !x.ok {
					t.Fatalf("%s: the sending direction of the %d pooled socket(s) was shut down on the proxy's side (round %d), the server is healthy; an exchange with a 3 s deadline failed after %v: %v", kind, broken, r, x.took, x.err)
				}
			}
			mu.Lock()
			newSockets := opened - before
			mu.Unlock()
			if newSockets > 7*k {
				t.Fatalf("%s: %d new sockets for %d exchanges after the pooled ones broke", kind, newSockets, k)
			}
		}
		st.Case(vfkit.Fingerprint(kind, rounds), true, []string{"kind=" + kind}, func() any {
			return map[string]any{"kind": kind, "rounds": rounds, "sockets_opened": opened}
		})
	})
}
