package upstream_test

// C17 (addressing) - peers are reached exactly as configured.
// The (network, address) handed to Opt.Control on the first dial is compared with a reference table;
// the callback aborts the dial, so no listener is needed. QUIC-based upstreams are observed through
// the UDP datagram that arrives on a harness socket bound to the expected address. Domain names
// resolve through a harness DNS server installed as net.DefaultResolver.

import (
	"context"
	"crypto/tls"
	"encoding/binary"
	"errors"
	"fmt"
	"github.com/quic-go/quic-go"
	"net"
	"net/http"
	"net/netip"
	"strings"
	"sync"
	"sync/atomic"
	"syscall"
	"testing"
	"time"

	"github.com/IrineSistiana/mosproxy/internal/upstream"
	"github.com/miekg/dns"
	"pgregory.net/rapid"
	"vfkit"
)

var errVfAbortDial = errors.New("vf: dial aborted by the harness")

// ---- harness resolver: names "<label>.vfname.test" resolve to addresses registered by the test ----

type vfResolver struct {
	mu    sync.Mutex
	a     map[string][]net.IP // fqdn (lower) -> addresses
	pc    net.PacketConn
	addr  string
	asked map[string]int
}

var vfRes *vfResolver
var vfResOnce sync.Once

func vfInstallResolver(t testing.TB) *vfResolver {
	vfResOnce.Do(func() {
		pc, err := net.ListenPacket("udp", "127.0.0.1:0")
		if err != nil {
			t.Fatalf("resolver listen: %v", err)
		}
		r := &vfResolver{a: map[string][]net.IP{}, pc: pc, addr: pc.LocalAddr().String(), asked: map[string]int{}}
		srv := &dns.Server{PacketConn: pc, Handler: dns.HandlerFunc(func(w dns.ResponseWriter, q *dns.Msg) {
			m := new(dns.Msg)
			m.SetReply(q)
			name := strings.ToLower(q.Question[0].Name)
			r.mu.Lock()
			ips := r.a[name]
			r.asked[name]++
			r.mu.Unlock()
			for _, ip := range ips {
				if ip4 := ip.To4(); ip4 != nil && q.Question[0].Qtype == dns.TypeA {
					m.Answer = append(m.Answer, &dns.A{Hdr: dns.RR_Header{Name: q.Question[0].Name, Rrtype: dns.TypeA, Class: 1, Ttl: 1}, A: ip4})
				} else if ip4 == nil && q.Question[0].Qtype == dns.TypeAAAA {
					m.Answer = append(m.Answer, &dns.AAAA{Hdr: dns.RR_Header{Name: q.Question[0].Name, Rrtype: dns.TypeAAAA, Class: 1, Ttl: 1}, AAAA: ip})
				}
			}
			if len(ips) == 0 {
				m.Rcode = dns.RcodeNameError
			}
			w.WriteMsg(m)
		})}
		go srv.ActivateAndServe()
		net.DefaultResolver = &net.Resolver{PreferGo: true, Dial: func(ctx context.Context, network, address string) (net.Conn, error) {
			var d net.Dialer
			return d.DialContext(ctx, "udp", r.addr)
		}}
		vfRes = r
	})
	return vfRes
}

func (r *vfResolver) set(name string, ips ...net.IP) {
	r.mu.Lock()
	r.a[strings.ToLower(name)+"."] = ips
	r.mu.Unlock()
}

// ---- generators ----

type vfHost struct {
	text   string     // as written in the URL / dial_addr (no brackets, no port)
	ip     netip.Addr // what must be dialled
	isName bool
	isV6   bool
}

var vfNameSeq int

func vfGenHost(t *rapid.T, res *vfResolver) vfHost {
	switch rapid.IntRange(0, 4).Draw(t, "hostKind") {
	case 0, 1:
		ip := netip.AddrFrom4([4]byte{127, byte(rapid.IntRange(0, 255).Draw(t, "b")), byte(rapid.IntRange(0, 255).Draw(t, "c")), byte(rapid.IntRange(1, 254).Draw(t, "d"))})
		return vfHost{text: ip.String(), ip: ip}
	case 2, 3:
		var raw [16]byte
		switch rapid.IntRange(0, 4).Draw(t, "v6shape") {
		case 0:
			raw[15] = 1 // ::1
		case 1:
			copy(raw[:], []byte{0x20, 0x01, 0x0d, 0xb8})
			raw[15] = byte(rapid.IntRange(1, 255).Draw(t, "last"))
		case 2:
			copy(raw[:], rapid.SliceOfN(rapid.Byte(), 16, 16).Draw(t, "v6"))
			raw[0] = 0x20
			if raw[15] == 0 {
				raw[15] = 9
			}
		case 3: // ends in a zero group / digits that look like a port
			copy(raw[:], []byte{0x20, 0x01, 0x0d, 0xb8})
			raw[13] = byte(rapid.IntRange(0, 255).Draw(t, "x"))
			raw[14], raw[15] = 0x08, 0x53
		default:
			copy(raw[:], []byte{0xfd, 0x00})
			raw[14] = byte(rapid.IntRange(0, 255).Draw(t, "y"))
			raw[15] = byte(rapid.IntRange(0, 255).Draw(t, "z"))
		}
		ip := netip.AddrFrom16(raw)
		if ip.Is4In6() || ip.IsUnspecified() {
			raw[0] = 0x20
			ip = netip.AddrFrom16(raw)
		}
		text := ip.String()
		switch rapid.IntRange(0, 2).Draw(t, "v6text") {
		case 1:
			text = ip.StringExpanded()
		case 2:
			text = strings.ToUpper(text)
		}
		return vfHost{text: text, ip: ip, isV6: true}
	default:
		vfNameSeq++
		name := fmt.Sprintf("h%d-%s.vfname.test", vfNameSeq, rapid.SampledFrom([]string{"dns", "resolver", "a-b"}).Draw(t, "nameLabel"))
		ip := netip.AddrFrom4([4]byte{127, 77, byte(rapid.IntRange(0, 255).Draw(t, "c")), byte(rapid.IntRange(1, 254).Draw(t, "d"))})
		res.set(name, net.IP(ip.AsSlice()))
		return vfHost{text: name, ip: ip, isName: true}
	}
}

func (h vfHost) inURL(port string) string {
	s := h.text
	if h.isV6 {
		s = "[" + s + "]"
	}
	if port != "" {
		s += ":" + port
	}
	return s
}

type vfObserved struct {
	mu    sync.Mutex
	calls []string // "network address"
}

func (o *vfObserved) control(network, address string, c syscall.RawConn) error {
	o.mu.Lock()
	o.calls = append(o.calls, network+" "+address)
	o.mu.Unlock()
	return errVfAbortDial
}

var vfDefaultPort = map[string]string{"": "53", "udp": "53", "tcp": "53", "tcp+pipeline": "53", "tls": "853", "tls+pipeline": "853", "https": "443", "http": "80"}

func TestVfC17DialTarget(t *testing.T) {
	st := vfkit.Stats("TestVfC17DialTarget", "upstream address forms: scheme {omitted, udp, tcp, tcp+pipeline, tls, tls+pipeline, https, http} x host {IPv4, bracketed IPv6 in several textual shapes, domain name via harness resolver} x port present/absent x dial_addr {absent, IPv4, IPv4:port, bare IPv6, [IPv6]:port, domain, domain:port, @abstract}; oracle: (network, address) seen by the socket Control callback on the first dial equals the reference table; non-trivial = IPv6 literal, missing port, or a dial_addr")
	defer vfkit.Flush()
	res := vfInstallResolver(t)
	rapid.Check(t, func(t *rapid.T) {
		scheme := rapid.SampledFrom([]string{"", "udp", "tcp", "tcp+pipeline", "tls", "tls+pipeline", "https", "http"}).Draw(t, "scheme")
		host := vfGenHost(t, res)
		port := ""
		if rapid.Bool().Draw(t, "hasPort") {
			port = fmt.Sprint(rapid.SampledFrom([]int{53, 853, 443, 80, 5353, 8053, 65535, 1}).Draw(t, "port"))
		}
		url := host.inURL(port)
		if scheme != "" {
			url = scheme + "://" + url
		}
		if scheme == "https" || scheme == "http" {
			url += rapid.SampledFrom([]string{"", "/dns-query", "/q?x=1"}).Draw(t, "path")
		}
		// dial_addr
		wantIP, wantPort, wantNet := host.ip, port, "ip"
		if wantPort == "" {
			wantPort = vfDefaultPort[scheme]
		}
		dialAddr := ""
		dkind := rapid.IntRange(0, 7).Draw(t, "dialAddrKind")
		streamScheme := scheme != "" && scheme != "udp"
		switch {
		case dkind <= 2:
		case dkind == 7 && streamScheme:
			dialAddr = fmt.Sprintf("@vf-abstract-%d", rapid.IntRange(0, 99).Draw(t, "sock"))
			wantNet = "unix"
		case dkind == 7:
		default:
			dh := vfGenHost(t, res)
			dport := ""
			if rapid.Bool().Draw(t, "dialHasPort") {
				dport = fmt.Sprint(rapid.SampledFrom([]int{53, 853, 443, 5300, 10053}).Draw(t, "dialPort"))
			}
			if dh.isV6 && dport == "" {
				dialAddr = dh.text // bare IPv6
			} else {
				dialAddr = dh.inURL(dport)
			}
			wantIP = dh.ip
			wantPort = vfDefaultPort[scheme]
			if dport != "" {
				wantPort = dport
			}
		}
		obs := &vfObserved{}
		u, err := upstream.NewUpstream(url, upstream.Opt{DialAddr: dialAddr, Control: obs.control, DialTimeout: time.Second, TLSConfig: &tls.Config{InsecureSkipVerify: true}})
		if err != nil {
			t.Fatalf("NewUpstream(%q, dial_addr=%q): %v", url, dialAddr, err)
		}
		defer u.Close()
		q := vfQueryMsg(1, "addr.c17")
		ctx, cancel := context.WithTimeout(context.Background(), 2*time.Second)
		_, exErr := u.ExchangeContext(ctx, q)
		cancel()
		if exErr == nil {
			t.Fatalf("exchange succeeded although every dial is aborted")
		}
		obs.mu.Lock()
		calls := append([]string(nil), obs.calls...)
		obs.mu.Unlock()
		if len(calls) == 0 {
			t.Fatalf("NewUpstream(%q, dial_addr=%q): no dial was attempted (exchange error: %v)", url, dialAddr, exErr)
		}
		var want string
		if wantNet == "unix" {
			want = "unix " + dialAddr
		} else {
			n := "tcp"
			if scheme == "" || scheme == "udp" {
				n = "udp"
			}
			if wantIP.Is4() {
				n += "4"
			} else {
				n += "6"
			}
			want = n + " " + net.JoinHostPort(wantIP.String(), wantPort)
		}
		if calls[0] != want {
			t.Fatalf("NewUpstream(%q, dial_addr=%q) dialled %q, expected %q (all dials: %v)", url, dialAddr, calls[0], want, calls)
		}
		nontrivial := host.isV6 || port == "" || dialAddr != ""
		classes := []string{"scheme=" + scheme}
		if host.isV6 {
			classes = append(classes, "v6-host")
		}
		if host.isName {
			classes = append(classes, "name-host")
		}
		if port == "" {
			classes = append(classes, "no-port")
		}
		if dialAddr != "" {
			classes = append(classes, "dial_addr")
		}
		if wantNet == "unix" {
			classes = append(classes, "abstract-unix")
		}
		st.Case(vfkit.Fingerprint(url, dialAddr), nontrivial, classes, func() any {
			return map[string]any{"addr": url, "dial_addr": dialAddr, "dialled": calls[0]}
		})
	})
}

func vfQueryMsg(id uint16, name string) []byte {
	var n vfkit.Name
	for _, l := range strings.Split(name, ".") {
		n = append(n, []byte(l))
	}
	m := &vfkit.Msg{ID: id, Bits: vfkit.BitRD, Q: []vfkit.Question{{Name: n, Type: 1, Class: 1}}}
	w, _ := vfkit.Encode(m, vfkit.EncOpts{})
	return w
}

// TestVfC17QuicTarget observes QUIC-based upstreams (quic://, h3://) through the first datagram that
// arrives on a harness UDP socket bound to the expected address.
func TestVfC17QuicTarget(t *testing.T) {
	st := vfkit.Stats("TestVfC17QuicTarget", "quic:// and h3:// upstreams with IPv4 / bracketed IPv6 (::1) / domain hosts, port present or absent (default 853 / 443), optional dial_addr; oracle: the first QUIC datagram arrives on the harness socket bound to the expected address and port; non-trivial = IPv6 literal, missing port or dial_addr")
	defer vfkit.Flush()
	res := vfInstallResolver(t)
	rapid.Check(t, func(t *rapid.T) {
		scheme := rapid.SampledFrom([]string{"quic", "h3"}).Draw(t, "scheme")
		defPort := map[string]int{"quic": 853, "h3": 443}[scheme]
		// expected destination
		var ip netip.Addr
		hostKind := rapid.SampledFrom([]string{"v4", "v6", "name"}).Draw(t, "hostKind")
		switch hostKind {
		case "v4":
			ip = netip.AddrFrom4([4]byte{127, 33, byte(rapid.IntRange(0, 255).Draw(t, "c")), byte(rapid.IntRange(1, 254).Draw(t, "d"))})
		case "v6":
			ip = netip.MustParseAddr("::1")
		default:
			ip = netip.AddrFrom4([4]byte{127, 34, byte(rapid.IntRange(0, 255).Draw(t, "c")), byte(rapid.IntRange(1, 254).Draw(t, "d"))})
		}
		hasPort := rapid.Bool().Draw(t, "hasPort")
		useDialAddr := rapid.IntRange(0, 2).Draw(t, "useDialAddr") == 0
		// bind the expected socket first (port 0 = pick; or the scheme default when the port is omitted)
		bindPort := 0
		if !hasPort {
			bindPort = defPort
		}
		var pc *net.UDPConn
		var err error
		expectIP := ip
		if useDialAddr {
			expectIP = netip.AddrFrom4([4]byte{127, 35, byte(rapid.IntRange(0, 255).Draw(t, "dc")), byte(rapid.IntRange(1, 254).Draw(t, "dd"))})
		}
		pc, err = net.ListenUDP("udp", &net.UDPAddr{IP: net.IP(expectIP.AsSlice()), Port: bindPort})
		if err != nil {
			t.Skipf("cannot bind %v:%d: %v", expectIP, bindPort, err)
		}
		defer pc.Close()
		port := pc.LocalAddr().(*net.UDPAddr).Port
		hostText := ip.String()
		if hostKind == "v6" {
			hostText = "[" + hostText + "]"
		}
		if hostKind == "name" {
			vfNameSeq++
			hostText = fmt.Sprintf("q%d.vfname.test", vfNameSeq)
			res.set(hostText, net.IP(ip.AsSlice()))
		}
		url := scheme + "://" + hostText
		dialAddr := ""
		if useDialAddr {
			// the URL keeps its own (possibly different) port; dial_addr decides
			if hasPort {
				url += ":9"
				dialAddr = net.JoinHostPort(expectIP.String(), fmt.Sprint(port))
			} else {
				dialAddr = expectIP.String()
			}
		} else if hasPort {
			url += ":" + fmt.Sprint(port)
		}
		if scheme == "h3" {
			url += "/dns-query"
		}
		u, err := upstream.NewUpstream(url, upstream.Opt{DialAddr: dialAddr, DialTimeout: 500 * time.Millisecond, TLSConfig: &tls.Config{InsecureSkipVerify: true}})
		if err != nil {
			t.Fatalf("NewUpstream(%q): %v", url, err)
		}
		got := make(chan int, 1)
		go func() {
			buf := make([]byte, 2048)
			pc.SetReadDeadline(time.Now().Add(1500 * time.Millisecond))
			n, _, err := pc.ReadFromUDP(buf)
			if err != nil {
				got <- -1
				return
			}
			got <- n
		}()
		ctx, cancel := context.WithTimeout(context.Background(), 700*time.Millisecond)
		_, _ = u.ExchangeContext(ctx, vfQueryMsg(2, "quic.c17"))
		cancel()
		n := <-got
		// Close is part of C18; a crash here would abort the run, so it is deferred to the very end.
		defer func() {
			defer func() { recover() }()
			done := make(chan struct{})
			go func() { defer func() { recover(); close(done) }(); u.Close() }()
			select {
			case <-done:
			case <-time.After(2 * time.Second):
			}
		}()
		if n < 0 {
			t.Fatalf("NewUpstream(%q, dial_addr=%q): no datagram reached %v:%d", url, dialAddr, expectIP, port)
		}
		if n < 1000 {
			t.Fatalf("first datagram has %d octets - not a QUIC Initial", n)
		}
		classes := []string{"scheme=" + scheme, "host=" + hostKind}
		if !hasPort {
			classes = append(classes, "default-port")
		}
		if useDialAddr {
			classes = append(classes, "dial_addr")
		}
		st.Case(vfkit.Fingerprint(url, dialAddr, expectIP.String()), hostKind == "v6" || !hasPort || useDialAddr, classes, func() any {
			return map[string]any{"addr": url, "dial_addr": dialAddr, "datagram_at": fmt.Sprintf("%v:%d", expectIP, port)}
		})
	})
}

// TestVfC17ServerName: with dial_addr pointing at harness servers, the TLS server name and the HTTP Host
// still derive from the URL host.
func TestVfC17ServerName(t *testing.T) {
	st := vfkit.Stats("TestVfC17ServerName", "tls/tls+pipeline/https/http/quic/h3 upstreams whose URL host is a domain name or IP (with/without port) while dial_addr points at a harness TLS or HTTP server; the HTTP and one of the HTTPS servers answer (500, or a redirect to another host); oracle: SNI == URL host without port (no SNI for IP literals) in every handshake, HTTP Host == URL host[:port] in every request; non-trivial = every case (dial_addr always set)")
	defer vfkit.Flush()
	// TLS capture server
	var mu sync.Mutex
	var snis []string
	tl, err := net.Listen("tcp", "127.0.0.1:0")
	if err != nil {
		t.Fatal(err)
	}
	defer tl.Close()
	go func() {
		for {
			c, err := tl.Accept()
			if err != nil {
				return
			}
			go func() {
				defer c.Close()
				srv := tls.Server(c, &tls.Config{GetConfigForClient: func(h *tls.ClientHelloInfo) (*tls.Config, error) {
					mu.Lock()
					snis = append(snis, h.ServerName)
					mu.Unlock()
					return nil, errors.New("vf: handshake refused after the ClientHello was recorded")
				}})
				c.SetDeadline(time.Now().Add(2 * time.Second))
				srv.Handshake()
			}()
		}
	}()
	// HTTP capture server
	var hosts []string
	hl, err := net.Listen("tcp", "127.0.0.1:0")
	if err != nil {
		t.Fatal(err)
	}
	defer hl.Close()
	// (it answers 500, or with a redirect to another host: the Host of every request that follows still has to be the
	// URL's - an upstream is one server, not whoever that server points at)
	var redirect atomic.Int32
	capture := http.HandlerFunc(func(w http.ResponseWriter, r *http.Request) {
		mu.Lock()
		hosts = append(hosts, r.Host)
		mu.Unlock()
		if st := int(redirect.Load()); st != 0 {
			scheme := "http"
			if r.TLS != nil {
				scheme = "https"
			}
			w.Header().Set("Location", scheme+"://elsewhere.vf.test/dns-query")
			w.WriteHeader(st)
			return
		}
		w.WriteHeader(500)
	})
	go http.Serve(hl, capture)
	// HTTPS capture server that completes the handshake (the client is told not to verify): records server name and Host
	_, hleaf := vfTLSMaterial()
	hsl, err := net.Listen("tcp", "127.0.0.1:0")
	if err != nil {
		t.Fatal(err)
	}
	defer hsl.Close()
	hsrv := &http.Server{Handler: capture, TLSConfig: &tls.Config{NextProtos: []string{"h2", "http/1.1"}, Certificates: []tls.Certificate{hleaf.TLS},
		GetConfigForClient: func(h *tls.ClientHelloInfo) (*tls.Config, error) {
			mu.Lock()
			snis = append(snis, h.ServerName)
			mu.Unlock()
			return nil, nil
		}}}
	go hsrv.ServeTLS(hsl, "", "")
	defer hsrv.Close()
	// QUIC capture server (quic:// and h3:// upstreams): records the server name of the ClientHello, then refuses
	_, qleaf := vfTLSMaterial()
	qpc, err := net.ListenUDP("udp", &net.UDPAddr{IP: net.IPv4(127, 0, 0, 1)})
	if err != nil {
		t.Fatal(err)
	}
	defer qpc.Close()
	qtr := &quic.Transport{Conn: qpc}
	defer qtr.Close()
	ql, err := qtr.Listen(&tls.Config{NextProtos: []string{"doq", "h3"}, GetConfigForClient: func(h *tls.ClientHelloInfo) (*tls.Config, error) {
		mu.Lock()
		snis = append(snis, h.ServerName)
		mu.Unlock()
		return nil, errors.New("vf: handshake refused after the ClientHello was recorded")
	}, Certificates: []tls.Certificate{qleaf.TLS}}, &quic.Config{})
	if err != nil {
		t.Fatal(err)
	}
	defer ql.Close()
	go func() {
		for {
			c, err := ql.Accept(context.Background())
			if err != nil {
				return
			}
			c.CloseWithError(0, "")
		}
	}()
	rapid.Check(t, func(t *rapid.T) {
		scheme := rapid.SampledFrom([]string{"tls", "tls+pipeline", "https", "http", "http", "quic", "h3", "https-answering"}).Draw(t, "scheme")
		// the HTTP servers answer 500 or redirect to another host
		redirect.Store(int32(rapid.SampledFrom([]int{0, 301, 302, 303, 307, 308}).Draw(t, "httpRedirect")))
		answering := scheme == "https-answering"
		if answering {
			scheme = "https"
		}
		host := rapid.SampledFrom([]string{"dns.example.org", "a-b.resolver.test", "192.0.2.53", "UPPER.example"}).Draw(t, "host")
		port := ""
		if rapid.Bool().Draw(t, "hasPort") {
			port = rapid.SampledFrom([]string{"853", "443", "8443", "80"}).Draw(t, "port")
		}
		url := scheme + "://" + host
		if port != "" {
			url += ":" + port
		}
		dial := tl.Addr().String()
		if scheme == "http" {
			dial = hl.Addr().String()
		}
		if answering {
			dial = hsl.Addr().String()
		}
		if scheme == "quic" || scheme == "h3" {
			dial = qpc.LocalAddr().String()
		}
		mu.Lock()
		snis, hosts = nil, nil
		mu.Unlock()
		opt := upstream.Opt{DialAddr: dial, DialTimeout: time.Second}
		// not verifying the peer changes nothing about how it is addressed: the server name is still the URL's
		if answering || rapid.Bool().Draw(t, "insecureSkipVerify") {
			opt.TLSConfig = &tls.Config{InsecureSkipVerify: true}
		}
		u, err := upstream.NewUpstream(url, opt)
		if err != nil {
			t.Fatalf("NewUpstream(%q): %v", url, err)
		}
		defer vfClose(u)
		ctx, cancel := context.WithTimeout(context.Background(), 2*time.Second)
		if scheme == "quic" || scheme == "h3" {
			cancel()
			ctx, cancel = context.WithTimeout(context.Background(), 700*time.Millisecond)
		}
		_, _ = u.ExchangeContext(ctx, vfQueryMsg(3, "sni.c17"))
		cancel()
		mu.Lock()
		gotSNI, gotHosts := append([]string(nil), snis...), append([]string(nil), hosts...)
		mu.Unlock()
		if scheme == "http" {
			want := host
			if port != "" {
				want += ":" + port
			}
			if len(gotHosts) == 0 {
				t.Fatalf("%s via dial_addr: no HTTP request arrived", url)
			}
			for _, h := range gotHosts {
				if !strings.EqualFold(h, want) {
					t.Fatalf("%s via dial_addr: HTTP requests with Host %q, expected %q in every one (the server answers with status %d)", url, gotHosts, want, redirect.Load())
				}
			}
		} else {
			want := host
			if net.ParseIP(host) != nil {
				want = "" // no SNI for IP literals
			}
			if len(gotSNI) == 0 {
				t.Fatalf("%s via dial_addr: no ClientHello arrived", url)
			}
			for _, n := range gotSNI {
				if !strings.EqualFold(n, want) {
					t.Fatalf("%s via dial_addr: TLS server names %q, expected %q in every handshake", url, gotSNI, want)
				}
			}
			if answering {
				wantHost := host
				if port != "" {
					wantHost += ":" + port
				}
				if len(gotHosts) == 0 {
					t.Fatalf("%s via dial_addr: the handshake completed but no HTTP request arrived", url)
				}
				for _, h := range gotHosts {
					if !strings.EqualFold(h, wantHost) {
						t.Fatalf("%s via dial_addr: HTTP requests with Host %q, expected %q in every one (the server answers with status %d)", url, gotHosts, wantHost, redirect.Load())
					}
				}
			}
		}
		st.Case(vfkit.Fingerprint(url), true, []string{"scheme=" + scheme}, func() any {
			return map[string]any{"addr": url, "dial_addr": dial, "sni": gotSNI, "http_host": gotHosts}
		})
	})
	_ = binary.BigEndian
}
