package upstream_test

// C06 for the TCP leg of a udp upstream ("including the TCP fallback of UDP upstreams"): every UDP reply is truncated,
// so every exchange continues over TCP against a server that sends exactly one reply per query, reads the connection
// all the time and counts what it has received and not yet answered. Callers give up in the middle of the TCP leg.

import (
	"context"
	"encoding/binary"
	"fmt"
	"io"
	"net"
	"sync"
	"sync/atomic"
	"testing"
	"time"

	"github.com/IrineSistiana/mosproxy/internal/dnsmsg"
	"github.com/IrineSistiana/mosproxy/internal/upstream"
	"pgregory.net/rapid"
	"vfkit"
)

type vfC06Server struct {
	udp   *net.UDPConn
	tcp   net.Listener
	addr  string
	mu    sync.Mutex
	delay map[uint32]time.Duration // token -> how long the TCP reply is held
	// observations
	conns          atomic.Int32
	maxOutstanding atomic.Int32
	overlap        atomic.Value // description of the first connection that carried two unanswered queries
}

func vfNewC06Server(t vfFatal) *vfC06Server {
	s := &vfC06Server{delay: map[uint32]time.Duration{}}
	for try := 0; try < 50 && s.udp == nil; try++ {
		l, err := net.Listen("tcp", "127.0.0.1:0")
		if err != nil {
			t.Fatalf("listen: %v", err)
		}
		u, err := net.ListenUDP("udp", &net.UDPAddr{IP: net.IPv4(127, 0, 0, 1), Port: l.Addr().(*net.TCPAddr).Port})
		if err != nil {
			l.Close()
			continue
		}
		s.tcp, s.udp, s.addr = l, u, l.Addr().String()
	}
	if s.udp == nil {
		t.Fatalf("could not bind the same UDP and TCP port")
	}
	go func() { // UDP: always truncated
		buf := make([]byte, 65535)
		for {
			n, from, err := s.udp.ReadFromUDP(buf)
			if err != nil {
				return
			}
			if tok, d, ok := vfTokenOf(buf[:n]); ok {
				s.udp.WriteToUDP(vfTokenReply(d, vfkit.BitTC, tok*2, 0), from)
			}
		}
	}()
	go func() {
		for {
			c, err := s.tcp.Accept()
			if err != nil {
				return
			}
			id := s.conns.Add(1)
			go func() {
				defer c.Close()
				var outstanding atomic.Int32
				var wmu sync.Mutex
				for {
					var lb [2]byte
					if _, err := io.ReadFull(c, lb[:]); err != nil {
						return
					}
					body := make([]byte, binary.BigEndian.Uint16(lb[:]))
					if _, err := io.ReadFull(c, body); err != nil {
						return
					}
					tok, d, ok := vfTokenOf(body)
					if !ok {
						return
					}
					if o := outstanding.Add(1); o > 1 {
						s.overlap.CompareAndSwap(nil, fmt.Sprintf("connection %d: the query with token %d arrived while %d earlier quer(ies) on the same connection had not been answered yet", id, tok, o-1))
						for {
							m := s.maxOutstanding.Load()
							if o <= m || s.maxOutstanding.CompareAndSwap(m, o) {
								break
							}
						}
					}
					s.mu.Lock()
					hold := s.delay[tok]
					s.mu.Unlock()
					go func() {
						time.Sleep(hold)
						reply := vfTokenReply(d, 0, tok*2+1, 0)
						wmu.Lock()
						// the query counts as answered from the moment its one reply starts to be written
						outstanding.Add(-1)
						c.Write(append(binary.BigEndian.AppendUint16(nil, uint16(len(reply))), reply...))
						wmu.Unlock()
					}()
				}
			}()
		}
	}()
	return s
}

var vfC06Tok atomic.Uint32

func TestVfC06FallbackLeg(t *testing.T) {
	st := vfkit.Stats("TestVfC06FallbackLeg", "udp upstream whose every UDP reply is truncated, TCP side of the same port answering each query once after a drawn 0-120 ms; histories of 3-12 exchanges (1-3 at a time) of which some have deadlines shorter than their reply's delay, so their callers give up in the middle of the TCP leg and the next exchanges follow at once; oracle at the server: never a second query on a connection while an earlier one is unanswered; oracle at the caller: a returned message is the TCP reply to the caller's own query under the caller's ID; non-trivial = at least one caller gave up during the TCP leg and another exchange followed")
	defer vfkit.Flush()
	rapid.Check(t, func(t *rapid.T) {
		srv := vfNewC06Server(t)
		defer func() { srv.udp.Close(); srv.tcp.Close() }()
		u, err := upstream.NewUpstream("udp://"+srv.addr, upstream.Opt{})
		if err != nil {
			t.Fatalf("NewUpstream: %v", err)
		}
		defer vfClose(u)
		n := rapid.IntRange(3, 12).Draw(t, "exchanges")
		gaveUp, followed := 0, 0
		var bad atomic.Value
		for i := 0; i < n; {
			k := rapid.IntRange(1, 3).Draw(t, "atOnce")
			var wg sync.WaitGroup
			for j := 0; j < k && i < n; j, i = j+1, i+1 {
				tok := vfC06Tok.Add(1)
				hold := time.Duration(rapid.SampledFrom([]int{0, 0, 5, 40, 120}).Draw(t, "replyAfterMs")) * time.Millisecond
				dl := 2 * time.Second
				if hold >= 40*time.Millisecond && rapid.Bool().Draw(t, "giveUp") {
					dl = hold / 2
					gaveUp++
				} else if gaveUp > 0 {
					followed++
				}
				srv.mu.Lock()
				srv.delay[tok] = hold
				srv.mu.Unlock()
				callerID := rapid.Uint16().Draw(t, "id")
				wg.Add(1)
				go func() {
					defer wg.Done()
					qm := &vfkit.Msg{ID: callerID, Bits: vfkit.BitRD, Q: []vfkit.Question{{Name: vfkit.Name{[]byte(fmt.Sprintf("t%d", tok)), []byte("c06")}, Type: 1, Class: 1}}}
					q, _ := vfkit.Encode(qm, vfkit.EncOpts{})
					ctx, cancel := context.WithTimeout(context.Background(), dl)
					m, _ := u.ExchangeContext(ctx, q)
					cancel()
					if m != nil {
						got, ok := vfMsgToken(m)
						if !ok || got != tok*2+1 || m.Header.ID != callerID {
							bad.CompareAndSwap(nil, fmt.Sprintf("the exchange with token %d and ID %d returned a message with token %d (ok=%v) and ID %d: not the TCP reply to its own query", tok, callerID, got, ok, m.Header.ID))
						}
						dnsmsg.ReleaseMsg(m)
					}
				}()
			}
			wg.Wait()
		}
		time.Sleep(5 * time.Millisecond)
		if o := srv.overlap.Load(); o != nil {
			t.Fatalf("TCP leg of a udp upstream: %v (up to %d unanswered queries on one connection; %d connections in all)", o, srv.maxOutstanding.Load(), srv.conns.Load())
		}
		if b := bad.Load(); b != nil {
			t.Fatalf("%v", b)
		}
		st.Case(vfkit.Fingerprint(n, gaveUp, followed, srv.conns.Load()), gaveUp > 0 && followed > 0, []string{fmt.Sprintf("gave-up=%v", gaveUp > 0)}, func() any {
			return map[string]any{"exchanges": n, "gave_up_during_the_tcp_leg": gaveUp, "tcp_connections": srv.conns.Load()}
		})
	})
}
