package upstream_test

// C20 (transport level) - cancellation hammer under the race detector with the poison/quarantine hook:
// many concurrent exchanges with very short deadlines against servers that answer fast, slowly or never,
// i.e. exactly the window in which a worker goroutine may still hold the query copy after the caller
// returned and released it.

import (
	"context"
	"fmt"
	"regexp"
	"sync"
	"sync/atomic"
	"testing"
	"time"

	"github.com/IrineSistiana/mosproxy/internal/dnsmsg"
	"pgregory.net/rapid"
	"vfkit"
)

var vfC20Label = regexp.MustCompile(`^g[0-9]+q[0-9]+r[0-9]+$`)

func TestVfC20TransportHammer(t *testing.T) {
	st := vfkit.Stats("TestVfC20TransportHammer", "per upstream kind (all 8): 4-24 goroutines x 20-60 exchanges with deadlines of 1-50 ms against a server that answers after 0-60 ms, never, or kills the connection, with connection kills injected from the side; built with -race -tags verif; oracle: no data race report, no canary (double release / write after release), every returned message carries the caller's ID and the question it asked, and every complete message or HTTP request the server received is a query somebody sent (in half of the runs the server stalls new handshakes for 5-40 ms, so queries are still unwritten when their exchanges give up); non-trivial = run with >= 10 exchanges that ended by their deadline and >= 10 that succeeded")
	defer vfkit.Flush()
	_, leaf := vfTLSMaterial()
	rapid.Check(t, func(t *rapid.T) {
		kind := rapid.SampledFrom(vfAllKinds).Draw(t, "kind")
		g := rapid.IntRange(4, 24).Draw(t, "goroutines")
		n := rapid.IntRange(20, 60).Draw(t, "perGoroutine")
		seeds := rapid.SliceOfN(rapid.Uint32(), g, g).Draw(t, "seeds")
		killEvery := rapid.SampledFrom([]int{0, 0, 7, 23}).Draw(t, "killEveryMs")
		srv, err := vfkit.StartUpstream(kind, "h", "127.0.0.1", 0, vfkit.ServerTLS(leaf), func(q *vfkit.UpQuery) vfkit.UpAction {
			if q.Msg.Err != nil || len(q.Msg.Q) != 1 {
				return vfkit.UpAction{}
			}
			h := q.Msg.Q[0].Name[0]
			x := int(h[len(h)-1]) + len(h)
			switch x % 7 {
			case 0:
				return vfkit.UpAction{} // never
			case 1:
				return vfkit.UpAction{Reply: vfOKReply(q), Delay: time.Duration(x%60) * time.Millisecond}
			case 2:
				return vfkit.UpAction{Reply: vfOKReply(q), CloseAfter: true}
			}
			return vfkit.UpAction{Reply: vfOKReply(q), Delay: time.Duration(x%4) * time.Millisecond}
		})
		if err != nil {
			t.Fatalf("fake server: %v", err)
		}
		defer srv.Close()
		// in half of the runs every new stream connection's handshake stalls for a while on the server's side, so that
		// exchanges run out of time while their query has not even been written
		if hs := rapid.SampledFrom([]int{0, 0, 5, 15, 40}).Draw(t, "handshakeStallMs"); hs > 0 {
			srv.AcceptDelay.Store(int64(time.Duration(hs) * time.Millisecond))
		}
		u := vfNewUpstream(t, kind, srv.Port, 0)
		stop := make(chan struct{})
		if killEvery > 0 {
			go func() {
				tk := time.NewTicker(time.Duration(killEvery) * time.Millisecond)
				defer tk.Stop()
				for {
					select {
					case <-stop:
						return
					case <-tk.C:
						srv.KillConns(true)
					}
				}
			}()
		}
		var okN, deadlineN, errN atomic.Int32
		var bad atomic.Value
		var wg sync.WaitGroup
		for i := 0; i < g; i++ {
			wg.Add(1)
			go func(i int) {
				defer wg.Done()
				x := seeds[i]
				for j := 0; j < n; j++ {
					x = x*1664525 + 1013904223
					id := uint16(x >> 8)
					name := fmt.Sprintf("g%dq%dr%d.c20", i, j, x>>24)
					dl := time.Duration(1+(x>>16)%50) * time.Millisecond
					ctx, cancel := context.WithTimeout(context.Background(), dl)
					q := vfQueryMsg(id, name)
					m, err := u.ExchangeContext(ctx, q)
					cancel()
					switch {
					case m != nil:
						okN.Add(1)
						if m.Header.ID != id {
							bad.CompareAndSwap(nil, fmt.Sprintf("%s: response ID %d, caller's ID %d", kind, m.Header.ID, id))
						}
						if len(m.Questions) == 1 {
							rd, _ := dnsmsg.ToReadable(m.Questions[0].Name)
							if string(rd) != name {
								bad.CompareAndSwap(nil, fmt.Sprintf("%s: asked %s, the returned message answers %s", kind, name, rd))
							}
						}
						dnsmsg.ReleaseMsg(m)
					case ctx.Err() != nil:
						deadlineN.Add(1)
					default:
						errN.Add(1)
						_ = err
					}
				}
			}(i)
		}
		wg.Wait()
		close(stop)
		if !vfClose(u) {
			t.Fatalf("%s: Close did not return", kind)
		}
		if b := bad.Load(); b != nil {
			t.Fatalf("%v", b)
		}
		// the server's side: whatever arrived complete is a query somebody sent - not the content of a buffer that was
		// given back (and refilled by the hook, or by another exchange) before the transport got round to writing it
		time.Sleep(20 * time.Millisecond)
		if br := srv.BadHTTP(); len(br) > 0 {
			t.Fatalf("%s: the server received %d complete HTTP request(s) whose dns parameter is not base64url, e.g. %s", kind, len(br), br[0])
		}
		for _, q := range srv.Queries() {
			if q.Msg.Err != nil || len(q.Msg.Q) != 1 {
				t.Fatalf("%s: the server received a complete message that is no query anybody sent: %s", kind, vfkit.Hex(q.Raw))
			}
			nm := q.Msg.Q[0].Name
			if len(nm) != 2 || string(nm[1]) != "c20" || !vfC20Label.Match(nm[0]) {
				t.Fatalf("%s: the server received a query for %s, which nobody asked: %s", kind, nm, vfkit.Hex(q.Raw))
			}
		}
		st.Class("succeeded", int(okN.Load()))
		st.Class("ended-by-deadline", int(deadlineN.Load()))
		st.Class("failed", int(errN.Load()))
		st.Case(vfkit.Fingerprint(kind, g, n, fmt.Sprint(seeds), killEvery), okN.Load() >= 10 && deadlineN.Load() >= 10, []string{"kind=" + kind}, func() any {
			return map[string]any{"kind": kind, "goroutines": g, "per_goroutine": n, "kill_every_ms": killEvery, "ok": okN.Load(), "deadline": deadlineN.Load(), "error": errN.Load()}
		})
	})
}
