package transport_test

import (
	"context"
	"fmt"
	"runtime"
	"testing"
	"time"

	"github.com/IrineSistiana/mosproxy/internal/dnsmsg"
	"github.com/IrineSistiana/mosproxy/internal/upstream/transport"
	"pgregory.net/rapid"
	"vfkit"
)

// TestVfC05SharedLoad: more than 65536 exchanges over a transport that has several connections alive at the same time
// (a small MaxConcurrentQuery and a few exchanges that stay unanswered keep them all in use). No connection sees one
// wire ID twice, abandoned exchanges get their replies late, and every returned message is the reply sent for the
// exchange's own query on the exchange's own wire.
func TestVfC05SharedLoad(t *testing.T) {
	st := vfkit.Stats("TestVfC05SharedLoad", "65700-68500 sequential exchanges over one PipelineTransport with MaxConcurrentQuery 2-4 after an opening burst that fills 2-3 connections, of which 1 to MaxConcurrentQuery-1 exchanges per connection stay unanswered until the end (so that several connections are alive and have room for traffic all the time); 4-40 early exchanges are abandoned and answered late, either soon or about 65536 exchanges later; oracles: no wire ID twice on one connection, every returned message was sent on a wire of the returning exchange and carries the caller's ID, the unanswered exchanges are answered at the end and return their own replies; non-trivial = at least two connections carried sequential traffic")
	defer vfkit.Flush()
	rapid.Check(t, func(t *rapid.T) {
		srv := &vfServerSide{datagram: rapid.Bool().Draw(t, "datagram")}
		maxc := rapid.IntRange(2, 4).Draw(t, "maxConcurrent")
		tr := transport.NewPipelineTransport(transport.PipelineOpts{DialContext: srv.dial, IsTCP: !srv.datagram, IdleTimeout: time.Hour, MaxConcurrentQuery: maxc})
		defer tr.Close()
		pins := maxc * rapid.IntRange(2, 3).Draw(t, "connectionsFilled")
		total := 65536 + rapid.IntRange(200, 3000).Draw(t, "extra")
		abandon := map[int]bool{}
		for _, p := range rapid.SliceOfN(rapid.IntRange(0, 3000), 4, 40).Draw(t, "abandonEarly") {
			abandon[p] = true
		}
		lateGap := rapid.SampledFrom([]int{1, 7, 40, 65000, 65400, 65536, 65540}).Draw(t, "lateGap")

		readers := map[int]*vfMsgReader{}
		ids := map[int]map[uint16]uint32{}
		delivered := map[uint32]vfWire{}
		var rtok uint32
		deliver := func(w vfWire, qtok uint32) uint32 {
			rtok++
			b := vfReply(w.wireID, qtok, rtok)
			if !srv.datagram {
				b = vfFrame(b)
			}
			delivered[rtok] = w
			srv.snapshot()[w.conn].Deliver(b)
			return rtok
		}
		waitWire := func(tok uint32, early func() error) []vfWire {
			deadline := time.Now().Add(vfStall)
			var wires []vfWire
			for spins := 0; ; spins++ {
				for _, c := range srv.snapshot() {
					rd := readers[c.ID]
					if rd == nil {
						rd = &vfMsgReader{c: c, datagram: srv.datagram}
						readers[c.ID] = rd
					}
					for _, m := range rd.poll() {
						wid, qt, err := vfParseQuery(m)
						if err != nil {
							t.Fatalf("%v", err)
						}
						if ids[c.ID] == nil {
							ids[c.ID] = map[uint16]uint32{}
						}
						if prev, dup := ids[c.ID][wid]; dup {
							t.Fatalf("wire ID %d used twice on connection %d: for exchange %d and now for exchange %d (%d IDs used on this connection, %d connections dialled, MaxConcurrentQuery %d)", wid, c.ID, prev, qt, len(ids[c.ID]), len(srv.snapshot()), maxc)
						}
						ids[c.ID][wid] = qt
						if qt == tok {
							wires = append(wires, vfWire{c.ID, wid})
						}
					}
				}
				if len(wires) > 0 {
					return wires
				}
				if early != nil {
					if err := early(); err != nil {
						t.Fatalf("exchange %d returned without its query ever reaching a connection: %v", tok, err)
					}
				}
				if time.Now().After(deadline) {
					vfkit.Inconclusive("C05 shared load: query %d never appeared on a connection", tok)
				}
				if spins > 100 {
					time.Sleep(20 * time.Microsecond)
				} else {
					runtime.Gosched()
				}
			}
		}
		type res struct {
			m   *dnsmsg.Msg
			err error
		}
		type exch struct {
			tok      uint32
			callerID uint16
			wires    []vfWire
			rc       chan res
			cancel   context.CancelFunc
		}
		start := func(tok uint32, callerID uint16) *exch {
			e := &exch{tok: tok, callerID: callerID, rc: make(chan res, 1)}
			ctx, cancel := context.WithCancel(context.Background())
			e.cancel = cancel
			q := vfQuery(callerID, tok)
			go func() {
				m, err := tr.ExchangeContext(ctx, q)
				e.rc <- res{m, err}
			}()
			e.wires = waitWire(tok, func() error {
				select {
				case r := <-e.rc:
					e.rc <- r
					if r.m == nil {
						return r.err
					}
				default:
				}
				return nil
			})
			return e
		}
		// judge checks what an exchange returned
		judge := func(e *exch, r res, what string, mustSucceed bool) {
			if r.m == nil {
				if mustSucceed {
					t.Fatalf("%s failed although the server answered it on its wire %v: %v", what, e.wires[len(e.wires)-1], r.err)
				}
				return
			}
			got, ok := vfReplyToken(r.m)
			id := r.m.Header.ID
			dnsmsg.ReleaseMsg(r.m)
			if !ok {
				t.Fatalf("%s returned a message the server never sent", what)
			}
			dw, known := delivered[got]
			mine := false
			for _, x := range e.wires {
				if x == dw {
					mine = true
				}
			}
			if !known || !mine {
				t.Fatalf("%s (wires %v) returned reply %d, which the server sent on %v", what, e.wires, got, dw)
			}
			if id != e.callerID {
				t.Fatalf("%s: response ID %d, caller's ID %d", what, id, e.callerID)
			}
			delete(delivered, got)
		}
		var pinned []*exch
		for i := 0; i < pins; i++ {
			pinned = append(pinned, start(uint32(3000000+i), uint16(0xA000+i)))
		}
		// some of them are answered now, so that every connection has room for the traffic that follows
		{
			onConn := map[int][]*exch{}
			for _, e := range pinned {
				c := e.wires[len(e.wires)-1].conn
				onConn[c] = append(onConn[c], e)
			}
			pinned = pinned[:0]
			for c := 0; c < len(srv.snapshot()); c++ {
				es := onConn[c]
				if len(es) == 0 {
					continue
				}
				rel := 0
				if len(es) >= maxc {
					rel = rapid.IntRange(1, maxc-1).Draw(t, "answeredNow")
				}
				for i, e := range es {
					if i >= rel {
						pinned = append(pinned, e)
						continue
					}
					w := e.wires[len(e.wires)-1]
					deliver(w, e.tok)
					select {
					case r := <-e.rc:
						judge(e, r, fmt.Sprintf("exchange %d of the opening burst", e.tok), true)
					case <-time.After(vfStall):
						vfkit.Inconclusive("C05 shared load: an exchange of the opening burst stalled")
					}
					e.cancel()
				}
			}
		}
		type pendingLate struct {
			w   vfWire
			tok uint32
			at  int
		}
		var lates []pendingLate
		nLate, nAbandon := 0, 0
		seqConns := map[int]int{}
		for i := 0; i < total; i++ {
			e := start(uint32(i+1), uint16(i*7+3))
			w := e.wires[len(e.wires)-1]
			seqConns[w.conn]++
			for len(lates) > 0 && i-lates[0].at >= lateGap {
				l := lates[0]
				lates = lates[1:]
				c := srv.snapshot()[l.w.conn]
				if !c.ClientClosed() {
					deliver(l.w, l.tok)
					c.WaitQuiet(vfStall)
					nLate++
				}
			}
			if abandon[i] {
				e.cancel()
				nAbandon++
				lates = append(lates, pendingLate{w, e.tok, i})
			} else {
				deliver(w, e.tok)
			}
			var r res
			select {
			case r = <-e.rc:
			case <-time.After(vfStall):
				vfkit.Inconclusive("C05 shared load: exchange %d stalled", i)
			}
			e.cancel()
			judge(e, r, fmt.Sprintf("exchange %d", i), !abandon[i])
		}
		// the exchanges that have been waiting all along are answered now
		for i, e := range pinned {
			w := e.wires[len(e.wires)-1]
			if srv.snapshot()[w.conn].ClientClosed() {
				t.Fatalf("connection %d was closed by the transport while unanswered exchange %d was waiting on it", w.conn, i)
			}
			deliver(w, e.tok)
			select {
			case r := <-e.rc:
				judge(e, r, fmt.Sprintf("the exchange that stayed unanswered during the run (no. %d, wire %v)", i, w), true)
			case <-time.After(vfStall):
				t.Fatalf("the exchange that stayed unanswered during the run (no. %d) does not return although its reply was delivered on its wire %v: its waiter is gone", i, w)
			}
			e.cancel()
		}
		busy := 0
		for _, n := range seqConns {
			if n > 100 {
				busy++
			}
		}
		st.Class(fmt.Sprintf("connections-with-traffic=%d", min(busy, 4)), 1)
		st.Case(vfkit.Fingerprint(fmt.Sprint(abandon), lateGap, total, srv.datagram, maxc, pins), len(srv.snapshot()) >= 2, []string{fmt.Sprintf("maxc=%d", maxc)}, func() any {
			return map[string]any{"exchanges": total, "abandoned": nAbandon, "late_replies": nLate, "connections": len(srv.snapshot()), "per_connection": fmt.Sprint(seqConns), "unanswered": len(pinned)}
		})
	})
}
