package transport_test

import (
	"context"
	"encoding/binary"
	"fmt"
	"net"
	"sync"
	"time"

	"github.com/IrineSistiana/mosproxy/internal/dnsmsg"
	"vfkit"
)

// vfQuery builds a query whose question name carries a token identifying the exchange.
func vfQuery(callerID uint16, token uint32) []byte {
	m := &vfkit.Msg{ID: callerID, Bits: vfkit.BitRD, Q: []vfkit.Question{{
		Name: vfkit.Name{[]byte(fmt.Sprintf("t%d", token)), []byte("vf")}, Type: 1, Class: 1}}}
	w, _ := vfkit.Encode(m, vfkit.EncOpts{})
	return w
}

// vfParseQuery returns (wire id, token) of a query written by the transport.
func vfParseQuery(b []byte) (uint16, uint32, error) {
	d := vfkit.Decode(b)
	if d.Err != nil || len(d.Q) != 1 || len(d.Q[0].Name) != 2 {
		return 0, 0, fmt.Errorf("unparsable query %x (%v)", b, d.Err)
	}
	var tok uint32
	if _, err := fmt.Sscanf(string(d.Q[0].Name[0]), "t%d", &tok); err != nil {
		return 0, 0, fmt.Errorf("query without token: %s", d.Q[0].Name)
	}
	return d.ID, tok, nil
}

// vfReply builds a reply with the given wire ID whose answer carries a unique reply token.
func vfReply(wireID uint16, qtoken uint32, replyToken uint32) []byte {
	name := vfkit.Name{[]byte(fmt.Sprintf("t%d", qtoken)), []byte("vf")}
	rd := binary.BigEndian.AppendUint32(nil, replyToken)
	m := &vfkit.Msg{ID: wireID, Bits: vfkit.BitQR | vfkit.BitRD | vfkit.BitRA,
		Q:  []vfkit.Question{{Name: name, Type: 1, Class: 1}},
		An: []vfkit.RR{{Owner: name, Type: 1, Class: 1, TTL: 60, RData: []vfkit.RDPart{{Raw: rd}}}}}
	w, _ := vfkit.Encode(m, vfkit.EncOpts{})
	return w
}

func vfFrame(b []byte) []byte {
	return append(binary.BigEndian.AppendUint16(nil, uint16(len(b))), b...)
}

// vfReplyToken extracts the reply token from a response returned by the transport.
func vfReplyToken(m *dnsmsg.Msg) (uint32, bool) {
	if len(m.Answers) != 1 {
		return 0, false
	}
	a, ok := m.Answers[0].(*dnsmsg.A)
	if !ok {
		return 0, false
	}
	return binary.BigEndian.Uint32(a.A[:]), true
}

// vfServerSide keeps the harness's view of all connections a transport dialled.
type vfServerSide struct {
	mu       sync.Mutex
	datagram bool
	conns    []*vfkit.MemConn
	dialErr  error
	dialHook func() // called inside the dial
	holdNew  bool   // connections dialled from now on start with their writes held
}

func (s *vfServerSide) dial(ctx context.Context) (net.Conn, error) {
	if s.dialHook != nil {
		s.dialHook()
	}
	s.mu.Lock()
	defer s.mu.Unlock()
	if s.dialErr != nil {
		return nil, s.dialErr
	}
	c := vfkit.NewMemConn(s.datagram, len(s.conns))
	if s.holdNew {
		c.HoldWrites(true)
	}
	s.conns = append(s.conns, c)
	return c, nil
}

func (s *vfServerSide) snapshot() []*vfkit.MemConn {
	s.mu.Lock()
	defer s.mu.Unlock()
	return append([]*vfkit.MemConn(nil), s.conns...)
}

// vfSplitFrames parses the concatenation of the writes of a stream connection into frames.
// It returns the complete frames and whether a partial frame remains.
func vfSplitFrames(writes [][]byte) (frames [][]byte, partial bool) {
	var all []byte
	for _, w := range writes {
		all = append(all, w...)
	}
	for len(all) >= 2 {
		l := int(binary.BigEndian.Uint16(all))
		if len(all) < 2+l {
			return frames, true
		}
		frames = append(frames, all[2:2+l])
		all = all[2+l:]
	}
	return frames, len(all) > 0
}

const vfStall = 5 * time.Second

// vfMsgReader incrementally turns the writes of one connection into DNS messages.
type vfMsgReader struct {
	c        *vfkit.MemConn
	datagram bool
	next     int
	rest     []byte
}

func (r *vfMsgReader) poll() [][]byte {
	ws := r.c.WritesSince(r.next)
	r.next += len(ws)
	if r.datagram {
		return ws
	}
	for _, w := range ws {
		r.rest = append(r.rest, w...)
	}
	var out [][]byte
	for len(r.rest) >= 2 {
		l := int(binary.BigEndian.Uint16(r.rest))
		if len(r.rest) < 2+l {
			break
		}
		out = append(out, append([]byte(nil), r.rest[2:2+l]...))
		r.rest = r.rest[2+l:]
	}
	return out
}
