package transport_test

// C06 - one-at-a-time upstream connections are reused only when clean.
// rapid state machine over ReuseConnTransport on the in-memory stream connection. The fake server
// sends exactly one (unique) reply per query, whole, in chunks, or partially; the harness cancels
// exchanges explicitly, so it knows the order of events.

import (
	"runtime"
	"bytes"
	"context"
	"errors"
	"fmt"
	"testing"
	"time"

	"github.com/IrineSistiana/mosproxy/internal/dnsmsg"
	"github.com/IrineSistiana/mosproxy/internal/upstream/transport"
	"pgregory.net/rapid"
	"vfkit"
)

type vfC06Query struct {
	token     uint32
	wireID    uint16
	replyTok  uint32
	reply     []byte // framed reply
	sent      int    // octets of the reply delivered so far
	abandoned bool   // the caller had given up when (part of) the reply was sent
	garbage   bool   // the reply is a complete frame whose body is not a DNS message
}

func (q *vfC06Query) done() bool { return q.reply != nil && q.sent == len(q.reply) }

type vfC06 struct {
	t       *rapid.T
	srv     *vfServerSide
	tr      *transport.ReuseConnTransport
	exchs   []*vfExch
	readers map[int]*vfMsgReader
	queries map[int][]*vfC06Query // per connection, in arrival order
	byTok   map[uint32][]vfWire   // exchange token -> (conn, index) it was written to; wireID field holds the index
	replyOf map[uint32]uint32     // reply token -> query token
	nextTok uint32
	nextRT  uint32
	stats   struct{ cancelPending, lateAfterCancel, reuseAfterCancel, chunks, partial, aborts, idle, reuse, garbage, preCancelled int }
}

func (h *vfC06) scan() {
	for _, c := range h.srv.snapshot() {
		rd := h.readers[c.ID]
		if rd == nil {
			rd = &vfMsgReader{c: c}
			h.readers[c.ID] = rd
		}
		for _, m := range rd.poll() {
			wid, tok, err := vfParseQuery(m)
			if err != nil {
				h.t.Fatalf("conn %d: %v", c.ID, err)
			}
			qs := h.queries[c.ID]
			if n := len(qs); n > 0 {
				if !qs[n-1].done() {
					h.t.Fatalf("connection %d received query %d (exchange %d) while the reply to its previous query (exchange %d) had only been sent up to octet %d of %d: more than one outstanding query on a non-pipelined connection",
						c.ID, n, tok, qs[n-1].token, qs[n-1].sent, len(qs[n-1].reply))
				}
				if !c.Drained() {
					h.t.Fatalf("connection %d received query %d (exchange %d) while octets of the reply to its previous query (exchange %d, a reply of %d octets) are still unread on it: reused before the complete reply had been consumed", c.ID, n, tok, qs[n-1].token, len(qs[n-1].reply))
				}
				if qs[n-1].garbage {
					h.t.Fatalf("connection %d was reused for exchange %d after the reply to its previous query could not be consumed without error (undecodable body)", c.ID, tok)
				}
				h.stats.reuse++
				if qs[n-1].abandoned {
					h.stats.reuseAfterCancel++
				}
			}
			h.nextRT++
			q := &vfC06Query{token: tok, wireID: wid, replyTok: h.nextRT}
			q.reply = vfFrame(vfReply(wid, tok, q.replyTok))
			if tok%4 == 3 {
				// every fourth reply is a big one (zone-transfer-like answers, long TXT sets): up to the largest a frame holds
				size := []int{300, 5000, 16500, 33000, 60000, 65000}[(tok/4)%6]
				q.reply = vfFrame(vfReplyWithTail(wid, tok, q.replyTok, bytes.Repeat([]byte{byte(tok)}, size)))
			}
			h.replyOf[q.replyTok] = tok
			h.queries[c.ID] = append(qs, q)
			h.byTok[tok] = append(h.byTok[tok], vfWire{c.ID, uint16(len(qs))})
		}
	}
}

func (h *vfC06) connOpen(id int) bool {
	c := h.srv.snapshot()[id]
	return !c.ClientClosed() && !c.ServerClosed()
}

func (h *vfC06) exchByToken(tok uint32) *vfExch {
	for _, e := range h.exchs {
		if e.token == tok {
			return e
		}
	}
	return nil
}

func (h *vfC06) settle() {
	deadline := time.Now().Add(vfStall)
	for {
		h.scan()
		ok := true
		for _, c := range h.srv.snapshot() {
			// an idle reusable connection has no reader: "quiet" means nothing unread is left
			if !c.Drained() {
				ok = false
			}
		}
		for _, e := range h.exchs {
			if e.finished() {
				continue
			}
			live := false
			for _, w := range h.byTok[e.token] {
				if h.connOpen(w.conn) && !h.queries[w.conn][w.wireID].done() {
					live = true
				}
			}
			if !live {
				ok = false
			}
		}
		if ok {
			return
		}
		if time.Now().After(deadline) {
			vfkit.Inconclusive("C06: transport did not reach a quiescent state within %v", vfStall)
		}
		time.Sleep(100 * time.Microsecond)
	}
}

func (h *vfC06) check() {
	for _, e := range h.exchs {
		if !e.finished() || e.checked {
			continue
		}
		e.checked = true
		if !bytes.Equal(e.query, e.orig) {
			h.t.Fatalf("exchange %d: the caller's query bytes were modified", e.token)
		}
		if !e.gotMsg {
			continue
		}
		if !e.tokOK {
			h.t.Fatalf("exchange %d returned a message the server never sent", e.token)
		}
		if qt, ok := h.replyOf[e.respTok]; !ok || qt != e.token {
			h.t.Fatalf("exchange %d returned the reply to exchange %d's query (reply token %d)", e.token, qt, e.respTok)
		}
		if e.respID != e.callerID {
			h.t.Fatalf("exchange %d: response ID %d, caller's ID %d", e.token, e.respID, e.callerID)
		}
	}
}

// pending returns the connections that have an unfinished reply.
func (h *vfC06) pending() []int {
	var out []int
	for _, c := range h.srv.snapshot() {
		qs := h.queries[c.ID]
		if len(qs) > 0 && !qs[len(qs)-1].done() && h.connOpen(c.ID) {
			out = append(out, c.ID)
		}
	}
	return out
}

func (h *vfC06) send(conn int, n int) {
	qs := h.queries[conn]
	q := qs[len(qs)-1]
	if len(q.reply) > 2000 && n < 100 {
		n = n * len(q.reply) / 12 // the chunks of a big reply are big (a chunk of 1-9 octets would need thousands of steps)
	}
	if n > len(q.reply)-q.sent {
		n = len(q.reply) - q.sent
	}
	e := h.exchByToken(q.token)
	if e != nil && e.finished() {
		q.abandoned = true
		h.stats.lateAfterCancel++
	}
	chunk := q.reply[q.sent : q.sent+n]
	q.sent += n
	c := h.srv.snapshot()[conn]
	c.Deliver(chunk)
	deadline := time.Now().Add(vfStall)
	for !c.Drained() {
		if time.Now().After(deadline) {
			vfkit.Inconclusive("C06: delivered reply octets were not consumed")
		}
		time.Sleep(20 * time.Microsecond)
	}
	if q.done() && !q.garbage && e != nil && !e.finished() {
		select {
		case <-e.done:
		case <-time.After(vfStall):
			vfkit.Inconclusive("C06: exchange %d did not return after its complete reply was consumed", e.token)
		}
	}
}

func TestVfC06Reuse(t *testing.T) {
	st := vfkit.Stats("TestVfC06Reuse", "state-machine histories over ReuseConnTransport (in-memory stream connection, idle timeout 1 h or 30 ms) with actions start/cancel/reply whole|chunked|partial|finish/abort/server-close/idle-wait; invariants: <= 1 outstanding query per connection as seen by the server, every returned message is the reply to the exchange's own query with its own ID, caller's bytes untouched; non-trivial = a cancellation while the reply was pending followed by the late reply and by another exchange")
	defer vfkit.Flush()
	rapid.Check(t, func(t *rapid.T) {
		srv := &vfServerSide{}
		idleTimeout := rapid.SampledFrom([]time.Duration{time.Hour, time.Hour, 30 * time.Millisecond}).Draw(t, "idleTimeout")
		tr := transport.NewReuseConnTransport(transport.ReuseConnOpts{DialContext: srv.dial, IdleTimeout: idleTimeout})
		h := &vfC06{t: t, srv: srv, tr: tr, readers: map[int]*vfMsgReader{}, queries: map[int][]*vfC06Query{}, byTok: map[uint32][]vfWire{}, replyOf: map[uint32]uint32{}}
		defer func() {
			for _, e := range h.exchs {
				e.cancel()
			}
			tr.Close()
			for _, c := range srv.snapshot() {
				c.ServerClose(errors.New("harness: end of case"))
			}
			for _, e := range h.exchs {
				select {
				case <-e.done:
				case <-time.After(vfStall):
					vfkit.Inconclusive("C06: exchange did not return at the end of the case")
				}
			}
		}()
		afterCancelStart := false
		// An action whose precondition does not hold starts an exchange instead of skipping: rapid gives up
		// ("can't find a valid action") after 100 consecutive skipped picks, which happens once in a while
		// when only one of ten actions is always enabled.
		var start func(t *rapid.T)
		start = func(t *rapid.T) {
			h.nextTok++
			e := &vfExch{token: h.nextTok, callerID: rapid.Uint16().Draw(t, "callerID"), done: make(chan struct{})}
			e.query = vfQuery(e.callerID, e.token)
			e.orig = append([]byte(nil), e.query...)
			ctx, cancel := context.WithCancel(context.Background())
			e.cancel = cancel
			h.exchs = append(h.exchs, e)
			if rapid.IntRange(0, 5).Draw(t, "alreadyCancelled") == 0 {
				cancel() // the caller has given up before the exchange even starts (e.g. a fallback after the deadline)
				h.stats.preCancelled++
			}
			// callers end their context as soon as they have their answer (`defer cancel()` around the exchange) and go on
			// using the message: in every other exchange the context is cancelled the moment the call returns, and the
			// message is looked at a little later
			cancelOnReturn := rapid.Bool().Draw(t, "cancelOnReturn")
			lookAfter := time.Duration(rapid.SampledFrom([]int{0, 0, 20, 200}).Draw(t, "lookAfterMicros")) * time.Microsecond
			go func() {
				defer close(e.done)
				m, err := tr.ExchangeContext(ctx, e.query)
				if cancelOnReturn {
					cancel()
					if lookAfter > 0 {
						time.Sleep(lookAfter)
					} else {
						runtime.Gosched()
					}
				}
				e.err = err
				if m != nil {
					e.gotMsg = true
					e.respID = m.Header.ID
					e.respTok, e.tokOK = vfReplyToken(m)
					dnsmsg.ReleaseMsg(m)
				}
			}()
			h.settle()
			if h.stats.cancelPending > 0 {
				afterCancelStart = true
			}
		}
		t.Repeat(map[string]func(*rapid.T){
			"start": func(t *rapid.T) { start(t) },
			"cancel": func(t *rapid.T) {
				var act []*vfExch
				for _, e := range h.exchs {
					if !e.finished() {
						act = append(act, e)
					}
				}
				if len(act) == 0 {
					start(t)
					return
				}
				e := act[rapid.IntRange(0, len(act)-1).Draw(t, "which")]
				e.cancel()
				select {
				case <-e.done:
				case <-time.After(vfStall):
					vfkit.Inconclusive("C06: exchange %d did not return after cancellation", e.token)
				}
				h.stats.cancelPending++
				h.settle()
			},
			"replyWhole": func(t *rapid.T) {
				p := h.pending()
				if len(p) == 0 {
					start(t)
					return
				}
				h.send(p[rapid.IntRange(0, len(p)-1).Draw(t, "conn")], 1<<20)
				h.settle()
			},
			"replyChunked": func(t *rapid.T) {
				p := h.pending()
				if len(p) == 0 {
					start(t)
					return
				}
				c := p[rapid.IntRange(0, len(p)-1).Draw(t, "conn")]
				for len(h.pending()) > 0 && !h.queries[c][len(h.queries[c])-1].done() {
					h.send(c, rapid.IntRange(1, 9).Draw(t, "chunk"))
					h.stats.chunks++
				}
				h.settle()
			},
			"replyPartial": func(t *rapid.T) {
				p := h.pending()
				if len(p) == 0 {
					start(t)
					return
				}
				c := p[rapid.IntRange(0, len(p)-1).Draw(t, "conn")]
				q := h.queries[c][len(h.queries[c])-1]
				left := len(q.reply) - q.sent
				if left < 2 {
					start(t)
					return
				}
				h.send(c, rapid.IntRange(1, left-1).Draw(t, "part"))
				h.stats.partial++
				h.settle()
			},
			"replyGarbage": func(t *rapid.T) {
				p := h.pending()
				if len(p) == 0 {
					start(t)
					return
				}
				c := p[rapid.IntRange(0, len(p)-1).Draw(t, "conn")]
				q := h.queries[c][len(h.queries[c])-1]
				if q.sent > 0 {
					start(t)
					return
				}
				body, _ := vfkit.GenHostile(t)
				if d := vfkit.Decode(body); d.Err == nil && d.Counts == d.Present {
					start(t)
					return
				}
				if len(body) > 2000 {
					body = body[:2000]
				}
				q.reply = vfFrame(body)
				q.garbage = true
				delete(h.replyOf, q.replyTok)
				h.stats.garbage++
				h.send(c, 1<<20)
				h.settle()
			},
			"abortReply": func(t *rapid.T) {
				p := h.pending()
				if len(p) == 0 {
					start(t)
					return
				}
				c := p[rapid.IntRange(0, len(p)-1).Draw(t, "conn")]
				var err error
				if rapid.Bool().Draw(t, "rst") {
					err = errors.New("connection reset by peer")
				}
				srv.snapshot()[c].ServerClose(err)
				h.stats.aborts++
				h.settle()
			},
			"serverCloseIdle": func(t *rapid.T) {
				var idle []int
				for _, c := range srv.snapshot() {
					qs := h.queries[c.ID]
					if h.connOpen(c.ID) && (len(qs) == 0 || qs[len(qs)-1].done()) {
						idle = append(idle, c.ID)
					}
				}
				if len(idle) == 0 {
					start(t)
					return
				}
				srv.snapshot()[idle[rapid.IntRange(0, len(idle)-1).Draw(t, "conn")]].ServerClose(nil)
				h.settle()
			},
			"idleWait": func(t *rapid.T) {
				if idleTimeout > time.Second {
					start(t)
					return
				}
				time.Sleep(time.Duration(rapid.IntRange(20, 45).Draw(t, "ms")) * time.Millisecond)
				h.stats.idle++
				h.settle()
			},
			"": func(t *rapid.T) {
				h.scan()
				h.check()
			},
		})
		h.scan()
		h.check()
		nontrivial := h.stats.cancelPending > 0 && h.stats.lateAfterCancel > 0 && afterCancelStart
		classes := []string{}
		for n, v := range map[string]int{"cancel": h.stats.cancelPending, "late-after-cancel": h.stats.lateAfterCancel, "reuse": h.stats.reuse, "reuse-after-cancel": h.stats.reuseAfterCancel, "chunked": h.stats.chunks, "partial": h.stats.partial, "abort": h.stats.aborts, "garbage-reply": h.stats.garbage, "idle-wait": h.stats.idle, "start-already-cancelled": h.stats.preCancelled} {
			if v > 0 {
				classes = append(classes, n)
			}
		}
		st.Case(vfkit.Fingerprint(fmt.Sprint(h.byTok), fmt.Sprintf("%+v", h.stats)), nontrivial, classes, func() any {
			return map[string]any{"exchanges": len(h.exchs), "connections": len(srv.snapshot()), "stats": fmt.Sprintf("%+v", h.stats), "placement": fmt.Sprint(h.byTok)}
		})
	})
}

// TestVfC06RespTimeout covers the one timing the state machine cannot afford to visit often: the
// transport's own response timeout (6 s). The server stays silent past it, replies late (before or after
// the next query arrives, whole or in chunks), and further exchanges follow.
func TestVfC06RespTimeout(t *testing.T) {
	st := vfkit.Stats("TestVfC06RespTimeout", "a non-pipelined connection whose server stays silent beyond the transport's 6 s response timeout for exchange 1 (no caller deadline; in one case of three after the first 3 / 5 / 14 / all-but-one octets of the reply), then sends the late reply (or its remainder) before / after 1-3 further exchanges start, whole or in two chunks; oracle: the server never sees a query on a connection whose previous reply is outstanding, and every returned message answers the exchange's own query; non-trivial = every case")
	defer vfkit.Flush()
	rapid.Check(t, func(t *rapid.T) {
		srv := &vfServerSide{}
		tr := transport.NewReuseConnTransport(transport.ReuseConnOpts{DialContext: srv.dial, IdleTimeout: time.Hour})
		defer tr.Close()
		lateFirst := rapid.Bool().Draw(t, "lateReplyBeforeNextQuery")
		chunked := rapid.Bool().Draw(t, "chunked")
		followers := rapid.IntRange(1, 3).Draw(t, "followers")
		warm := rapid.IntRange(0, 1).Draw(t, "warmConnection") == 0
		// the reply to exchange 1 may also have begun before the silence: its first 3, 5 or 14 octets, or all but the last
		// one, arrive at once - the rest only after the response timeout (a reply that was started is not a consumed one)
		partial := rapid.SampledFrom([]int{0, 0, 3, 5, 14, -1}).Draw(t, "octetsBeforeTheSilence")

		type answer struct {
			gotMsg bool
			tok    uint32
			id     uint16
			err    error
		}
		run := func(id uint16, tok uint32) chan answer {
			ch := make(chan answer, 1)
			go func() {
				m, err := tr.ExchangeContext(context.Background(), vfQuery(id, tok))
				a := answer{err: err}
				if m != nil {
					a.gotMsg = true
					a.id = m.Header.ID
					a.tok, _ = vfReplyToken(m)
					dnsmsg.ReleaseMsg(m)
				}
				ch <- a
			}()
			return ch
		}
		readers := map[int]*vfMsgReader{}
		type seenQ struct {
			conn int
			wid  uint16
			tok  uint32
		}
		var seen []seenQ
		outstanding := map[int]bool{}
		poll := func() {
			for _, c := range srv.snapshot() {
				rd := readers[c.ID]
				if rd == nil {
					rd = &vfMsgReader{c: c}
					readers[c.ID] = rd
				}
				for _, m := range rd.poll() {
					wid, tok, err := vfParseQuery(m)
					if err != nil {
						t.Fatalf("%v", err)
					}
					if outstanding[c.ID] {
						t.Fatalf("connection %d received the query of exchange %d while the reply to its previous query is still outstanding (the response timeout had fired for that exchange)", c.ID, tok)
					}
					outstanding[c.ID] = true
					seen = append(seen, seenQ{c.ID, wid, tok})
				}
			}
		}
		waitQuery := func(tok uint32, d time.Duration) (seenQ, bool) {
			deadline := time.Now().Add(d)
			for {
				poll()
				for _, s := range seen {
					if s.tok == tok {
						return s, true
					}
				}
				if time.Now().After(deadline) {
					return seenQ{}, false
				}
				time.Sleep(time.Millisecond)
			}
		}
		reply := func(s seenQ, rtok uint32, inChunks bool) {
			f := vfFrame(vfReply(s.wid, s.tok, rtok))
			c := srv.snapshot()[s.conn]
			if inChunks {
				c.Deliver(f[:len(f)/2])
				time.Sleep(2 * time.Millisecond)
				c.Deliver(f[len(f)/2:])
			} else {
				c.Deliver(f)
			}
			outstanding[s.conn] = false
		}
		check := func(a answer, tok uint32, id uint16) {
			if a.gotMsg && (a.tok != 1000+tok || a.id != id) {
				t.Fatalf("exchange %d (ID %d) returned the reply to exchange %d (ID %d)", tok, id, a.tok-1000, a.id)
			}
		}
		if warm {
			ch := run(7, 99)
			q, ok := waitQuery(99, vfStall)
			if !ok {
				vfkit.Inconclusive("C06 timeout: warm query never written")
			}
			reply(q, 1099, false)
			check(<-ch, 99, 7)
		}
		// exchange 1: silence beyond the response timeout
		ch1 := run(11, 1)
		q1, ok := waitQuery(1, vfStall)
		if !ok {
			vfkit.Inconclusive("C06 timeout: query 1 never written")
		}
		f1 := vfFrame(vfReply(q1.wid, q1.tok, 1001))
		if partial < 0 {
			partial = len(f1) - 1
		}
		if partial > 0 {
			srv.snapshot()[q1.conn].Deliver(f1[:partial])
		}
		lateReply := func() {
			if partial > 0 {
				srv.snapshot()[q1.conn].Deliver(f1[partial:])
				outstanding[q1.conn] = false
				return
			}
			reply(q1, 1001, chunked)
		}
		var a1 answer
		// When exchange 1 went out on a connection reused from the pool, its time-out there is a failure of that
		// connection: the transport asks again on a new one. In half of those cases the server answers that second query
		// at once (it is healthy, only the old connection is stuck), and then exchange 1 has to succeed.
		retryAnswered := warm && rapid.Bool().Draw(t, "retryOnTheNewConnectionIsAnswered")
		if retryAnswered {
			answered := false
			got := false
			for until := time.Now().Add(16 * time.Second); time.Now().Before(until) && !got; {
				select {
				case a1 = <-ch1:
					got = true
				case <-time.After(2 * time.Millisecond):
				}
				if answered || got {
					continue
				}
				poll()
				for _, sq := range seen {
					if sq.tok == 1 && sq.conn != q1.conn {
						reply(sq, 1001, chunked)
						answered = true
					}
				}
			}
			if !got {
				vfkit.Inconclusive("C06 timeout: exchange 1 did not return within 16 s")
			}
			if !a1.gotMsg {
				t.Fatalf("exchange 1 was written to a connection reused from the pool, which stayed silent until the response time-out; the server answers on new connections at once (retry query seen on a new connection: %v), yet the exchange failed: %v", answered, a1.err)
			}
		} else {
			select {
			case a1 = <-ch1:
			case <-time.After(16 * time.Second): // 6 s, plus 6 s more when a reused connection is retried on a fresh one
				vfkit.Inconclusive("C06 timeout: exchange 1 did not time out within 16 s")
			}
		}
		// a reused connection that timed out is retried on a new one: serve that retry silently too (it times out as well)
		check(a1, 1, 11)
		if lateFirst {
			if !srv.snapshot()[q1.conn].ClientClosed() {
				lateReply()
				time.Sleep(5 * time.Millisecond)
			} else {
				outstanding[q1.conn] = false
			}
		}
		for f := 0; f < followers; f++ {
			tok := uint32(2 + f)
			ch := run(uint16(20+f), tok)
			q, ok := waitQuery(tok, vfStall)
			if !ok {
				// the exchange may have failed without writing (allowed); it must not hang
				select {
				case a := <-ch:
					check(a, tok, uint16(20+f))
					continue
				case <-time.After(8 * time.Second):
					vfkit.Inconclusive("C06 timeout: follower neither wrote a query nor returned")
				}
			}
			if !lateFirst && f == 0 && !srv.snapshot()[q1.conn].ClientClosed() && q.conn != q1.conn {
				lateReply() // the late reply arrives while the follower is waiting elsewhere
			}
			reply(q, 1000+tok, false)
			select {
			case a := <-ch:
				check(a, tok, uint16(20+f))
			case <-time.After(8 * time.Second):
				vfkit.Inconclusive("C06 timeout: follower did not return after its reply")
			}
		}
		poll()
		st.Case(vfkit.Fingerprint(lateFirst, chunked, followers, warm, partial), true, []string{fmt.Sprintf("reply-begun-before-the-silence=%v", partial > 0)}, func() any {
			return map[string]any{"late_reply_before_next_query": lateFirst, "chunked": chunked, "followers": followers, "warm": warm, "connections": len(srv.snapshot())}
		})
	})
}
