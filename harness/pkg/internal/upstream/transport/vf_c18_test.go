package transport_test

// C18 at the transport level: Close() of the one-at-a-time transport races with the idle timer of a pooled connection
// and with an exchange that picks that connection up at the very moment the timer fires. Whatever order the three end
// up in, after Close() has returned no exchange hangs and no dialled connection stays open.

import (
	"context"
	"fmt"
	"net"
	"sync"
	"testing"
	"time"

	"github.com/IrineSistiana/mosproxy/internal/dnsmsg"
	"github.com/IrineSistiana/mosproxy/internal/upstream/transport"
	"pgregory.net/rapid"
	"vfkit"
)

func TestVfC18ReuseIdleRace(t *testing.T) {
	st := vfkit.Stats("TestVfC18ReuseIdleRace", "ReuseConnTransport over in-memory connections, idle_timeout 6-15 ms, a server that answers only the first query of each connection; 6-12 rounds per case: an exchange leaves a connection in the idle pool, a second exchange (context without deadline) is started at a drawn offset of -300..+1500 us around the expiry of the idle timer (busy-waited), Close() follows 0-2 ms later; oracle: Close() returns within 2 s, the second exchange returns within 1 s of it, and every connection the transport dialled is closed 1 s after it; non-trivial = the second exchange started between 150 us before and 800 us after the nominal expiry (timers fire late)")
	defer vfkit.Flush()
	rapid.Check(t, func(t *rapid.T) {
		idle := time.Duration(rapid.IntRange(6, 15).Draw(t, "idleMs")) * time.Millisecond
		rounds := rapid.IntRange(6, 12).Draw(t, "rounds")
		near, reused := 0, 0
		for r := 0; r < rounds; r++ {
			var mu sync.Mutex
			var conns []*vfkit.MemConn
			stop := make(chan struct{})
			tr := transport.NewReuseConnTransport(transport.ReuseConnOpts{IdleTimeout: idle, DialContext: func(ctx context.Context) (net.Conn, error) {
				mu.Lock()
				c := vfkit.NewMemConn(false, len(conns))
				conns = append(conns, c)
				mu.Unlock()
				go func() { // answers the first query of the connection, swallows the rest
					rd := &vfMsgReader{c: c}
					for {
						select {
						case <-stop:
							return
						default:
						}
						if ms := rd.poll(); len(ms) > 0 {
							wid, tok, err := vfParseQuery(ms[0])
							if err == nil {
								c.Deliver(vfFrame(vfReply(wid, tok, 1)))
							}
							return
						}
						if c.ClientClosed() {
							return
						}
						time.Sleep(50 * time.Microsecond)
					}
				}()
				return c, nil
			}})
			ex := func(ctx context.Context, id uint16, tok uint32) error {
				m, err := tr.ExchangeContext(ctx, vfQuery(id, tok))
				if m != nil {
					dnsmsg.ReleaseMsg(m)
				}
				return err
			}
			ctx1, c1 := context.WithTimeout(context.Background(), 2*time.Second)
			err := ex(ctx1, 7, 1)
			c1()
			if err != nil {
				close(stop)
				tr.Close()
				vfkit.Inconclusive("C18 idle race: the first exchange failed: %v", err)
			}
			t1 := time.Now()
			off := time.Duration(rapid.IntRange(-300, 1500).Draw(t, "offsetMicros")) * time.Microsecond
			if off > -150*time.Microsecond && off < 800*time.Microsecond {
				near++
			}
			target := t1.Add(idle + off)
			if d := time.Until(target) - 500*time.Microsecond; d > 0 {
				time.Sleep(d)
			}
			for time.Now().Before(target) { // busy-wait for the last stretch
			}
			ctx2, c2 := context.WithCancel(context.Background())
			done2 := make(chan error, 1)
			go func() { done2 <- ex(ctx2, 8, 2) }()
			time.Sleep(time.Duration(rapid.SampledFrom([]int{0, 100, 500, 2000}).Draw(t, "closeAfterMicros")) * time.Microsecond)
			closed := make(chan struct{})
			go func() { tr.Close(); close(closed) }()
			select {
			case <-closed:
			case <-time.After(2 * time.Second):
				c2()
				close(stop)
				t.Fatalf("Close() of the reuse transport did not return within 2 s (idle_timeout %v, second exchange started %v after the nominal expiry)", idle, off)
			}
			select {
			case <-done2:
			case <-time.After(time.Second):
				c2()
				close(stop)
				t.Fatalf("an exchange started %v around the expiry of a pooled connection's idle timer (idle_timeout %v) has not returned 1 s after Close() returned: it hangs on a connection the transport no longer knows", off, idle)
			}
			c2()
			mu.Lock()
			cs := append([]*vfkit.MemConn(nil), conns...)
			mu.Unlock()
			if len(cs) == 1 {
				reused++
			}
			deadline := time.Now().Add(time.Second)
			for i, c := range cs {
				for !c.ClientClosed() {
					if time.Now().After(deadline) {
						close(stop)
						t.Fatalf("connection %d of %d dialled by the transport is still open 1 s after Close() returned (idle_timeout %v, second exchange started %v around the expiry of the idle timer)", i, len(cs), idle, off)
					}
					time.Sleep(200 * time.Microsecond)
				}
			}
			close(stop)
		}
		st.Case(vfkit.Fingerprint(idle, rounds, near, reused), near > 0, []string{fmt.Sprintf("idle=%v", idle)}, func() any {
			return map[string]any{"idle_ms": idle.Milliseconds(), "rounds": rounds, "started_within_150us_of_expiry": near, "rounds_where_the_pooled_connection_was_reused": reused}
		})
	})
}
