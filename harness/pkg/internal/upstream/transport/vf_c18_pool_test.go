package transport_test

import (
	"context"
	"fmt"
	"io"
	"net"
	"sync"
	"testing"
	"time"

	"github.com/IrineSistiana/mosproxy/internal/dnsmsg"
	"github.com/IrineSistiana/mosproxy/internal/upstream/transport"
	"pgregory.net/rapid"
	"vfkit"
)

// TestVfC18CloseVsDeadPool: Close() of the one-at-a-time transport while exchanges are working their way through an
// idle pool whose connections the server has dropped (each failure takes a connection out of the pool, and after a
// few of them the rest of the pool is thrown away). Close returns promptly, nothing crashes (the test runs under the
// race detector), every exchange returns, and every connection that was dialled is closed.
func TestVfC18CloseVsDeadPool(t *testing.T) {
	st := vfkit.Stats("TestVfC18CloseVsDeadPool", "ReuseConnTransport over in-memory connections (race detector on): 3-400 idle connections pooled by as many simultaneous exchanges, all dropped by the server, then 1-4 new exchanges and Close() 0-400 us apart (either first); oracle: Close returns within 2 s, no crash / data race, every exchange returns within 2 s of Close, every dialled connection is closed by the client within 2 s; non-trivial = the pool held at least 8 dead connections")
	defer vfkit.Flush()
	rapid.Check(t, func(t *rapid.T) {
		n := rapid.OneOf(rapid.IntRange(3, 40), rapid.SampledFrom([]int{100, 400})).Draw(t, "pooled")
		var mu sync.Mutex
		var conns []*vfkit.MemConn
		hold := make(chan struct{})
		stop := make(chan struct{})
		defer close(stop)
		tr := transport.NewReuseConnTransport(transport.ReuseConnOpts{IdleTimeout: time.Hour, DialContext: func(ctx context.Context) (net.Conn, error) {
			mu.Lock()
			c := vfkit.NewMemConn(false, len(conns))
			conns = append(conns, c)
			mu.Unlock()
			go func() { // answers every query of the connection, the first one only when `hold` is released
				rd := &vfMsgReader{c: c}
				first := true
				for {
					select {
					case <-stop:
						return
					default:
					}
					for _, m := range rd.poll() {
						if wid, tok, err := vfParseQuery(m); err == nil {
							if first {
								select {
								case <-hold:
								case <-stop:
									return
								}
								first = false
							}
							c.Deliver(vfFrame(vfReply(wid, tok, 1)))
						}
					}
					if c.ClientClosed() || c.ServerClosed() {
						return
					}
					time.Sleep(50 * time.Microsecond)
				}
			}()
			return c, nil
		}})
		ex := func(ctx context.Context, id uint16, tok uint32) error {
			m, err := tr.ExchangeContext(ctx, vfQuery(id, tok))
			if m != nil {
				dnsmsg.ReleaseMsg(m)
			}
			return err
		}
		// fill the pool: n exchanges at once, answered only when all n connections exist
		var wg sync.WaitGroup
		errs := make([]error, n)
		for i := 0; i < n; i++ {
			wg.Add(1)
			go func(i int) {
				defer wg.Done()
				ctx, cancel := context.WithTimeout(context.Background(), 5*time.Second)
				defer cancel()
				errs[i] = ex(ctx, uint16(i), uint32(i+1))
			}(i)
		}
		for until := time.Now().Add(3 * time.Second); ; time.Sleep(200 * time.Microsecond) {
			mu.Lock()
			k := len(conns)
			mu.Unlock()
			if k >= n || time.Now().After(until) {
				break
			}
		}
		close(hold)
		wg.Wait()
		for i, err := range errs {
			if err != nil {
				tr.Close()
				vfkit.Inconclusive("C18 dead pool: filling exchange %d failed: %v", i, err)
			}
		}
		time.Sleep(2 * time.Millisecond) // the connections go back to the pool after the exchanges have returned
		// the server drops them all
		mu.Lock()
		pooled := append([]*vfkit.MemConn(nil), conns...)
		mu.Unlock()
		for _, c := range pooled {
			c.ServerClose(io.EOF)
		}
		// new exchanges and Close, a drawn distance apart
		k := rapid.IntRange(1, 4).Draw(t, "exchanges")
		gap := time.Duration(rapid.IntRange(-400, 400).Draw(t, "closeAfterMicros")) * time.Microsecond
		done := make(chan error, k)
		startEx := func() {
			for i := 0; i < k; i++ {
				go func(i int) {
					ctx, cancel := context.WithTimeout(context.Background(), 3*time.Second)
					defer cancel()
					done <- ex(ctx, uint16(1000+i), uint32(100000+i))
				}(i)
			}
		}
		closed := make(chan struct{})
		startClose := func() { go func() { tr.Close(); close(closed) }() }
		if gap >= 0 {
			startEx()
			for t0 := time.Now(); time.Since(t0) < gap; {
			}
			startClose()
		} else {
			startClose()
			for t0 := time.Now(); time.Since(t0) < -gap; {
			}
			startEx()
		}
		select {
		case <-closed:
		case <-time.After(2 * time.Second):
			t.Fatalf("Close() of the transport has not returned after 2 s (%d dead connections in the idle pool, %d exchanges started %v before it)", n, k, gap)
		}
		for i := 0; i < k; i++ {
			select {
			case <-done:
			case <-time.After(2 * time.Second):
				t.Fatalf("an exchange has not returned 2 s after Close() of its transport (%d dead connections in the idle pool)", n)
			}
		}
		for until := time.Now().Add(2 * time.Second); ; time.Sleep(time.Millisecond) {
			open := -1
			mu.Lock()
			all := append([]*vfkit.MemConn(nil), conns...)
			mu.Unlock()
			for i, c := range all {
				if !c.ClientClosed() {
					open = i
				}
			}
			if open < 0 {
				break
			}
			if time.Now().After(until) {
				t.Fatalf("connection %d of %d dialled by the transport is still open 2 s after Close() (%d had been dropped by the server while idle; %d exchanges, Close %v after them)", open, len(all), n, k, gap)
			}
		}
		st.Case(vfkit.Fingerprint(n, k, gap), n >= 8, []string{fmt.Sprintf("pool>=100=%v", n >= 100), fmt.Sprintf("close-first=%v", gap < 0)}, func() any {
			return map[string]any{"dead_pooled": n, "exchanges": k, "close_after": gap.String(), "dialled": len(conns)}
		})
	})
}
