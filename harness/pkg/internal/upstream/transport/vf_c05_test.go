package transport_test

// C05 - multiplexed upstream replies reach exactly the exchange that asked.
// rapid state machine over PipelineTransport with an in-memory connection whose schedule the
// harness owns: it sees every query on the wire (wire ID + token) and decides when which reply
// becomes readable.

import (
	"bytes"
	"context"
	"errors"
	"fmt"
	"runtime"
	"sync/atomic"
	"testing"
	"time"

	"github.com/IrineSistiana/mosproxy/internal/dnsmsg"
	"github.com/IrineSistiana/mosproxy/internal/upstream/transport"
	"pgregory.net/rapid"
	"vfkit"
)

type vfExch struct {
	token    uint32
	callerID uint16
	query    []byte
	orig     []byte
	cancel   context.CancelFunc
	done     chan struct{}
	// result (valid after done)
	gotMsg  bool
	respID  uint16
	respTok uint32
	tokOK   bool
	err     error
	checked bool
}

func (e *vfExch) finished() bool {
	select {
	case <-e.done:
		return true
	default:
		return false
	}
}

type vfWire struct {
	conn   int
	wireID uint16
}

type vfC05 struct {
	t         *rapid.T
	srv       *vfServerSide
	tr        *transport.PipelineTransport
	exchs     []*vfExch
	readers   map[int]*vfMsgReader
	ids       map[int]map[uint16]uint32 // conn -> wire id -> token
	owner     map[uint32][]vfWire       // exchange token -> wires it used
	delivered map[uint32]vfWire         // reply token -> where it was sent
	replied   map[vfWire]bool
	returned  map[uint32]uint32 // reply token -> exchange token that returned it
	nextTok   uint32
	nextRTok  uint32
	stats     struct{ overlap, reorder, dup, unsolicited, late, closes, retried, replyAndClose, cutOff, flood int }
}

func (h *vfC05) scan() {
	for _, c := range h.srv.snapshot() {
		rd := h.readers[c.ID]
		if rd == nil {
			rd = &vfMsgReader{c: c, datagram: h.srv.datagram}
			h.readers[c.ID] = rd
		}
		for _, m := range rd.poll() {
			wid, tok, err := vfParseQuery(m)
			if err != nil {
				h.t.Fatalf("conn %d: %v", c.ID, err)
			}
			if h.ids[c.ID] == nil {
				h.ids[c.ID] = map[uint16]uint32{}
			}
			if prev, dup := h.ids[c.ID][wid]; dup {
				h.t.Fatalf("wire ID %d used twice on connection %d (exchange tokens %d and %d)", wid, c.ID, prev, tok)
			}
			h.ids[c.ID][wid] = tok
			if len(h.owner[tok]) > 0 {
				h.stats.retried++
			}
			h.owner[tok] = append(h.owner[tok], vfWire{c.ID, wid})
		}
	}
}

func (h *vfC05) connOpen(id int) bool {
	c := h.srv.snapshot()[id]
	return !c.ClientClosed() && !c.ServerClosed()
}

// settle waits until every active exchange has a query outstanding on an open connection (or has
// returned) and every connection has consumed what was delivered.
func (h *vfC05) settle() {
	deadline := time.Now().Add(vfStall)
	for {
		h.scan()
		ok := true
		for _, c := range h.srv.snapshot() {
			if !c.WaitQuiet(time.Millisecond) {
				ok = false
			}
		}
		for _, e := range h.exchs {
			if e.finished() {
				continue
			}
			live := false
			for _, w := range h.owner[e.token] {
				if h.connOpen(w.conn) {
					live = true
				}
			}
			if !live {
				ok = false
			}
		}
		if ok {
			return
		}
		if time.Now().After(deadline) {
			vfkit.Inconclusive("C05: transport did not reach a quiescent state within %v", vfStall)
		}
		time.Sleep(100 * time.Microsecond)
	}
}

func (h *vfC05) waitDone(e *vfExch, what string) {
	select {
	case <-e.done:
	case <-time.After(vfStall):
		vfkit.Inconclusive("C05: exchange %d did not return within %v after %s (a stalled delivery is outside the statement)", e.token, vfStall, what)
	}
}

func (h *vfC05) check() {
	for _, e := range h.exchs {
		if !e.finished() || e.checked {
			continue
		}
		e.checked = true
		if !bytes.Equal(e.query, e.orig) {
			h.t.Fatalf("exchange %d: the caller's query bytes were modified", e.token)
		}
		if !e.gotMsg {
			continue
		}
		if e.respID != e.callerID {
			h.t.Fatalf("exchange %d: response ID %d, caller's ID %d", e.token, e.respID, e.callerID)
		}
		if !e.tokOK {
			h.t.Fatalf("exchange %d returned a message the server never sent", e.token)
		}
		w, ok := h.delivered[e.respTok]
		if !ok {
			h.t.Fatalf("exchange %d returned reply token %d that was never delivered", e.token, e.respTok)
		}
		mine := false
		for _, o := range h.owner[e.token] {
			if o == w {
				mine = true
			}
		}
		if !mine {
			h.t.Fatalf("exchange %d (wires %v) returned reply %d which the server sent on connection %d with wire ID %d (belonging to exchange %d)",
				e.token, h.owner[e.token], e.respTok, w.conn, w.wireID, h.ids[w.conn][w.wireID])
		}
		if other, dup := h.returned[e.respTok]; dup {
			h.t.Fatalf("reply %d satisfied two exchanges: %d and %d", e.respTok, other, e.token)
		}
		h.returned[e.respTok] = e.token
	}
}

func (h *vfC05) deliver(conn int, wireID uint16, qtok uint32) uint32 {
	h.nextRTok++
	rt := h.nextRTok
	b := vfReply(wireID, qtok, rt)
	if !h.srv.datagram {
		b = vfFrame(b)
	}
	h.delivered[rt] = vfWire{conn, wireID}
	h.srv.snapshot()[conn].Deliver(b)
	return rt
}

func (h *vfC05) active() []*vfExch {
	var a []*vfExch
	for _, e := range h.exchs {
		if !e.finished() {
			a = append(a, e)
		}
	}
	return a
}

func (h *vfC05) exchByToken(tok uint32) *vfExch {
	for _, e := range h.exchs {
		if e.token == tok {
			return e
		}
	}
	return nil
}

func TestVfC05Pipeline(t *testing.T) {
	st := vfkit.Stats("TestVfC05Pipeline", "state-machine histories over PipelineTransport (datagram and stream flavour, max concurrent 1-64) with actions start/cancel/reply-any-order/duplicate/unsolicited/late-after-cancel/cut-off datagram with a waiting wire ID/burst/server-close on an in-memory connection with a harness-owned schedule; invariants after every step: returned reply was sent with this exchange's wire ID on its connection, caller ID restored, no reply satisfies two exchanges, wire IDs distinct per connection, caller's bytes untouched; non-trivial = >= 2 overlapping exchanges and >= 1 of reorder/duplicate/unsolicited/late")
	defer vfkit.Flush()
	rapid.Check(t, func(t *rapid.T) {
		srv := &vfServerSide{datagram: rapid.Bool().Draw(t, "datagram")}
		tr := transport.NewPipelineTransport(transport.PipelineOpts{
			DialContext:        srv.dial,
			IsTCP:              !srv.datagram,
			IdleTimeout:        time.Hour,
			MaxConcurrentQuery: rapid.SampledFrom([]int{1, 2, 4, 64}).Draw(t, "maxConcurrent"),
		})
		h := &vfC05{t: t, srv: srv, tr: tr, readers: map[int]*vfMsgReader{}, ids: map[int]map[uint16]uint32{}, owner: map[uint32][]vfWire{},
			delivered: map[uint32]vfWire{}, replied: map[vfWire]bool{}, returned: map[uint32]uint32{}}
		defer func() {
			for _, e := range h.exchs {
				e.cancel()
			}
			for _, e := range h.exchs {
				select {
				case <-e.done:
				case <-time.After(vfStall):
					vfkit.Inconclusive("C05: exchange did not return after cancellation")
				}
			}
			tr.Close()
		}()

		start := func(t *rapid.T) {
			h.nextTok++
			e := &vfExch{token: h.nextTok, callerID: rapid.Uint16().Draw(t, "callerID"), done: make(chan struct{})}
			e.query = vfQuery(e.callerID, e.token)
			e.orig = append([]byte(nil), e.query...)
			ctx, cancel := context.WithCancel(context.Background())
			e.cancel = cancel
			if len(h.active()) >= 1 {
				h.stats.overlap++
			}
			h.exchs = append(h.exchs, e)
			go func() {
				defer close(e.done)
				m, err := tr.ExchangeContext(ctx, e.query)
				e.err = err
				if m != nil {
					e.gotMsg = true
					e.respID = m.Header.ID
					e.respTok, e.tokOK = vfReplyToken(m)
					dnsmsg.ReleaseMsg(m)
				}
			}()
			h.settle()
		}
		pickWire := func(t *rapid.T, wantActive bool) (vfWire, uint32, bool) {
			var cands []vfWire
			for c, m := range h.ids {
				if !h.connOpen(c) {
					continue
				}
				for w, tok := range m {
					e := h.exchByToken(tok)
					act := e != nil && !e.finished()
					if act == wantActive {
						cands = append(cands, vfWire{c, w})
					}
				}
			}
			if len(cands) == 0 {
				return vfWire{}, 0, false
			}
			// deterministic order for reproducibility
			for i := 1; i < len(cands); i++ {
				for j := i; j > 0 && (cands[j].conn < cands[j-1].conn || (cands[j].conn == cands[j-1].conn && cands[j].wireID < cands[j-1].wireID)); j-- {
					cands[j], cands[j-1] = cands[j-1], cands[j]
				}
			}
			w := cands[rapid.IntRange(0, len(cands)-1).Draw(t, "wire")]
			return w, h.ids[w.conn][w.wireID], true
		}

		t.Repeat(map[string]func(*rapid.T){
			"start": start,
			"startBurst": func(t *rapid.T) {
				for i := rapid.IntRange(2, 5).Draw(t, "n"); i > 0; i-- {
					start(t)
				}
			},
			// The reply AND the end of the connection both arrive while the exchange is still inside its write: when the
			// writer comes back it finds both ready at once. Whatever it returns then, a message must be its own reply
			// under the caller's ID.
			"replyAndCloseDuringWrite": func(t *rapid.T) {
				setHold := func(on bool) {
					srv.mu.Lock()
					srv.holdNew = on
					cs := append([]*vfkit.MemConn(nil), srv.conns...)
					srv.mu.Unlock()
					for _, c := range cs {
						c.HoldWrites(on)
					}
				}
				setHold(true)
				h.nextTok++
				e := &vfExch{token: h.nextTok, callerID: rapid.Uint16().Draw(t, "callerID"), done: make(chan struct{})}
				e.query = vfQuery(e.callerID, e.token)
				e.orig = append([]byte(nil), e.query...)
				ctx, cancel := context.WithCancel(context.Background())
				e.cancel = cancel
				h.exchs = append(h.exchs, e)
				go func() {
					defer close(e.done)
					m, err := tr.ExchangeContext(ctx, e.query)
					e.err = err
					if m != nil {
						e.gotMsg = true
						e.respID = m.Header.ID
						e.respTok, e.tokOK = vfReplyToken(m)
						dnsmsg.ReleaseMsg(m)
					}
				}()
				// wait until the held write has put the query on some connection
				var w vfWire
				found := false
				for deadline := time.Now().Add(vfStall); !found && time.Now().Before(deadline); time.Sleep(50 * time.Microsecond) {
					h.scan()
					for _, ow := range h.owner[e.token] {
						if h.connOpen(ow.conn) {
							w, found = ow, true
						}
					}
					if e.finished() {
						break
					}
				}
				if found {
					// the exchange sits in its write (the connection holds it): the buffer it was given is the caller's, who
					// may be sending the same octets to another upstream at this very moment
					if !bytes.Equal(e.query, e.orig) {
						got := append([]byte(nil), e.query[:2]...)
						setHold(false)
						e.query = append([]byte(nil), got...)
						t.Fatalf("exchange %d: the caller's query bytes are modified while the exchange is writing (octets 0-1 are %x, the caller's ID is %04x)", e.token, e.query[:2], e.callerID)
					}
					h.deliver(w.conn, w.wireID, e.token)
					c := srv.snapshot()[w.conn]
					for deadline := time.Now().Add(vfStall); !c.Drained() && time.Now().Before(deadline); {
						time.Sleep(20 * time.Microsecond)
					}
					c.ServerClose(nil)
					c.WaitQuiet(20 * time.Millisecond)
					h.stats.replyAndClose++
				}
				setHold(false)
				// the exchange either returns now (its reply, or the close error), or it is being retried on another
				// connection and stays active like any other
				h.settle()
			},
			"cancel": func(t *rapid.T) {
				a := h.active()
				if len(a) == 0 {
					start(t)
					return
				}
				e := a[rapid.IntRange(0, len(a)-1).Draw(t, "which")]
				e.cancel()
				h.waitDone(e, "cancel")
				if e.gotMsg && e.err == nil {
					// allowed: a reply may have been in its channel already
				} else if e.err == nil {
					t.Fatalf("cancelled exchange returned neither message nor error")
				}
				h.settle()
			},
			"reply": func(t *rapid.T) {
				w, tok, ok := pickWire(t, true)
				if !ok {
					start(t)
					return
				}
				// out-of-order when an older outstanding query exists on that connection
				for ow, otok := range h.ids[w.conn] {
					if oe := h.exchByToken(otok); oe != nil && !oe.finished() && otok < tok && ow != w.wireID {
						h.stats.reorder++
						break
					}
				}
				h.deliver(w.conn, w.wireID, tok)
				if h.replied[w] {
					h.stats.dup++
				}
				h.replied[w] = true
				e := h.exchByToken(tok)
				h.srv.snapshot()[w.conn].WaitQuiet(vfStall)
				// the exchange is waiting on this wire only if it is its latest one
				wires := h.owner[tok]
				if wires[len(wires)-1] == w {
					h.waitDone(e, "its reply was consumed")
				}
				h.settle()
			},
			// Every exchange waiting on one connection is answered in one go: on a stream the frames arrive back to back in
			// one piece (or two, cut anywhere), more of them than any read buffer holds, of sizes that put frame boundaries
			// anywhere relative to it.
			"replyFlood": func(t *rapid.T) {
				perConn := map[int][]vfWire{}
				for c, m := range h.ids {
					if !h.connOpen(c) {
						continue
					}
					for w, tok := range m {
						wire := vfWire{c, w}
						wires := h.owner[tok]
						if e := h.exchByToken(tok); e != nil && !e.finished() && !h.replied[wire] && len(wires) > 0 && wires[len(wires)-1] == wire {
							perConn[c] = append(perConn[c], wire)
						}
					}
				}
				conn := -1
				for c, ws := range perConn {
					if len(ws) >= 2 && (conn < 0 || c < conn) {
						conn = c
					}
				}
				if conn < 0 {
					for i := rapid.IntRange(3, 9).Draw(t, "n"); i > 0; i-- {
						start(t)
					}
					return
				}
				ws := perConn[conn]
				for i := 1; i < len(ws); i++ {
					for j := i; j > 0 && ws[j].wireID < ws[j-1].wireID; j-- {
						ws[j], ws[j-1] = ws[j-1], ws[j]
					}
				}
				ws = rapid.Permutation(ws).Draw(t, "order")
				var stream []byte
				var toks []uint32
				for _, w := range ws {
					tok := h.ids[w.conn][w.wireID]
					h.nextRTok++
					rt := h.nextRTok
					// the opaque tail repeats the wire ID of another exchange of the flood: octets that, read at the wrong
					// place, name somebody who is waiting
					other := ws[rapid.IntRange(0, len(ws)-1).Draw(t, "tailNames")].wireID
					tail := bytes.Repeat([]byte{byte(other >> 8), byte(other)}, (rapid.OneOf(rapid.IntRange(0, 700), rapid.IntRange(900, 1100)).Draw(t, "tail")+1)/2)
					if rapid.Bool().Draw(t, "tailOdd") {
						tail = append([]byte{0}, tail...)
					}
					b := vfReplyWithTail(w.wireID, tok, rt, tail)
					h.delivered[rt] = w
					h.replied[w] = true
					toks = append(toks, tok)
					if h.srv.datagram {
						h.srv.snapshot()[conn].Deliver(b)
					} else {
						stream = append(stream, vfFrame(b)...)
					}
				}
				if !h.srv.datagram {
					if cut := rapid.IntRange(0, len(stream)).Draw(t, "cut"); cut > 0 && cut < len(stream) {
						h.srv.snapshot()[conn].Deliver(stream[:cut])
						h.srv.snapshot()[conn].WaitQuiet(vfStall)
						h.srv.snapshot()[conn].Deliver(stream[cut:])
					} else {
						h.srv.snapshot()[conn].Deliver(stream)
					}
				}
				h.srv.snapshot()[conn].WaitQuiet(vfStall)
				// first whatever has returned is judged (a reply that went to the wrong exchange leaves its own one waiting:
				// the wrong delivery is the finding, the wait that follows from it is not)
				for until := time.Now().Add(500 * time.Millisecond); time.Now().Before(until); time.Sleep(200 * time.Microsecond) {
					all := true
					for _, tok := range toks {
						all = all && h.exchByToken(tok).finished()
					}
					if all {
						break
					}
				}
				h.check()
				for _, tok := range toks {
					h.waitDone(h.exchByToken(tok), "its reply was consumed (one of a flood)")
				}
				h.stats.flood++
				h.settle()
			},
			"replyTwiceAtOnce": func(t *rapid.T) {
				w, tok, ok := pickWire(t, true)
				if !ok {
					start(t)
					return
				}
				h.deliver(w.conn, w.wireID, tok)
				h.deliver(w.conn, w.wireID, tok)
				h.stats.dup++
				h.replied[w] = true
				h.srv.snapshot()[w.conn].WaitQuiet(vfStall)
				wires := h.owner[tok]
				if wires[len(wires)-1] == w {
					h.waitDone(h.exchByToken(tok), "its reply was consumed")
				}
				h.settle()
			},
			"lateOrDuplicateReply": func(t *rapid.T) {
				// reply to a wire whose exchange has already returned (answered, cancelled or failed)
				w, tok, ok := pickWire(t, false)
				if !ok {
					start(t)
					return
				}
				h.deliver(w.conn, w.wireID, tok)
				h.stats.late++
				h.settle()
			},
			"cutOffReply": func(t *rapid.T) {
				// datagram flavour: a datagram that carries the wire ID of a waiting exchange but ends early (inside the
				// header, right after it, or inside a record). It is not a reply: whatever the transport makes of it, the
				// exchange must not return a message that the server never sent (e.g. one completed from an earlier datagram).
				w, tok, ok := pickWire(t, true)
				if !ok || !h.srv.datagram {
					start(t)
					return
				}
				h.nextRTok++
				b := vfReply(w.wireID, tok, h.nextRTok) // this reply token is never registered as delivered
				n := rapid.SampledFrom([]int{2, 3, 11, 12, 13}).Draw(t, "cutAt")
				if rapid.Bool().Draw(t, "cutInsideRecords") {
					n = rapid.IntRange(12, len(b)-1).Draw(t, "cutAtOctet")
				}
				h.srv.snapshot()[w.conn].Deliver(b[:n])
				h.stats.cutOff++
				h.srv.snapshot()[w.conn].WaitQuiet(vfStall)
				h.settle()
			},
			"unsolicited": func(t *rapid.T) {
				var open []int
				for _, c := range h.srv.snapshot() {
					if h.connOpen(c.ID) {
						open = append(open, c.ID)
					}
				}
				if len(open) == 0 {
					start(t)
					return
				}
				c := open[rapid.IntRange(0, len(open)-1).Draw(t, "conn")]
				id := rapid.Uint16().Draw(t, "id")
				if _, used := h.ids[c][id]; used {
					start(t)
					return
				}
				h.deliver(c, id, 0)
				h.stats.unsolicited++
				h.settle()
			},
			"serverClose": func(t *rapid.T) {
				var open []int
				for _, c := range h.srv.snapshot() {
					if h.connOpen(c.ID) {
						open = append(open, c.ID)
					}
				}
				if len(open) == 0 {
					start(t)
					return
				}
				c := open[rapid.IntRange(0, len(open)-1).Draw(t, "conn")]
				var err error
				if rapid.Bool().Draw(t, "rst") {
					err = errors.New("connection reset by peer")
				}
				h.srv.snapshot()[c].ServerClose(err)
				h.stats.closes++
				h.settle()
			},
			"": func(t *rapid.T) {
				h.scan()
				h.check()
			},
		})
		h.scan()
		h.check()
		nontrivial := h.stats.overlap >= 1 && (h.stats.reorder+h.stats.dup+h.stats.unsolicited+h.stats.late+h.stats.flood) >= 1
		classes := []string{}
		for n, v := range map[string]int{"overlap": h.stats.overlap, "reorder": h.stats.reorder, "dup": h.stats.dup, "unsolicited": h.stats.unsolicited, "late": h.stats.late, "server-close": h.stats.closes, "retried": h.stats.retried, "reply-and-close-during-write": h.stats.replyAndClose, "cut-off-datagram": h.stats.cutOff, "reply-flood": h.stats.flood} {
			if v > 0 {
				classes = append(classes, n)
			}
		}
		if srv.datagram {
			classes = append(classes, "datagram")
		} else {
			classes = append(classes, "stream")
		}
		st.Case(vfkit.Fingerprint(fmt.Sprint(h.owner), fmt.Sprint(h.delivered), fmt.Sprint(h.stats)), nontrivial, classes, func() any {
			return map[string]any{"exchanges": len(h.exchs), "connections": len(srv.snapshot()), "stats": fmt.Sprintf("%+v", h.stats), "wires": fmt.Sprint(h.owner)}
		})
	})
}

// TestVfC05Rollover drives more than 65536 exchanges through one transport (stream flavour) so that a
// connection uses up its ID space, with abandoned exchanges and late replies placed around the
// 65535/65536 boundary.
func TestVfC05Rollover(t *testing.T) {
	st := vfkit.Stats("TestVfC05Rollover", "66000-70000 sequential exchanges over one PipelineTransport (in-memory connection) with drawn positions of abandoned exchanges and late replies concentrated around wire ID 65535/65536; same invariants as the state machine, plus exchanges keep succeeding across the roll-over; non-trivial = every run (counts distinct abandon/late placements)")
	defer vfkit.Flush()
	rapid.Check(t, func(t *rapid.T) {
		srv := &vfServerSide{datagram: rapid.Bool().Draw(t, "datagram")}
		tr := transport.NewPipelineTransport(transport.PipelineOpts{DialContext: srv.dial, IsTCP: !srv.datagram, IdleTimeout: time.Hour, MaxConcurrentQuery: 64})
		defer tr.Close()
		total := 65536 + rapid.IntRange(500, 4000).Draw(t, "extra")
		// positions (exchange index) at which the exchange is abandoned before the reply
		abandon := map[int]bool{}
		for _, p := range rapid.SliceOfN(rapid.IntRange(65500, 65570), 3, 12).Draw(t, "abandonNearBoundary") {
			abandon[p] = true
		}
		for _, p := range rapid.SliceOfN(rapid.IntRange(0, total-1), 0, 6).Draw(t, "abandonAnywhere") {
			abandon[p] = true
		}
		lateGap := rapid.IntRange(1, 40).Draw(t, "lateGap")

		readers := map[int]*vfMsgReader{}
		ids := map[int]map[uint16]bool{}
		type pendingLate struct {
			w   vfWire
			tok uint32
			at  int
		}
		var lates []pendingLate
		delivered := map[uint32]vfWire{}
		var rtok uint32
		deliver := func(w vfWire, qtok uint32) uint32 {
			rtok++
			b := vfReply(w.wireID, qtok, rtok)
			if !srv.datagram {
				b = vfFrame(b)
			}
			delivered[rtok] = w
			srv.snapshot()[w.conn].Deliver(b)
			return rtok
		}
		// waitWire waits for the query of token tok to appear and returns all wires it used so far
		// early is polled while waiting: an exchange that has already returned (an error) will never send its query
		var early func() error
		waitWire := func(tok uint32) []vfWire {
			deadline := time.Now().Add(vfStall)
			var wires []vfWire
			for spins := 0; ; spins++ {
				for _, c := range srv.snapshot() {
					rd := readers[c.ID]
					if rd == nil {
						rd = &vfMsgReader{c: c, datagram: srv.datagram}
						readers[c.ID] = rd
					}
					for _, m := range rd.poll() {
						wid, qt, err := vfParseQuery(m)
						if err != nil {
							t.Fatalf("%v", err)
						}
						if ids[c.ID] == nil {
							ids[c.ID] = map[uint16]bool{}
						}
						if ids[c.ID][wid] {
							t.Fatalf("wire ID %d reused on connection %d (after %d IDs on it)", wid, c.ID, len(ids[c.ID]))
						}
						ids[c.ID][wid] = true
						if qt == tok {
							wires = append(wires, vfWire{c.ID, wid})
						}
					}
				}
				if len(wires) > 0 {
					return wires
				}
				if early != nil {
					if err := early(); err != nil {
						t.Fatalf("exchange %d returned without its query ever reaching a connection: %v (a healthy server is reachable: a fresh connection would have served it)", tok, err)
					}
				}
				if time.Now().After(deadline) {
					vfkit.Inconclusive("C05 rollover: query %d never appeared on a connection", tok)
				}
				if spins > 100 {
					time.Sleep(20 * time.Microsecond)
				} else {
					runtime.Gosched()
				}
			}
		}
		nLate, nAbandon := 0, 0
		// one exchange stays in flight (unanswered, not abandoned) while its connection runs out of wire IDs: the
		// connection cannot retire yet, and everybody else must be served on another one meanwhile
		holdAt := rapid.IntRange(65300, 65530).Draw(t, "holdAt")
		holdFor := rapid.IntRange(100, 400).Draw(t, "holdFor")
		type heldExch struct {
			wires    []vfWire
			callerID uint16
			tok      uint32
			rc       chan *dnsmsg.Msg
			errc     chan error
			cancel   context.CancelFunc
		}
		var held *heldExch
		// In one run of three the held exchange is not answered: the transport is closed while that exchange still waits on
		// a connection that has meanwhile run out of wire IDs (and others have moved on to the next connection). Close has
		// to reach that connection too: the exchange returns and every connection the transport dialled is closed.
		closeWhileHeld := rapid.IntRange(0, 2).Draw(t, "closeWhileHeld") == 0
		releaseAt := holdAt + holdFor
		if closeWhileHeld && releaseAt < 65536+20 {
			releaseAt = 65536 + 20
		}
		closedEarly := false
		for i := 0; i < total; i++ {
			if i == holdAt {
				h := &heldExch{callerID: 0xABCD, tok: 2000000, rc: make(chan *dnsmsg.Msg, 1), errc: make(chan error, 1)}
				hq := vfQuery(h.callerID, h.tok)
				hctx, hcancel := context.WithCancel(context.Background())
				h.cancel = hcancel
				go func() {
					m, err := tr.ExchangeContext(hctx, hq)
					h.rc <- m
					h.errc <- err
				}()
				h.wires = waitWire(h.tok)
				held = h
			}
			if held != nil && i == releaseAt && closeWhileHeld {
				done := make(chan struct{})
				go func() { tr.Close(); close(done) }()
				select {
				case <-done:
				case <-time.After(vfStall):
					t.Fatalf("Close() of the pipelined transport did not return (one exchange in flight on a connection out of wire IDs)")
				}
				select {
				case m := <-held.rc:
					<-held.errc
					if m != nil {
						dnsmsg.ReleaseMsg(m)
					}
				case <-time.After(2 * time.Second):
					t.Fatalf("an exchange in flight on a connection that had run out of wire IDs (wires %v) has not returned 2 s after Close() of its transport", held.wires)
				}
				for until := time.Now().Add(2 * time.Second); ; time.Sleep(time.Millisecond) {
					open := -1
					for ci, c := range srv.snapshot() {
						if !c.ClientClosed() {
							open = ci
						}
					}
					if open < 0 {
						break
					}
					if time.Now().After(until) {
						t.Fatalf("connection %d of %d dialled by the pipelined transport is still open 2 s after Close() (the held exchange used wires %v; %d exchanges had been made)", open, len(srv.snapshot()), held.wires, i)
					}
				}
				held.cancel()
				held = nil
				closedEarly = true
				break
			}
			if held != nil && i == releaseAt {
				w := held.wires[len(held.wires)-1]
				if c := srv.snapshot()[w.conn]; !c.ClientClosed() {
					deliver(w, held.tok)
				}
				select {
				case m := <-held.rc:
					err := <-held.errc
					if m == nil {
						t.Fatalf("the exchange that was in flight while its connection ran out of wire IDs failed although its reply was delivered on %v: %v", w, err)
					}
					if m.Header.ID != held.callerID {
						t.Fatalf("held exchange: response ID %d, caller's ID %d", m.Header.ID, held.callerID)
					}
					dnsmsg.ReleaseMsg(m)
				case <-time.After(vfStall):
					vfkit.Inconclusive("C05 rollover: the held exchange stalled")
				}
				held.cancel()
				held = nil
			}
			tok := uint32(i + 1)
			callerID := uint16(i*7 + 3)
			q := vfQuery(callerID, tok)
			ctx, cancel := context.WithCancel(context.Background())
			type res struct {
				m   *dnsmsg.Msg
				err error
			}
			rc := make(chan res, 1)
			var failedEarly atomic.Value
			go func() {
				m, err := tr.ExchangeContext(ctx, q)
				if m == nil && err != nil {
					failedEarly.Store(err)
				}
				rc <- res{m, err}
			}()
			early = func() error {
				if e := failedEarly.Load(); e != nil {
					return e.(error)
				}
				return nil
			}
			wires := waitWire(tok)
			early = nil
			w := wires[len(wires)-1]
			// late replies to abandoned wires while this exchange is waiting
			for len(lates) > 0 && i-lates[0].at >= lateGap {
				l := lates[0]
				lates = lates[1:]
				c := srv.snapshot()[l.w.conn]
				if !c.ClientClosed() {
					deliver(l.w, l.tok)
					c.WaitQuiet(vfStall)
					nLate++
				}
			}
			var r res
			if abandon[i] {
				cancel()
				nAbandon++
				lates = append(lates, pendingLate{w, tok, i})
			} else {
				deliver(w, tok)
			}
			select {
			case r = <-rc:
			case <-time.After(vfStall):
				vfkit.Inconclusive("C05 rollover: exchange %d stalled", i)
			}
			cancel()
			if r.m != nil {
				got, ok := vfReplyToken(r.m)
				id := r.m.Header.ID
				dnsmsg.ReleaseMsg(r.m)
				if !ok {
					t.Fatalf("exchange %d returned a message the server never sent", i)
				}
				dw, known := delivered[got]
				mine := false
				for _, x := range wires {
					if x == dw {
						mine = true
					}
				}
				if !known || !mine {
					t.Fatalf("exchange %d (wires %v) returned reply %d sent on %v", i, wires, got, dw)
				}
				if id != callerID {
					t.Fatalf("exchange %d: response ID %d, caller's ID %d", i, id, callerID)
				}
				delete(delivered, got) // a second return of the same reply would now be 'unknown'
			} else if !abandon[i] {
				t.Fatalf("exchange %d failed although the server answered it on its wire %v: %v", i, w, r.err)
			}
		}
		if len(srv.snapshot()) < 2 {
			t.Fatalf("%d exchanges were carried by a single connection: wire IDs must have been reused", total)
		}
		st.Case(vfkit.Fingerprint(fmt.Sprint(abandon), lateGap, total, srv.datagram, closedEarly), true, []string{fmt.Sprintf("conns=%d", len(srv.snapshot())), fmt.Sprintf("closed-with-an-exchange-held-on-an-exhausted-connection=%v", closedEarly)}, func() any {
			return map[string]any{"exchanges": total, "abandoned": nAbandon, "late_replies": nLate, "connections": len(srv.snapshot())}
		})
	})
}

// vfReplyWithTail is vfReply plus one opaque additional record whose RDATA is `tail`; the RDATA are the last octets
// of the message.
func vfReplyWithTail(wireID uint16, qtoken uint32, replyToken uint32, tail []byte) []byte {
	name := vfkit.Name{[]byte(fmt.Sprintf("t%d", qtoken)), []byte("vf")}
	rd := []byte{byte(replyToken >> 24), byte(replyToken >> 16), byte(replyToken >> 8), byte(replyToken)}
	m := &vfkit.Msg{ID: wireID, Bits: vfkit.BitQR | vfkit.BitRD | vfkit.BitRA,
		Q:  []vfkit.Question{{Name: name, Type: 1, Class: 1}},
		An: []vfkit.RR{{Owner: name, Type: 1, Class: 1, TTL: 60, RData: []vfkit.RDPart{{Raw: rd}}}},
		Ar: []vfkit.RR{{Owner: name, Type: 65280, Class: 1, TTL: 60, RData: []vfkit.RDPart{{Raw: tail}}}}}
	w, _ := vfkit.Encode(m, vfkit.EncOpts{})
	return w
}

// TestVfC05SlowFrame: the time a reply takes to arrive is part of "every server behaviour". On a pipelined stream
// connection with a short idle time-out one reply frame arrives in two pieces, the second one later than the idle
// time-out allows, while 1-4 exchanges wait. The second piece is drawn: the plain remainder of the frame, or a
// remainder that - read on its own - is a well-formed frame carrying the wire ID of a waiting exchange (a reply the
// server never sent as such). Whatever the transport does about the pause (give the connection up, or keep reading),
// an exchange that returns a message returns a reply that was sent to it.
func TestVfC05SlowFrame(t *testing.T) {
	st := vfkit.Stats("TestVfC05SlowFrame", "pipelined stream connection with idle_timeout 20-50 ms, 1-4 exchanges waiting; one reply frame is delivered in two pieces with a pause of 2 x idle_timeout + 20 ms in between (cut inside the prefix, inside the header, anywhere, or exactly in front of an opaque record's RDATA that is itself a well-formed frame with the wire ID of a waiting exchange and a reply token never registered as sent); afterwards every exchange still waiting is answered properly on its newest connection; invariants of the state machine (own reply, caller ID, no reply twice, never a message the server did not send); non-trivial = the pause is longer than the idle time-out (every case)")
	defer vfkit.Flush()
	rapid.Check(t, func(t *rapid.T) {
		srv := &vfServerSide{}
		idle := time.Duration(rapid.IntRange(20, 50).Draw(t, "idleMs")) * time.Millisecond
		tr := transport.NewPipelineTransport(transport.PipelineOpts{DialContext: srv.dial, IsTCP: true, IdleTimeout: idle, MaxConcurrentQuery: 64})
		h := &vfC05{t: t, srv: srv, tr: tr, readers: map[int]*vfMsgReader{}, ids: map[int]map[uint16]uint32{}, owner: map[uint32][]vfWire{},
			delivered: map[uint32]vfWire{}, replied: map[vfWire]bool{}, returned: map[uint32]uint32{}}
		defer func() {
			for _, e := range h.exchs {
				e.cancel()
			}
			for _, e := range h.exchs {
				select {
				case <-e.done:
				case <-time.After(vfStall):
					vfkit.Inconclusive("C05 slow frame: exchange did not return after cancellation")
				}
			}
			tr.Close()
		}()
		n := rapid.IntRange(1, 4).Draw(t, "waiting")
		for i := 0; i < n; i++ {
			h.nextTok++
			e := &vfExch{token: h.nextTok, callerID: rapid.Uint16().Draw(t, "callerID"), done: make(chan struct{})}
			e.query = vfQuery(e.callerID, e.token)
			e.orig = append([]byte(nil), e.query...)
			ctx, cancel := context.WithCancel(context.Background())
			e.cancel = cancel
			h.exchs = append(h.exchs, e)
			go func() {
				defer close(e.done)
				m, err := tr.ExchangeContext(ctx, e.query)
				e.err = err
				if m != nil {
					e.gotMsg = true
					e.respID = m.Header.ID
					e.respTok, e.tokOK = vfReplyToken(m)
					dnsmsg.ReleaseMsg(m)
				}
			}()
		}
		// all queries on the wire (the idle timer may already have cost a connection: then they are on a newer one)
		onWire := func(e *vfExch) (vfWire, bool) {
			ws := h.owner[e.token]
			for i := len(ws) - 1; i >= 0; i-- {
				if h.connOpen(ws[i].conn) {
					return ws[i], true
				}
			}
			return vfWire{}, false
		}
		waitAll := func() bool {
			for deadline := time.Now().Add(2 * time.Second); time.Now().Before(deadline); time.Sleep(200 * time.Microsecond) {
				h.scan()
				ok := true
				for _, e := range h.exchs {
					if _, on := onWire(e); !on && !e.finished() {
						ok = false
					}
				}
				if ok {
					return true
				}
			}
			return false
		}
		if !waitAll() {
			return // the connection keeps dying under the short idle time-out before the queries settle: nothing to judge
		}
		a := h.exchs[rapid.IntRange(0, n-1).Draw(t, "slowOne")]
		b := h.exchs[rapid.IntRange(0, n-1).Draw(t, "forgedFor")]
		wa, okA := onWire(a)
		wb, okB := onWire(b)
		if a.finished() || b.finished() || !okA || !okB {
			return
		}
		mode := rapid.SampledFrom([]string{"forged-tail", "forged-tail", "cut-in-prefix", "cut-in-header", "cut-anywhere"}).Draw(t, "mode")
		h.nextRTok++
		rtA := h.nextRTok
		var frame []byte
		cut := 0
		switch mode {
		case "forged-tail":
			h.nextRTok++
			forged := vfFrame(vfReply(wb.wireID, b.token, h.nextRTok)) // never registered as delivered
			frame = vfFrame(vfReplyWithTail(wa.wireID, a.token, rtA, forged))
			cut = len(frame) - len(forged)
		case "cut-in-prefix":
			frame = vfFrame(vfReply(wa.wireID, a.token, rtA))
			cut = 1
		case "cut-in-header":
			frame = vfFrame(vfReply(wa.wireID, a.token, rtA))
			cut = rapid.IntRange(2, 13).Draw(t, "cutAt")
		default:
			frame = vfFrame(vfReply(wa.wireID, a.token, rtA))
			cut = rapid.IntRange(1, len(frame)-1).Draw(t, "cutAt")
		}
		h.delivered[rtA] = wa // the complete frame is a reply the server sent to a (if the transport waits for it)
		c := srv.snapshot()[wa.conn]
		c.Deliver(frame[:cut])
		time.Sleep(2*idle + 20*time.Millisecond)
		c.Deliver(frame[cut:])
		c.WaitQuiet(50 * time.Millisecond)
		// answer whoever still waits, on the newest connection its query is on
		for round := 0; round < 6; round++ {
			time.Sleep(2 * time.Millisecond)
			h.scan()
			pending := 0
			for _, e := range h.exchs {
				if e.finished() {
					continue
				}
				pending++
				if w, on := onWire(e); on && !h.replied[w] && !(e == a && w == wa) {
					h.replied[w] = true
					h.deliver(w.conn, w.wireID, e.token)
				}
			}
			if pending == 0 {
				break
			}
			time.Sleep(idle / 2)
		}
		h.scan()
		h.check()
		classes := []string{"mode=" + mode, fmt.Sprintf("waiting=%d", n)}
		if a == b {
			classes = append(classes, "forged-for-the-slow-exchange-itself")
		}
		st.Case(vfkit.Fingerprint(mode, n, cut, idle, len(srv.snapshot())), true, classes, func() any {
			return map[string]any{"mode": mode, "waiting": n, "cut_at": cut, "frame_len": len(frame), "idle_ms": idle.Milliseconds(), "connections_dialled": len(srv.snapshot())}
		})
	})
}
