package domainmatcher_test

// C11 - domain sets match by label suffix, independent of load order.
// Oracle: a reference matcher written from the property statement (suffix set on label
// boundaries, exact set, regexps over an independently implemented text form), plus the
// metamorphic relations (order/duplicates/file split do not matter; adding is monotone).

import (
	"bytes"
	"fmt"
	"regexp"
	"strings"
	"testing"

	domainmatcher "github.com/IrineSistiana/mosproxy/internal/domain_matcher"
	"pgregory.net/rapid"
	"vfkit"
)

type vfEntryKind int

const (
	vfFull vfEntryKind = iota
	vfDomain
	vfBare
	vfRegexp
)

type vfEntry struct {
	kind  vfEntryKind
	name  vfkit.Name // for full/domain/bare (as spelled, maybe upper case)
	fqdn  bool       // spelled with trailing dot
	regex string
}

func (e vfEntry) line() []byte {
	var b []byte
	switch e.kind {
	case vfFull:
		b = append(b, "full:"...)
	case vfDomain:
		b = append(b, "domain:"...)
	case vfRegexp:
		return append([]byte("regexp:"), e.regex...)
	}
	if len(e.name) == 0 {
		return append(b, '.')
	}
	for i, l := range e.name {
		if i > 0 {
			b = append(b, '.')
		}
		b = append(b, l...)
	}
	if e.fqdn {
		b = append(b, '.')
	}
	return b
}

// vfSanitizeEntryLabel maps a drawn label into what a domain file line can carry
// (see DESIGN.md C11 "generator soundness").
func vfSanitizeEntryLabel(l []byte, bare bool, first, last bool) []byte {
	o := append([]byte(nil), l...)
	for i, c := range o {
		switch c {
		case '.', '#', '\n', '\r', '\\':
			o[i] = '-'
		case ':':
			if bare {
				o[i] = '_'
			}
		}
	}
	edge := func(c byte) byte {
		if c <= 0x20 || c >= 0x80 || c == 0x7f {
			return 'q'
		}
		return c
	}
	if first {
		o[0] = edge(o[0])
	}
	if last {
		o[len(o)-1] = edge(o[len(o)-1])
	}
	return o
}

// reference text form of the property statement
func vfTextForm(n vfkit.Name) string {
	if len(n) == 0 {
		return "."
	}
	var sb strings.Builder
	for i, l := range n {
		if i > 0 {
			sb.WriteByte('.')
		}
		for _, c := range l {
			switch {
			case 'a' <= c && c <= 'z', 'A' <= c && c <= 'Z', '0' <= c && c <= '9', c == '-':
				sb.WriteByte(c)
			case c == '.':
				sb.WriteString(`\.`)
			case c == '\\':
				sb.WriteString(`\\`)
			default:
				fmt.Fprintf(&sb, `\%03d`, c)
			}
		}
	}
	return sb.String()
}

type vfRef struct {
	full   map[string]bool
	domain []vfkit.Name
	res    []*regexp.Regexp
}

func vfNewRef(entries []vfEntry) *vfRef {
	r := &vfRef{full: map[string]bool{}}
	for _, e := range entries {
		switch e.kind {
		case vfFull:
			r.full[string(e.name.Lower().Wire())] = true
		case vfDomain, vfBare:
			r.domain = append(r.domain, e.name.Lower())
		case vfRegexp:
			r.res = append(r.res, regexp.MustCompile(e.regex))
		}
	}
	return r
}

func (r *vfRef) match(q vfkit.Name) (bool, string) {
	if r.full[string(q.Wire())] {
		return true, "full"
	}
	for _, d := range r.domain {
		if len(d) <= len(q) && vfkit.Name(q[len(q)-len(d):]).Equal(d) {
			return true, "domain " + d.String()
		}
	}
	tf := vfTextForm(q)
	for _, re := range r.res {
		if re.MatchString(tf) {
			return true, "regexp " + re.String()
		}
	}
	return false, ""
}

// ---------------------------------------------------------------------------------------
// generators

func vfGenEntryName(t *rapid.T, names vfkit.NameSet, bare bool) vfkit.Name {
	n := names.Pick(t)
	for n.WireLen() > 254 { // ParseReadable accepts at most 253 octets without the root label
		n = n[1:]
	}
	o := make(vfkit.Name, len(n))
	for i, l := range n {
		// the first octet of a bare entry is the edge of its line (the loader trims lines); behind a "full:" / "domain:"
		// prefix it is an octet of the label like any other
		o[i] = vfSanitizeEntryLabel(l, bare, i == 0 && bare, i == len(n)-1)
	}
	if !bare && len(o) > 0 && (len(o) > 1 || len(o[0]) > 1) && rapid.IntRange(0, 7).Draw(t, "whiteSpaceBehindThePrefix") == 0 {
		o[0][0] = rapid.SampledFrom([]byte{' ', '\t', ' ', 0x0b, 0x0c, 0xa0, 0x85}).Draw(t, "ws")
	}
	return o
}

func vfRegexQuoteLabel(l []byte) string {
	// regular expression matching exactly the text form of the label
	return regexp.QuoteMeta(vfTextForm(vfkit.Name{l}))
}

func vfGenRegex(t *rapid.T, names vfkit.NameSet) string {
	n := names.Pick(t).Lower()
	if len(n) == 0 {
		n = vfkit.Name{[]byte("a")}
	}
	parts := make([]string, len(n))
	for i, l := range n {
		parts[i] = vfRegexQuoteLabel(l)
	}
	var re string
	switch rapid.IntRange(0, 5).Draw(t, "regexShape") {
	case 0:
		re = "^" + strings.Join(parts, `\.`) + "$"
	case 1:
		re = `\.` + strings.Join(parts, `\.`) + "$"
	case 2:
		re = "^" + parts[0]
	case 3: // alternation over labels
		re = "^(" + strings.Join(parts, "|") + `)(\.|$)`
	case 4: // class over LDH, anchored to a suffix
		re = `^[a-z0-9-]+\.` + parts[len(parts)-1] + "$"
	default: // anything with an escaped (non-LDH) octet
		re = `\\[0-9][0-9][0-9]`
	}
	// the line syntax: no '#', no newline, no leading/trailing blank
	re = strings.NewReplacer("#", `\x23`, "\n", `\n`, "\r", `\r`).Replace(re)
	if strings.ToLower(re) != re || strings.TrimSpace(re) != re || !vfASCII(re) {
		return `^never-matches-[0-9]$`
	}
	// An expression is taken as written (names are lower-cased, expressions are not): one with an upper-case letter
	// matches no name, unless it carries its own (?i). Each entry stands for itself - flags of one entry are not
	// flags of its neighbours.
	switch rapid.IntRange(0, 9).Draw(t, "regexCase") {
	case 0:
		re = "(?i)" + re
	case 1:
		re = "(?i)" + strings.ToUpper(re[:1]) + re[1:]
	case 2, 3:
		b := []byte(re)
		for i := range b {
			if 'a' <= b[i] && b[i] <= 'z' && (i == 0 || b[i-1] != '\\') && rapid.IntRange(0, 3).Draw(t, "upper") == 0 {
				b[i] -= 'a' - 'A'
			}
		}
		re = string(b)
	}
	if _, err := regexp.Compile(re); err != nil {
		return `^never-matches-[0-9]$`
	}
	return re
}

func vfASCII(s string) bool {
	for i := 0; i < len(s); i++ {
		if s[i] >= 0x80 || s[i] < 0x20 {
			return false
		}
	}
	return true
}

func vfGenEntry(t *rapid.T, names vfkit.NameSet) vfEntry {
	switch rapid.IntRange(0, 9).Draw(t, "entryKind") {
	case 0, 1:
		return vfEntry{kind: vfFull, name: vfGenEntryName(t, names, false), fqdn: rapid.Bool().Draw(t, "fqdn")}
	case 2, 3, 4:
		return vfEntry{kind: vfDomain, name: vfGenEntryName(t, names, false), fqdn: rapid.Bool().Draw(t, "fqdn")}
	case 5, 6, 7:
		return vfEntry{kind: vfBare, name: vfGenEntryName(t, names, true), fqdn: rapid.Bool().Draw(t, "fqdn")}
	default:
		return vfEntry{kind: vfRegexp, regex: vfGenRegex(t, names)}
	}
}

func vfGenProbe(t *rapid.T, entries []vfEntry, names vfkit.NameSet, pool vfkit.LabelPool) vfkit.Name {
	var base vfkit.Name
	if len(entries) > 0 && rapid.IntRange(0, 4).Draw(t, "probeFromEntry") > 0 {
		e := entries[rapid.IntRange(0, len(entries)-1).Draw(t, "entryIdx")]
		if e.kind != vfRegexp {
			base = e.name
		} else {
			base = names.Pick(t)
		}
	} else {
		base = names.Pick(t)
	}
	base = append(vfkit.Name(nil), base...)
	pick := func() []byte { return pool[rapid.IntRange(0, len(pool)-1).Draw(t, "l")] }
	switch rapid.IntRange(0, 9).Draw(t, "probeShape") {
	case 9: // a descendant many labels down (the reverse name of an IPv6 address has 34 labels; a name can have 127)
		for depth := rapid.IntRange(20, 126).Draw(t, "depth"); len(base) < depth && base.WireLen()+2 <= 255; {
			base = append(vfkit.Name{[]byte{"0123456789abcdef"[len(base)%16]}}, base...)
		}
	case 0: // equal
	case 1: // child
		base = append(vfkit.Name{pick()}, base...)
	case 2: // grandchild
		base = append(vfkit.Name{pick(), pick()}, base...)
	case 3: // parent
		if len(base) > 0 {
			base = base[1:]
		}
	case 4: // sibling / one label changed
		if len(base) > 0 {
			i := rapid.IntRange(0, len(base)-1).Draw(t, "chg")
			base[i] = pick()
		}
	case 5: // trailing NUL(s) appended to a label
		if len(base) > 0 {
			i := rapid.IntRange(0, len(base)-1).Draw(t, "nulAt")
			if len(base[i]) < 62 {
				base[i] = append(append([]byte(nil), base[i]...), bytes.Repeat([]byte{0}, rapid.IntRange(1, 2).Draw(t, "nNul"))...)
			}
		}
	case 6: // label merged with its neighbour using a '.' octet inside one label
		if len(base) >= 2 && len(base[0])+1+len(base[1]) <= 63 {
			m := append(append(append([]byte(nil), base[0]...), '.'), base[1]...)
			base = append(vfkit.Name{m}, base[2:]...)
		}
	case 7: // label prefixed so that the entry is a byte suffix but not a label suffix
		if len(base) > 0 && len(base[0]) < 60 {
			base[0] = append([]byte("x"), base[0]...)
		}
	default:
		base = names.Pick(t)
	}
	for base.WireLen() > 255 {
		base = base[1:]
	}
	return base.Lower()
}

func vfLoad(t *rapid.T, m *domainmatcher.MixMatcher, lines [][]byte, viaReader bool, decorate func(i int, l []byte) []byte) {
	if !viaReader {
		for _, l := range lines {
			if err := m.Add(l); err != nil {
				t.Fatalf("Add(%q): %v", l, err)
			}
		}
		return
	}
	var buf bytes.Buffer
	for i, l := range lines {
		buf.Write(decorate(i, l))
		buf.WriteByte('\n')
	}
	if err := domainmatcher.LoadMixMatcherFromReader(m, &buf); err != nil {
		t.Fatalf("load: %v\n%q", err, buf.Bytes())
	}
}

func vfHasParentChild(entries []vfEntry) bool {
	for i, a := range entries {
		if a.kind == vfRegexp || a.kind == vfFull {
			continue
		}
		for j, b := range entries {
			if i == j || b.kind == vfRegexp || b.kind == vfFull {
				continue
			}
			la, lb := a.name.Lower(), b.name.Lower()
			if len(la) < len(lb) && vfkit.Name(lb[len(lb)-len(la):]).Equal(la) {
				return true
			}
		}
	}
	return false
}

func TestVfC11Match(t *testing.T) {
	st := vfkit.Stats("TestVfC11Match", "entry lists (full/domain/bare/regexp over a shared label pool, shuffled, duplicated, split over readers with comments) x probe names derived from entries; non-trivial = list has a domain entry that is a parent/child of another, or a probe with a non-LDH octet meets a regexp, or a label longer than 24 octets")
	defer vfkit.Flush()
	rapid.Check(t, vfC11Prop(st))
}

// vfC11Prop is the property itself; the rapid test and the native fuzz target (rapid.MakeFuzz) share it.
func vfC11Prop(st *vfkit.Collector) func(t *rapid.T) {
	return func(t *rapid.T) {
		pool := vfkit.GenLabelPool(t, rapid.IntRange(2, 6).Draw(t, "poolSize"))
		names := vfkit.GenNameSet(t, pool, rapid.IntRange(2, 8).Draw(t, "nNames"))
		nEntries := rapid.IntRange(0, 10).Draw(t, "nEntries")
		entries := make([]vfEntry, 0, nEntries)
		for i := 0; i < nEntries; i++ {
			entries = append(entries, vfGenEntry(t, names))
		}
		lines := make([][]byte, len(entries))
		for i, e := range entries {
			lines[i] = e.line()
		}
		ref := vfNewRef(entries)

		// matcher A: given order, Add() one by one
		mA := domainmatcher.NewMixMatcher()
		vfLoad(t, mA, lines, false, nil)

		// matcher B: permuted, with duplicates, through readers with comments / blanks / padding
		perm := rapid.Permutation(lines).Draw(t, "perm")
		for i := rapid.IntRange(0, 3).Draw(t, "nDup"); i > 0 && len(lines) > 0; i-- {
			perm = append(perm, lines[rapid.IntRange(0, len(lines)-1).Draw(t, "dup")])
		}
		mB := domainmatcher.NewMixMatcher()
		longComments := 0
		cut := 0
		if len(perm) > 0 {
			cut = rapid.IntRange(0, len(perm)).Draw(t, "cut")
		}
		decoKinds := rapid.SliceOfN(rapid.IntRange(0, 21), len(perm), len(perm)).Draw(t, "deco")
		// comments longer than any read buffer (4 KiB, 8 KiB, 16 KiB ...) but below the loader's 64 KiB line limit
		decoLens := rapid.SliceOfN(rapid.OneOf(rapid.IntRange(4080, 4110), rapid.IntRange(8180, 8200), rapid.IntRange(4200, 30000)), len(perm), len(perm)).Draw(t, "decoLen")
		deco := func(off int) func(i int, l []byte) []byte {
			return func(i int, l []byte) []byte {
				k := decoKinds[off+i]
				if k < 20 {
					k %= 5
				}
				switch k {
				case 20:
					longComments++
					return append(append(append([]byte(nil), l...), " #"...), bytes.Repeat([]byte("q"), decoLens[off+i])...)
				case 21:
					longComments++
					return append(append(append([]byte("#"), bytes.Repeat([]byte("q"), decoLens[off+i])...), '\n'), l...)
				case 1:
					return append(append([]byte("  \t"), l...), " \t "...)
				case 2:
					return append(append([]byte(nil), l...), " # a comment: full:x.y"...)
				case 3:
					return append([]byte("# only a comment\n\n   \n"), l...)
				case 4:
					return append(append([]byte(nil), l...), '\r')
				}
				return l
			}
		}
		vfLoad(t, mB, perm[:cut], true, deco(0))
		vfLoad(t, mB, perm[cut:], true, deco(cut))

		nProbes := rapid.IntRange(5, 30).Draw(t, "nProbes")
		probes := make([]vfkit.Name, 0, nProbes)
		for i := 0; i < nProbes; i++ {
			probes = append(probes, vfGenProbe(t, entries, names, pool))
		}

		hasRe := len(ref.res) > 0
		nonLDHProbe, long := false, false
		for _, p := range probes {
			want, why := ref.match(p)
			w := p.WireNoRoot()
			gotA := mA.Match(w)
			gotB := mB.Match(w)
			if gotA != want {
				t.Fatalf("Match(%s) = %v, reference %v (%s); entries in order: %q", p, gotA, want, why, lines)
			}
			if gotB != want {
				t.Fatalf("order/duplicate/split dependence: Match(%s) = %v after loading %q + %q, reference %v (%s)", p, gotB, perm[:cut], perm[cut:], want, why)
			}
			for _, l := range p {
				if len(l) > 24 {
					long = true
				}
				for _, c := range l {
					if !(('a' <= c && c <= 'z') || ('0' <= c && c <= '9') || c == '-') {
						nonLDHProbe = true
					}
				}
			}
		}

		// monotonicity: one more entry never removes a match
		extra := vfGenEntry(t, names)
		before := make([]bool, len(probes))
		for i, p := range probes {
			before[i] = mA.Match(p.WireNoRoot())
		}
		if err := mA.Add(extra.line()); err != nil {
			t.Fatalf("Add(%q): %v", extra.line(), err)
		}
		for i, p := range probes {
			if before[i] && !mA.Match(p.WireNoRoot()) {
				t.Fatalf("adding %q removed the match of %s; earlier entries %q", extra.line(), p, lines)
			}
		}

		pc := vfHasParentChild(entries)
		classes := []string{}
		if pc {
			classes = append(classes, "parent-child-entries")
		}
		if hasRe && nonLDHProbe {
			classes = append(classes, "regexp-vs-nonLDH-probe")
		}
		if long {
			classes = append(classes, "label>24")
		}
		if len(entries) == 0 {
			classes = append(classes, "empty-set")
		}
		if longComments > 0 {
			classes = append(classes, "comment>4KiB")
		}
		st.Case(vfkit.Fingerprint(bytes.Join(lines, []byte{'\n'}), fmt.Sprint(probes)), pc || (hasRe && nonLDHProbe) || long, classes, func() any {
			ls := make([]string, len(lines))
			for i, l := range lines {
				ls[i] = fmt.Sprintf("%q", l)
			}
			return map[string]any{"entries": ls, "probes": fmt.Sprint(probes[:min(len(probes), 4)])}
		})
	}
}

// FuzzVfC11Match drives the same property with Go's native coverage-guided fuzzing: the fuzzer mutates the bit stream
// rapid draws from (thorough tier only; nothing is replayed in the quick tier apart from one seed input).
func FuzzVfC11Match(f *testing.F) {
	st := vfkit.Stats("FuzzVfC11Match", "the matcher property of TestVfC11Match driven by native coverage-guided fuzzing of rapid's draw stream (rapid.MakeFuzz); same oracle and non-triviality rule")
	defer vfkit.Flush()
	f.Add([]byte("vf seed input: any octets are a valid draw stream"))
	f.Fuzz(rapid.MakeFuzz(vfC11Prop(st)))
}
