package dnsutils_test

// C01 (frame readers) - ReadMsgFromTCP / ReadMsgFromUDP on arbitrary streams and declared lengths.

import (
	"bytes"
	"encoding/binary"
	"io"
	"testing"
	"time"

	"github.com/IrineSistiana/mosproxy/internal/dnsmsg"
	"github.com/IrineSistiana/mosproxy/internal/dnsutils"
	"pgregory.net/rapid"
	"vfkit"
)

// vfChunkReader hands out the stream in drawn chunk sizes.
type vfChunkReader struct {
	b      []byte
	chunks []int
	i      int
}

func (r *vfChunkReader) Read(p []byte) (int, error) {
	if len(r.b) == 0 {
		return 0, io.EOF
	}
	n := len(p)
	if len(r.chunks) > 0 {
		c := r.chunks[r.i%len(r.chunks)]
		r.i++
		if c < n {
			n = c
		}
	}
	if n > len(r.b) {
		n = len(r.b)
	}
	if n == 0 {
		n = 1
	}
	copy(p, r.b[:n])
	r.b = r.b[n:]
	return n, nil
}

func TestVfC01Frames(t *testing.T) {
	st := vfkit.Stats("TestVfC01Frames", "streams of length-prefixed frames with truthful / short / long / zero declared lengths around hostile or valid bodies, delivered in drawn chunk sizes -> ReadMsgFromTCP (repeated until error) and ReadMsgFromUDP; non-trivial = a frame whose declared length differs from its body or whose body is hostile")
	defer vfkit.Flush()
	rapid.Check(t, func(t *rapid.T) {
		var stream []byte
		nFrames := rapid.IntRange(1, 4).Draw(t, "nFrames")
		nontrivial := false
		expectOK := 0
		prefixOK := true
		for i := 0; i < nFrames; i++ {
			body, class := vfkit.GenHostile(t)
			if len(body) > 65535 {
				body = body[:65535]
			}
			decl := len(body)
			switch rapid.IntRange(0, 5).Draw(t, "declKind") {
			case 0:
				decl = 0
			case 1:
				decl = len(body) + rapid.IntRange(1, 20).Draw(t, "longer")
			case 2:
				if len(body) > 0 {
					decl = rapid.IntRange(0, len(body)-1).Draw(t, "shorter")
				}
			case 3:
				decl = 65535
			}
			if decl > 65535 {
				decl = 65535
			}
			if decl != len(body) || class != "valid" {
				nontrivial = true
			}
			if prefixOK && decl == len(body) && class == "valid" {
				expectOK++
			} else {
				prefixOK = false
			}
			stream = binary.BigEndian.AppendUint16(stream, uint16(decl))
			stream = append(stream, body...)
		}
		chunks := rapid.SliceOfN(rapid.IntRange(1, 40), 0, 6).Draw(t, "chunks")
		total := len(stream)
		r := &vfChunkReader{b: append([]byte(nil), stream...), chunks: chunks}
		done := make(chan any, 1)
		var okFrames, consumed int
		go func() {
			defer func() { done <- recover() }()
			for i := 0; i < nFrames+2; i++ {
				m, n, err := dnsutils.ReadMsgFromTCP(r)
				consumed += n
				if err != nil {
					if m != nil {
						panic("message returned together with an error")
					}
					return
				}
				okFrames++
				dnsmsg.ReleaseMsg(m)
			}
		}()
		select {
		case p := <-done:
			if p != nil {
				t.Fatalf("ReadMsgFromTCP panicked: %v; stream %s", p, vfkit.Hex(stream))
			}
		case <-time.After(10 * time.Second):
			t.Fatalf("ReadMsgFromTCP did not terminate; stream %s", vfkit.Hex(stream))
		}
		if consumed > total {
			t.Fatalf("reported %d octets read from a %d octet stream", consumed, total)
		}
		if okFrames < expectOK {
			t.Fatalf("only %d of the %d leading valid frames were decoded; stream %s", okFrames, expectOK, vfkit.Hex(stream))
		}
		// datagram reader
		dg, _ := vfkit.GenHostile(t)
		done2 := make(chan any, 1)
		go func() {
			defer func() { done2 <- recover() }()
			m, n, err := dnsutils.ReadMsgFromUDP(bytes.NewReader(dg), rapid.SampledFrom([]int{0, 512, 2048, 4096}).Draw(t, "bufSize"))
			if err == nil {
				dnsmsg.ReleaseMsg(m)
			}
			if n > len(dg) {
				panic("read more than the datagram")
			}
		}()
		select {
		case p := <-done2:
			if p != nil {
				t.Fatalf("ReadMsgFromUDP panicked: %v; datagram %s", p, vfkit.Hex(dg))
			}
		case <-time.After(10 * time.Second):
			t.Fatalf("ReadMsgFromUDP did not terminate")
		}
		st.Case(vfkit.Fingerprint(stream, chunks), nontrivial, nil, func() any {
			return map[string]any{"stream": vfkit.Hex(stream), "chunks": chunks, "frames_ok": okFrames}
		})
	})
}
