package netlist_test

// C07 (client group lookup) - sorted-range lookup against a linear scan, for all range sets and addresses.

import (
	"bytes"
	"fmt"
	"net/netip"
	"sort"
	"testing"

	"github.com/IrineSistiana/mosproxy/internal/netlist"
	"pgregory.net/rapid"
	"vfkit"
)

type vfU128 struct{ hi, lo uint64 }

func (a vfU128) addr() netip.Addr {
	var b [16]byte
	for i := 0; i < 8; i++ {
		b[i] = byte(a.hi >> (56 - 8*i))
		b[8+i] = byte(a.lo >> (56 - 8*i))
	}
	return netip.AddrFrom16(b)
}
func (a vfU128) bytes() []byte { b := a.addr().As16(); return b[:] }
func (a vfU128) add(n uint64) vfU128 {
	lo := a.lo + n
	hi := a.hi
	if lo < a.lo {
		hi++
	}
	return vfU128{hi, lo}
}
func (a vfU128) sub1() vfU128 {
	if a.lo == 0 {
		return vfU128{a.hi - 1, ^uint64(0)}
	}
	return vfU128{a.hi, a.lo - 1}
}
func vfCmp(a, b vfU128) int { return bytes.Compare(a.bytes(), b.bytes()) }

var vfRegions = []vfU128{
	{0, 0},                                   // ::
	{0, 0x0000ffff00000000},                  // ::ffff:0.0.0.0 (IPv4 space)
	{0, 0x0000ffff0a000000},                  // 10.0.0.0
	{0, 0x0000ffffffffff00},                  // 255.255.255.0
	{0x20010db800000000, 0},                  // 2001:db8::
	{0x20010db8ffffffff, ^uint64(0) - 0x400}, // just below a hi carry
	{^uint64(0), ^uint64(0) - 0x1000},        // top of the space
}

func vfGenPoint(t *rapid.T) vfU128 {
	r := vfRegions[rapid.IntRange(0, len(vfRegions)-1).Draw(t, "region")]
	return r.add(uint64(rapid.IntRange(0, 0x800).Draw(t, "offset")))
}

// vfAsNetip renders a point the way a user would write it: IPv4 points as 4-byte addresses (sometimes mapped).
func vfAsNetip(t *rapid.T, p vfU128) netip.Addr {
	a := p.addr()
	if a.Is4In6() && rapid.Bool().Draw(t, "unmap") {
		return a.Unmap()
	}
	return a
}

type vfRange struct {
	start, end vfU128
	v          int
}

func TestVfC07Netlist(t *testing.T) {
	st := vfkit.Stats("TestVfC07Netlist", "range sets (v4, v6, mixed, adjacent, single-address, extremes; 1/5 with a deliberate overlap) in shuffled insertion order x lookups at start-1/start/end/end+1/inside/random in v4 and v4-mapped forms; oracle: linear scan, overlap => Build error; non-trivial = >= 2 ranges")
	defer vfkit.Flush()
	rapid.Check(t, func(t *rapid.T) {
		k := rapid.IntRange(0, 8).Draw(t, "nRanges")
		pts := make([]vfU128, 0, 2*k)
		for len(pts) < 2*k {
			pts = append(pts, vfGenPoint(t))
		}
		sort.Slice(pts, func(i, j int) bool { return vfCmp(pts[i], pts[j]) < 0 })
		var rs []vfRange
		for i := 0; i+1 < len(pts); i += 2 {
			s, e := pts[i], pts[i+1]
			if rapid.IntRange(0, 4).Draw(t, "single") == 0 {
				e = s
			}
			if len(rs) > 0 && vfCmp(rs[len(rs)-1].end, s) >= 0 {
				continue // duplicate points would overlap; dropped here, overlaps are injected deliberately below
			}
			rs = append(rs, vfRange{s, e, len(rs)})
		}
		overlap := false
		if len(rs) > 0 && rapid.IntRange(0, 4).Draw(t, "injectOverlap") == 0 {
			r := rs[rapid.IntRange(0, len(rs)-1).Draw(t, "ovIdx")]
			var o vfRange
			switch rapid.IntRange(0, 2).Draw(t, "ovKind") {
			case 0:
				o = vfRange{r.end, r.end.add(3), 100} // starts on the last address
			case 1:
				o = vfRange{r.start, r.start, 101} // single address equal to a start
			default:
				o = r
				o.v = 102
			}
			rs = append(rs, o)
			overlap = true
		}
		order := rapid.Permutation(rs).Draw(t, "order")
		b := netlist.NewBuilder[int](0)
		for _, r := range order {
			if !b.Add(vfAsNetip(t, r.start), vfAsNetip(t, r.end), r.v) {
				t.Fatalf("Add rejected a valid range %v-%v", r.start.addr(), r.end.addr())
			}
		}
		// reversed range must be refused
		if len(rs) > 0 && vfCmp(rs[0].start, rs[0].end) < 0 {
			if netlist.NewBuilder[int](0).Add(rs[0].end.addr(), rs[0].start.addr(), 1) {
				t.Fatalf("Add accepted a range whose start is greater than its end")
			}
		}
		l, err := b.Build()
		if overlap {
			if err == nil {
				t.Fatalf("Build accepted overlapping ranges %v", rs)
			}
			st.Case(vfkit.Fingerprint(fmt.Sprint(rs)), len(rs) >= 2, []string{"overlap"}, nil)
			return
		}
		if err != nil {
			t.Fatalf("Build refused non-overlapping ranges: %v", err)
		}
		var probes []vfU128
		for _, r := range rs {
			probes = append(probes, r.start, r.end, r.end.add(1), r.start.add(1))
			if r.start != (vfU128{}) {
				probes = append(probes, r.start.sub1())
			}
		}
		for i := rapid.IntRange(1, 6).Draw(t, "nRandom"); i > 0; i-- {
			probes = append(probes, vfGenPoint(t))
		}
		for _, p := range probes {
			want, wantOK := 0, false
			for _, r := range rs {
				if vfCmp(r.start, p) <= 0 && vfCmp(p, r.end) <= 0 {
					want, wantOK = r.v, true
				}
			}
			forms := []netip.Addr{p.addr()}
			if p.addr().Is4In6() {
				forms = append(forms, p.addr().Unmap())
			}
			for _, a := range forms {
				got, ok := l.LookupAddr(a)
				if ok != wantOK || (ok && got != want) {
					t.Fatalf("LookupAddr(%v) = (%v,%v), linear scan says (%v,%v); ranges %v", a, got, ok, want, wantOK, rs)
				}
			}
		}
		if _, ok := l.LookupAddr(netip.Addr{}); ok {
			t.Fatalf("invalid address found in list")
		}
		st.Case(vfkit.Fingerprint(fmt.Sprint(rs), fmt.Sprint(probes)), len(rs) >= 2, []string{fmt.Sprintf("ranges=%d", min(len(rs), 4))}, func() any {
			var s []string
			for _, r := range rs {
				s = append(s, fmt.Sprintf("%v-%v=%d", r.start.addr(), r.end.addr(), r.v))
			}
			return s
		})
	})
}
