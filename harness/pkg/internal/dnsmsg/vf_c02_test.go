package dnsmsg_test

// C02 - the wire codec preserves message content.
// model M -> harness encoder (random incoming compression) -> repository Unpack -> repository Pack
// (compression off / on, no size limit) -> decoded by the harness decoder, the repository itself,
// miekg/dns and x/net dnsmessage; all must see M again.

import (
	"bytes"
	"fmt"
	"testing"

	"github.com/IrineSistiana/mosproxy/internal/dnsmsg"
	"pgregory.net/rapid"
	"vfkit"
)

func vfGenC02Msg(t *rapid.T) (*vfkit.Msg, bool) {
	big := rapid.IntRange(0, 39).Draw(t, "big") == 0
	m := vfkit.GenMsg(t, vfkit.MsgCfg{MaxQuestions: 3, MaxRRs: 6, OPT: true,
		PoolSize: rapid.IntRange(2, 6).Draw(t, "poolSize"), NameSetSize: rapid.IntRange(2, 7).Draw(t, "nameSetSize")})
	if big {
		// push later records beyond offset 0x3FFF: a block of bulky opaque records in the answer section,
		// followed by more records that reuse the names.
		filler := vfkit.RR{Owner: vfkit.Name{[]byte("filler"), []byte("example")}, Type: 65280, Class: 1, TTL: 5,
			RData: []vfkit.RDPart{{Raw: bytes.Repeat([]byte{0xAB}, rapid.IntRange(200, 900).Draw(t, "fillerLen"))}}}
		n := rapid.IntRange(18, 60).Draw(t, "nFiller")
		pos := rapid.IntRange(0, len(m.An)).Draw(t, "fillerPos")
		block := make([]vfkit.RR, n)
		for i := range block {
			block[i] = filler
		}
		tail := append([]vfkit.RR(nil), m.An[pos:]...)
		m.An = append(append(m.An[:pos:pos], block...), tail...)
		// and repeat the small records after the block so that names recur beyond 0x4000
		m.Ns = append(m.Ns, vfkit.CloneRRs(m.An[:pos])...)
		m.Ns = append(m.Ns, vfkit.CloneRRs(tail)...)
		if m.Len() > 65000 {
			m.An = m.An[:pos]
		}
	}
	if rapid.IntRange(0, 24).Draw(t, "nested") == 0 {
		// a run of records whose owners each extend the previous one by a label (reverse zones, delegation chains):
		// the compressed form of such a run points from name to name to name
		n := rapid.IntRange(4, 40).Draw(t, "nestedNames")
		owner := vfkit.Name{[]byte("base")}
		run := make([]vfkit.RR, 0, n)
		for i := 0; i < n; i++ {
			run = append(run, vfkit.RR{Owner: owner, Type: 1, Class: 1, TTL: 60, RData: []vfkit.RDPart{{Raw: []byte{10, 0, 0, byte(i)}}}})
			owner = append(vfkit.Name{[]byte{"abcdefghij"[i%10]}}, owner...)
		}
		if rapid.Bool().Draw(t, "nestedShuffled") {
			run = rapid.Permutation(run).Draw(t, "nestedOrder")
		}
		m.An = append(m.An, run...)
	}
	return m, big
}

func vfRepoRoundTrip(t *rapid.T, w []byte, compression bool) ([]byte, int) {
	m, err := dnsmsg.UnpackMsg(w)
	if err != nil {
		return nil, -1
	}
	defer dnsmsg.ReleaseMsg(m)
	l := m.Len()
	b := make([]byte, l)
	n, err := m.Pack(b, compression, 0)
	if err != nil {
		t.Fatalf("Pack(compression=%v) of an accepted message failed: %v\ninput %s", compression, err, vfkit.Hex(w))
	}
	// A message can be encoded more than once (the other way in between, or again after a buffer that was too small):
	// the object carries no state from one encoding into the next, so every encoding of it is the same octets.
	if rapid.IntRange(0, 3).Draw(t, "packAgain") == 0 {
		if rapid.Bool().Draw(t, "smallBufferFirst") && n > 13 {
			if _, err := m.Pack(make([]byte, rapid.IntRange(12, n-1).Draw(t, "smallBuffer")), compression, 0); err == nil {
				t.Fatalf("Pack into a buffer shorter than its own output succeeded\ninput %s", vfkit.Hex(w))
			}
		}
		if rapid.Bool().Draw(t, "otherWayInBetween") {
			if _, err := m.Pack(make([]byte, l), !compression, 0); err != nil {
				t.Fatalf("Pack(compression=%v) of an accepted message failed: %v\ninput %s", !compression, err, vfkit.Hex(w))
			}
		}
		b2 := make([]byte, l)
		n2, err := m.Pack(b2, compression, 0)
		if err != nil || !bytes.Equal(b2[:n2], b[:n]) {
			t.Fatalf("a second Pack(compression=%v) of the same message object gives other octets (err=%v)\nfirst  %s\nsecond %s\ninput  %s", compression, err, vfkit.Hex(b[:n]), vfkit.Hex(b2[:n2]), vfkit.Hex(w))
		}
	}
	return b[:n], l
}

func vfMiekgSafe(m *vfkit.Msg) bool {
	// miekg parses TXT strictly and some OPT option bodies strictly; generated TXT is valid and options are
	// length-correct, so everything generated is inside its domain. Kept as a hook for exclusions.
	return true
}

func TestVfC02RoundTrip(t *testing.T) {
	st := vfkit.Stats("TestVfC02RoundTrip", "model messages (all header bits, 0-3 questions, A/AAAA/NS/CNAME/PTR/MX/SOA/SRV/OPT/TXT/private types, adversarial labels from a shared pool, incoming compression pointers drawn from a tape, 1/40 cases > 16 KiB) -> Unpack -> Pack(compression off/on, no limit) -> 4 decoders; non-trivial = >=1 record and (pointer emitted on output, or non-LDH label, or name >= 200 octets, or record beyond 0x3FFF, or opaque/OPT record, or name inside RDATA)")
	defer vfkit.Flush()
	rapid.Check(t, vfC02Prop(st))
}

// vfC02Prop is the property itself; the rapid test and the native fuzz target (rapid.MakeFuzz) share it.
func vfC02Prop(st *vfkit.Collector) func(t *rapid.T) {
	return func(t *rapid.T) {
		M, big := vfGenC02Msg(t)
		W, inPtrs := vfkit.Encode(M, vfkit.EncOpts{Compress: vfkit.GenCompressTape(t)})
		if len(W) > 65535 {
			st.Exclude("input longer than 65535")
			return
		}
		// harness self-check: our own decoder must see M in W
		if d := vfkit.Decode(W); !d.Clean() || vfkit.Diff(M, &d.Msg, 0xFFFF) != "" {
			vfkit.Inconclusive("harness encoder/decoder disagree: %v %s", d.Err, vfkit.Diff(M, &d.Msg, 0xFFFF))
		}
		miekgOK := false
		if vfMiekgSafe(M) {
			if mm, err := vfMiekgDecode(W); err == nil && vfkit.Diff(M, mm, vfkit.HeaderMask&^0xF) == "" {
				miekgOK = true
			} else {
				st.Exclude("miekg does not reproduce the input message (outside its domain)")
			}
		}
		xnetOK := false
		if vfXnetSafe(M) {
			if xm, err := vfXnetDecode(W); err == nil && vfkit.Diff(M, xm, vfkit.HeaderMask) == "" {
				xnetOK = true
			} else {
				st.Exclude("x/net does not reproduce the input message (outside its domain)")
			}
		}

		classes := []string{}
		nontrivial := false
		nRR := len(M.An) + len(M.Ns) + len(M.Ar)
		for _, comp := range []bool{false, true} {
			W2, advertised := vfRepoRoundTrip(t, W, comp)
			if advertised < 0 {
				// the proxy rejects this message; C02 quantifies over accepted messages only
				st.Exclude("rejected by the proxy's decoder")
				classes = append(classes, "rejected")
				break
			}
			d := vfkit.Decode(W2)
			if !d.Clean() {
				t.Fatalf("compression=%v: re-encoded data is not a clean message: err=%v trailing=%d counts=%v present=%v\nin  %s\nout %s", comp, d.Err, d.Trailing, d.Counts, d.Present, vfkit.Hex(W), vfkit.Hex(W2))
			}
			if diff := vfkit.Diff(M, &d.Msg, vfkit.HeaderMask); diff != "" {
				t.Fatalf("compression=%v: content changed: %s\nin  %s\nout %s", comp, diff, vfkit.Hex(W), vfkit.Hex(W2))
			}
			if advertised != M.Len() {
				t.Fatalf("Len() = %d but the uncompressed encoding has %d octets", advertised, M.Len())
			}
			if !comp {
				if len(W2) != advertised {
					t.Fatalf("uncompressed Pack wrote %d octets, Len() advertised %d", len(W2), advertised)
				}
				if len(d.Pointers) != 0 {
					t.Fatalf("pointers in uncompressed output")
				}
			} else {
				if len(W2) > advertised {
					t.Fatalf("compressed output longer (%d) than Len() (%d)", len(W2), advertised)
				}
				for _, p := range d.Pointers {
					if p.Target >= 0x4000 || p.Target >= p.At {
						t.Fatalf("bad pointer at %d -> %d", p.At, p.Target)
					}
				}
				if len(d.Pointers) > 0 {
					classes = append(classes, "out-pointer")
					if nRR > 0 {
						nontrivial = true
					}
				}
			}
			// the repository's own decoder on its own output, and idempotence
			W3, _ := vfRepoRoundTrip(t, W2, comp)
			if W3 == nil {
				t.Fatalf("compression=%v: the proxy rejects its own encoding\nin  %s\nout %s", comp, vfkit.Hex(W), vfkit.Hex(W2))
			}
			if !bytes.Equal(W3, W2) {
				d3 := vfkit.Decode(W3)
				t.Fatalf("compression=%v: not idempotent: %s\nout1 %s\nout2 %s", comp, vfkit.Diff(&d.Msg, &d3.Msg, 0xFFFF), vfkit.Hex(W2), vfkit.Hex(W3))
			}
			if miekgOK {
				mm, err := vfMiekgDecode(W2)
				if err != nil {
					t.Fatalf("compression=%v: miekg/dns rejects the re-encoded message: %v\nin  %s\nout %s", comp, err, vfkit.Hex(W), vfkit.Hex(W2))
				}
				if diff := vfkit.Diff(M, mm, vfkit.HeaderMask&^0xF); diff != "" {
					t.Fatalf("compression=%v: miekg/dns sees different content: %s\nin  %s\nout %s", comp, diff, vfkit.Hex(W), vfkit.Hex(W2))
				}
			}
			if xnetOK {
				xm, err := vfXnetDecode(W2)
				if err != nil {
					t.Fatalf("compression=%v: x/net dnsmessage rejects the re-encoded message: %v\nin  %s\nout %s", comp, err, vfkit.Hex(W), vfkit.Hex(W2))
				}
				if diff := vfkit.Diff(M, xm, vfkit.HeaderMask); diff != "" {
					t.Fatalf("compression=%v: x/net sees different content: %s\nin  %s\nout %s", comp, diff, vfkit.Hex(W), vfkit.Hex(W2))
				}
			}
		}

		if miekgOK {
			classes = append(classes, "miekg-compared")
		}
		if xnetOK {
			classes = append(classes, "xnet-compared")
		}
		if inPtrs > 0 {
			classes = append(classes, "in-pointer")
		}
		if big {
			classes = append(classes, "big")
		}
		nonLDH, longName, opaque, rdName, beyond := false, false, false, false, false
		chk := func(n vfkit.Name) {
			if n.WireLen() >= 200 {
				longName = true
			}
			for _, l := range n {
				for _, c := range l {
					if !(('a' <= c && c <= 'z') || ('A' <= c && c <= 'Z') || ('0' <= c && c <= '9') || c == '-') {
						nonLDH = true
					}
				}
			}
		}
		off := 12
		for _, q := range M.Q {
			chk(q.Name)
			off += q.Name.WireLen() + 4
		}
		for _, s := range M.Sections() {
			for i := range s {
				if off > 0x3FFF {
					beyond = true
				}
				off += len(s[i].Canon())
				chk(s[i].Owner)
				switch s[i].Type {
				case 1, 28, 2, 5, 12, 15, 6, 33:
				default:
					opaque = true
				}
				for _, p := range s[i].RData {
					if p.IsName {
						rdName = true
						chk(p.Name)
					}
				}
			}
		}
		for name, v := range map[string]bool{"nonLDH": nonLDH, "name>=200": longName, "opaque-or-OPT": opaque, "rdata-name": rdName, "beyond-0x3FFF": beyond} {
			if v {
				classes = append(classes, name)
				if nRR > 0 {
					nontrivial = true
				}
			}
		}
		st.Case(vfkit.Fingerprint(W), nontrivial, classes, func() any {
			return map[string]any{"model": fmt.Sprint(M.String()[:min(len(M.String()), 600)]), "wire_in": vfkit.Hex(W)}
		})
	}
}

// FuzzVfC02RoundTrip drives the same property with Go's native coverage-guided fuzzing: the fuzzer mutates the bit stream
// rapid draws from (thorough tier only; nothing is replayed in the quick tier apart from one seed input).
func FuzzVfC02RoundTrip(f *testing.F) {
	st := vfkit.Stats("FuzzVfC02RoundTrip", "the round-trip property of TestVfC02RoundTrip driven by native coverage-guided fuzzing of rapid's draw stream (rapid.MakeFuzz); same oracle and non-triviality rule")
	defer vfkit.Flush()
	f.Add([]byte("vf seed input: any octets are a valid draw stream"))
	f.Fuzz(rapid.MakeFuzz(vfC02Prop(st)))
}
