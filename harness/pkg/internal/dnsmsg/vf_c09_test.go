package dnsmsg_test

// C09 (pack level) - responses respect the size limit and truncate well-formedly.

import (
	"bytes"
	"fmt"
	"testing"

	"github.com/IrineSistiana/mosproxy/internal/dnsmsg"
	"pgregory.net/rapid"
	"vfkit"
)

func vfGenC09Msg(t *rapid.T) *vfkit.Msg {
	pool := vfkit.GenLabelPool(t, rapid.IntRange(2, 5).Draw(t, "poolSize"))
	names := vfkit.GenNameSet(t, pool, rapid.IntRange(2, 6).Draw(t, "nNames"))
	m := &vfkit.Msg{ID: rapid.Uint16().Draw(t, "id"), Bits: vfkit.GenHeaderBits(t) | vfkit.BitQR}
	if rapid.Bool().Draw(t, "tcAlready") {
		m.Bits |= vfkit.BitTC
	} else {
		m.Bits &^= vfkit.BitTC
	}
	if rapid.IntRange(0, 9).Draw(t, "hasQ") > 0 {
		m.Q = []vfkit.Question{{Name: names.Pick(t), Type: rapid.SampledFrom([]uint16{1, 28, 16, 255}).Draw(t, "qtype"), Class: 1}}
	}
	// size classes: small, around 512, around 1232, large
	target := rapid.SampledFrom([]int{3, 8, 20, 40, 120, 400}).Draw(t, "nRecords")
	n := rapid.IntRange(0, target).Draw(t, "n")
	secs := [3]*[]vfkit.RR{&m.An, &m.Ns, &m.Ar}
	for i := 0; i < n; i++ {
		var r vfkit.RR
		if rapid.IntRange(0, 5).Draw(t, "bulky") == 0 {
			r = vfkit.RR{Owner: names.Pick(t), Type: 16, Class: 1, TTL: vfkit.GenTTL(t), RData: []vfkit.RDPart{{Raw: append([]byte{200}, bytes.Repeat([]byte{byte('a' + i%26)}, 200)...)}}}
		} else {
			r = vfkit.GenRR(t, names)
		}
		s := rapid.SampledFrom([]int{0, 0, 0, 1, 2}).Draw(t, "section")
		*secs[s] = append(*secs[s], r)
	}
	if rapid.IntRange(0, 3).Draw(t, "hasOPT") > 0 {
		opt := vfkit.GenOPT(t, 4)
		for len(opt.RDataWire()) > 200 {
			opt.RData = []vfkit.RDPart{{Raw: opt.RDataWire()[:0]}}
		}
		pos := rapid.IntRange(0, len(m.Ar)).Draw(t, "optPos")
		m.Ar = append(m.Ar[:pos:pos], append([]vfkit.RR{opt}, m.Ar[pos:]...)...)
	}
	return m
}

// vfSubsequence reports whether got is a subsequence of want (record-wise equality).
func vfSubsequence(got, want []vfkit.RR) bool {
	j := 0
	for i := range got {
		c := got[i].Canon()
		for j < len(want) && !bytes.Equal(want[j].Canon(), c) {
			j++
		}
		if j == len(want) {
			return false
		}
		j++
	}
	return true
}

// vfSubMultiset reports whether every record of got occurs in want (with multiplicity).
func vfSubMultiset(got, want []vfkit.RR) bool {
	cnt := map[string]int{}
	for i := range want {
		cnt[string(want[i].Canon())]++
	}
	for i := range got {
		k := string(got[i].Canon())
		if cnt[k] == 0 {
			return false
		}
		cnt[k]--
	}
	return true
}

func TestVfC09PackLimit(t *testing.T) {
	st := vfkit.Stats("TestVfC09PackLimit", "responses (0-1 question, 0-400 records of mixed sizes, optional OPT <= 200 octets of RDATA at any additional position, TC preset on/off) x limit in {0} u 512..65535 biased to Len()+-40, 512, 513, 1232, 4096, 65535 and < 512 x compression; non-trivial = a record was omitted or Len() within 40 octets of the limit")
	defer vfkit.Flush()
	rapid.Check(t, vfC09Prop(st))
}

// vfC09Prop is the property itself; the rapid test and the native fuzz target (rapid.MakeFuzz) share it.
func vfC09Prop(st *vfkit.Collector) func(t *rapid.T) {
	return func(t *rapid.T) {
		M := vfGenC09Msg(t)
		W, _ := vfkit.Encode(M, vfkit.EncOpts{})
		if len(W) > 65535 {
			st.Exclude("input longer than 65535")
			return
		}
		m, err := dnsmsg.UnpackMsg(W)
		if err != nil {
			vfkit.Inconclusive("generated response rejected by Unpack: %v", err)
		}
		defer dnsmsg.ReleaseMsg(m)
		L := m.Len()
		var limit int
		switch rapid.IntRange(0, 5).Draw(t, "limitKind") {
		case 0:
			limit = 0
		case 1, 2:
			limit = L + rapid.IntRange(-40, 40).Draw(t, "delta")
			if limit < 1 {
				limit = 1
			}
		case 3:
			limit = rapid.SampledFrom([]int{1, 100, 511, 512, 513, 1200, 1232, 4096, 65535}).Draw(t, "limit")
		case 4:
			limit = rapid.IntRange(512, 65535).Draw(t, "limit")
		default:
			limit = rapid.IntRange(512, max(513, L)).Draw(t, "limit")
		}
		if limit > 65535 {
			limit = 65535
		}
		comp := rapid.Bool().Draw(t, "compression")
		b := make([]byte, L)
		n, err := m.Pack(b, comp, limit)
		if err != nil {
			t.Fatalf("Pack(limit=%d, compression=%v) failed: %v (Len=%d)", limit, comp, err, L)
		}
		out := b[:n]
		eff := limit
		if eff > 0 && eff < 512 {
			eff = 512
		}
		if eff > 0 && n > eff {
			t.Fatalf("output %d octets exceeds limit %d (effective %d); Len()=%d compression=%v", n, limit, eff, L, comp)
		}
		d := vfkit.Decode(out)
		present := len(d.An) + len(d.Ns) + len(d.Ar)
		total := len(M.An) + len(M.Ns) + len(M.Ar)
		if !d.Clean() {
			t.Fatalf("limit=%d compression=%v Len=%d: output is not a clean message: err=%v header counts=%v present=%v trailing=%d TC=%v\nout %s",
				limit, comp, L, d.Err, d.Counts, d.Present, d.Trailing, d.Has(vfkit.BitTC), vfkit.Hex(out))
		}
		// miekg/dns is only consulted when the untruncated input is inside its own domain
		_, miekgErr := vfMiekgDecode(W)
		if miekgErr != nil {
			st.Exclude("miekg rejects the untruncated input (outside its domain)")
		} else if _, err := vfMiekgDecode(out); err != nil {
			t.Fatalf("limit=%d: miekg/dns cannot decode the output: %v\nout %s", limit, err, vfkit.Hex(out))
		}
		if (d.Bits^M.Bits)&vfkit.HeaderMask&^vfkit.BitTC != 0 || d.ID != M.ID {
			t.Fatalf("header changed: %04x -> %04x", M.Bits, d.Bits)
		}
		if diff := vfkit.DiffQuestions(M.Q, d.Q); diff != "" {
			t.Fatalf("limit=%d: question not retained: %s", limit, diff)
		}
		omitted := total - present
		if omitted < 0 {
			t.Fatalf("more records than the original")
		}
		if !vfSubsequence(d.An, M.An) {
			t.Fatalf("limit=%d: kept answers are not an in-order subsequence of the original:\n got %v\nwant %v", limit, d.An, M.An)
		}
		if !vfSubsequence(d.Ns, M.Ns) {
			t.Fatalf("limit=%d: kept authorities are not an in-order subsequence of the original", limit)
		}
		if !vfSubMultiset(d.Ar, M.Ar) {
			t.Fatalf("limit=%d: additional section contains records that are not among the originals", limit)
		}
		if o := M.Opt(); o != nil {
			k := d.Opt()
			if k == nil {
				t.Fatalf("limit=%d Len=%d: OPT record not retained", limit, L)
			}
			if !bytes.Equal(k.Canon(), o.Canon()) {
				t.Fatalf("OPT record modified")
			}
		}
		if omitted > 0 {
			if !d.Has(vfkit.BitTC) {
				t.Fatalf("limit=%d Len=%d compression=%v: %d records omitted but TC is not set", limit, L, comp, omitted)
			}
			if eff == 0 {
				t.Fatalf("records omitted without a limit")
			}
		} else if d.Has(vfkit.BitTC) != M.Has(vfkit.BitTC) {
			t.Fatalf("limit=%d Len=%d: nothing omitted but TC changed %v -> %v", limit, L, M.Has(vfkit.BitTC), d.Has(vfkit.BitTC))
		}
		if (eff == 0 || L <= eff) && omitted > 0 {
			t.Fatalf("limit=%d (effective %d) >= Len()=%d but %d records were omitted", limit, eff, L, omitted)
		}
		classes := []string{}
		if omitted > 0 {
			classes = append(classes, "truncated")
		}
		near := eff > 0 && L-eff <= 40 && eff-L <= 40
		if near {
			classes = append(classes, "near-limit")
		}
		if M.Opt() != nil {
			classes = append(classes, "has-OPT")
		}
		if limit > 0 && limit < 512 {
			classes = append(classes, "limit<512")
		}
		if comp {
			classes = append(classes, "compression")
		}
		st.Case(vfkit.Fingerprint(W, limit, comp), omitted > 0 || near, classes, func() any {
			return map[string]any{"len": L, "limit": limit, "compression": comp, "records": total, "omitted": omitted, "out_len": n}
		})
		_ = fmt.Sprint
	}
}

// FuzzVfC09PackLimit drives the same property with Go's native coverage-guided fuzzing: the fuzzer mutates the bit stream
// rapid draws from (thorough tier only; nothing is replayed in the quick tier apart from one seed input).
func FuzzVfC09PackLimit(f *testing.F) {
	st := vfkit.Stats("FuzzVfC09PackLimit", "the size-limit property of TestVfC09PackLimit driven by native coverage-guided fuzzing of rapid's draw stream (rapid.MakeFuzz); same oracle and non-triviality rule")
	defer vfkit.Flush()
	f.Add([]byte("vf seed input: any octets are a valid draw stream"))
	f.Fuzz(rapid.MakeFuzz(vfC09Prop(st)))
}
