package dnsmsg_test

// C01 (decoder level) - malformed input never crashes or hangs the decoder, never reads out of
// bounds, and whatever is accepted is a real message (re-encodable, equal to what an independent
// decoder sees, not aliasing the receive buffer).

import (
	"bytes"
	"fmt"
	"os"
	"path/filepath"
	"testing"
	"time"

	"github.com/IrineSistiana/mosproxy/internal/dnsmsg"
	"github.com/IrineSistiana/mosproxy/internal/pool"
	"pgregory.net/rapid"
	"vfkit"
)

type vfFataler interface {
	Fatalf(format string, args ...any)
}

// vfDecodeOracle is shared by the rapid property and the native fuzz target.
// It returns (accepted, class).
func vfDecodeOracle(t vfFataler, in []byte) bool {
	// cap == len: an append or reslice beyond the input cannot silently reach other memory
	buf := make([]byte, len(in))
	copy(buf, in)
	buf = buf[:len(buf):len(buf)]

	type result struct {
		m   *dnsmsg.Msg
		err error
		p   any
	}
	done := make(chan result, 1)
	go func() {
		defer func() {
			if p := recover(); p != nil {
				done <- result{p: p}
			}
		}()
		m, err := dnsmsg.UnpackMsg(buf)
		done <- result{m: m, err: err}
	}()
	var r result
	select {
	case r = <-done:
	case <-time.After(10 * time.Second):
		t.Fatalf("decoder did not terminate within 10s on %s", vfkit.Hex(in))
	}
	if r.p != nil {
		t.Fatalf("decoder panicked: %v on %s", r.p, vfkit.Hex(in))
	}
	if r.err != nil {
		if r.m != nil {
			t.Fatalf("error together with a message")
		}
		return false
	}
	m := r.m
	defer dnsmsg.ReleaseMsg(m)

	// accepted => re-encodable into exactly Len() octets
	l := m.Len()
	out1 := make([]byte, l)
	n, err := m.Pack(out1, false, 0)
	if err != nil {
		t.Fatalf("accepted message cannot be re-encoded: %v; input %s", err, vfkit.Hex(in))
	}
	if n != l {
		t.Fatalf("accepted message: Pack wrote %d octets, Len()=%d; input %s", n, l, vfkit.Hex(in))
	}
	// no aliasing of the receive buffer
	for i := range buf {
		buf[i] ^= 0xA5
	}
	out2 := make([]byte, l)
	if _, err := m.Pack(out2, false, 0); err != nil || !bytes.Equal(out1, out2) {
		t.Fatalf("decoded message aliases the input buffer (re-encoding changed after the buffer was scrambled); input %s", vfkit.Hex(in))
	}
	// the harness decoder must see the same message in the input
	d := vfkit.Decode(in)
	if d.Err != nil || d.Counts != d.Present {
		t.Fatalf("the proxy accepted data that the reference decoder cannot parse (%v); input %s", d.Err, vfkit.Hex(in))
	}
	d2 := vfkit.Decode(out1)
	if !d2.Clean() {
		t.Fatalf("re-encoding of an accepted message is not clean: %v; input %s", d2.Err, vfkit.Hex(in))
	}
	if diff := vfkit.Diff(&d.Msg, &d2.Msg, vfkit.HeaderMask); diff != "" {
		t.Fatalf("accepted message differs from what the reference decoder sees: %s; input %s", diff, vfkit.Hex(in))
	}
	// and it must decode again to the same thing
	m2, err := dnsmsg.UnpackMsg(out1)
	if err != nil {
		t.Fatalf("the proxy rejects its own re-encoding: %v; input %s", err, vfkit.Hex(in))
	}
	out3 := make([]byte, m2.Len())
	n3, err := m2.Pack(out3, true, 0)
	dnsmsg.ReleaseMsg(m2)
	if err != nil {
		t.Fatalf("compressed re-encoding failed: %v", err)
	}
	d3 := vfkit.Decode(out3[:n3])
	if !d3.Clean() || vfkit.Diff(&d2.Msg, &d3.Msg, 0xFFFF) != "" {
		t.Fatalf("compressed re-encoding changed the content: %v %s; input %s", d3.Err, vfkit.Diff(&d2.Msg, &d3.Msg, 0xFFFF), vfkit.Hex(in))
	}
	return true
}

func vfNameOracle(t vfFataler, in []byte) {
	buf := append([]byte(nil), in...)
	buf = buf[:len(buf):len(buf)]
	done := make(chan any, 1)
	go func() {
		defer func() { done <- recover() }()
		s := dnsmsg.NewNameScanner(buf)
		labels := 0
		for s.Scan() {
			labels++
			if labels > 300 {
				panic("scanner yields more labels than a name can hold")
			}
		}
		scanErr := s.Err()
		r, err := dnsmsg.ToReadable(buf)
		if (err == nil) != (scanErr == nil) {
			panic(fmt.Sprintf("ToReadable err=%v but scanner err=%v", err, scanErr))
		}
		if err == nil {
			if len(buf) > 0 && len(r) == 0 {
				panic("empty readable form")
			}
			// the callers (query log, regexp matcher) hand the text back to the buffer pool when they are done
			pool.ReleaseBuf(r)
		}
		cp := append([]byte(nil), buf...)
		lerr := dnsmsg.ToLowerName(cp)
		if (lerr == nil) != (scanErr == nil) {
			panic(fmt.Sprintf("ToLowerName err=%v but scanner err=%v", lerr, scanErr))
		}
		if len(cp) != len(buf) {
			panic("ToLowerName changed the length")
		}
	}()
	select {
	case p := <-done:
		if p != nil {
			t.Fatalf("name helpers panicked: %v on %s", p, vfkit.Hex(in))
		}
	case <-time.After(10 * time.Second):
		t.Fatalf("name helpers did not terminate on %s", vfkit.Hex(in))
	}
}

func TestVfC01Decoder(t *testing.T) {
	st := vfkit.Stats("TestVfC01Decoder", "hostile byte strings: structure-aware corruption of valid messages (truncation at any offset, lying counts / RDLENGTH / label octets, pointer to self / cycles / forward / past end / chains of 1-14 hops / growing-name loops, splices, bit flips, trailing garbage), hand-written constants and plain random bytes -> UnpackMsg; non-trivial = >= 12 octets and (rejected after the header parsed, or contains a pointer, or accepted)")
	defer vfkit.Flush()
	rapid.Check(t, func(t *rapid.T) {
		in, class := vfkit.GenHostile(t)
		accepted := vfDecodeOracle(t, in)
		classes := []string{class}
		if accepted {
			classes = append(classes, "accepted")
		} else {
			classes = append(classes, "rejected")
		}
		hasPtr := false
		for _, c := range in {
			if c&0xC0 == 0xC0 {
				hasPtr = true
			}
		}
		st.Case(vfkit.Fingerprint(in), len(in) >= 12 && (class != "valid"), classes, func() any {
			return map[string]any{"class": class, "accepted": accepted, "input": vfkit.Hex(in), "has_pointer_octet": hasPtr}
		})
	})
}

func TestVfC01Names(t *testing.T) {
	st := vfkit.Stats("TestVfC01Names", "arbitrary octet strings and corrupted wire names -> NameScanner / ToReadable / ToLowerName; non-trivial = not a valid wire name")
	defer vfkit.Flush()
	rapid.Check(t, func(t *rapid.T) {
		var in []byte
		switch rapid.IntRange(0, 4).Draw(t, "kind") {
		case 4:
			// valid names of 200-255 octets whose labels consist of one drawn kind of octet (the text form of an octet is
			// 1, 2 or 4 characters long)
			oc := rapid.SampledFrom([]byte{0xFF, 0x00, '.', '\\', 'a', 0x7F, ' '}).Draw(t, "octet")
			for left := rapid.IntRange(200, 254).Draw(t, "total"); left > 1; {
				l := min(63, left-1, rapid.IntRange(1, 63).Draw(t, "labelLen"))
				if rapid.Bool().Draw(t, "maxLabel") {
					l = min(63, left-1)
				}
				in = append(in, byte(l))
				for i := 0; i < l; i++ {
					if rapid.IntRange(0, 15).Draw(t, "other") == 0 {
						in = append(in, rapid.Byte().Draw(t, "v"))
					} else {
						in = append(in, oc)
					}
				}
				left -= l + 1
			}
		case 0:
			in = rapid.SliceOfN(rapid.Byte(), 0, 300).Draw(t, "raw")
		case 1:
			pool := vfkit.GenLabelPool(t, 3)
			in = vfkit.GenNameFrom(t, pool, 6).WireNoRoot()
		case 2:
			pool := vfkit.GenLabelPool(t, 3)
			in = vfkit.GenNameFrom(t, pool, 6).Wire()
			if len(in) > 0 {
				in[rapid.IntRange(0, len(in)-1).Draw(t, "at")] = rapid.Byte().Draw(t, "v")
			}
		default:
			in = bytes.Repeat([]byte{63}, rapid.IntRange(250, 260).Draw(t, "n"))
		}
		vfNameOracle(t, in)
		_, err := vfkit.NameFromWire(in)
		st.Case(vfkit.Fingerprint(in), err != nil, nil, func() any { return vfkit.Hex(in) })
	})
}

// vfSeedCorpus returns the committed corpus of a target plus the hostile constants.
func vfSeedCorpus(target string) [][]byte {
	out := vfkit.HostileConstants()
	dir := os.Getenv("VERIF_CORPUS")
	if dir == "" {
		return out
	}
	files, _ := filepath.Glob(filepath.Join(dir, target, "*"))
	for _, f := range files {
		if b, err := os.ReadFile(f); err == nil {
			out = append(out, b)
		}
	}
	return out
}

// FuzzVfC01Unpack is the native (coverage-guided) target; in the quick tier it only replays the corpus.
func FuzzVfC01Unpack(f *testing.F) {
	st := vfkit.Stats("FuzzVfC01Unpack", "native fuzzing / corpus replay of UnpackMsg with the accept=>re-encodable, no-alias, differential oracle inside the target; non-trivial = >= 12 octets")
	defer vfkit.Flush()
	for _, b := range vfSeedCorpus("C01") {
		f.Add(b)
	}
	f.Fuzz(func(t *testing.T, in []byte) {
		if len(in) > 65535 {
			return
		}
		acc := vfDecodeOracle(t, in)
		vfNameOracle(t, in)
		cl := "rejected"
		if acc {
			cl = "accepted"
		}
		st.Case(vfkit.Fingerprint(in), len(in) >= 12, []string{cl}, func() any { return vfkit.Hex(in) })
	})
}
