package dnsmsg_test

import (
	"fmt"

	"github.com/miekg/dns"
	"golang.org/x/net/dns/dnsmessage"
	"vfkit"
)

// vfFromMiekg converts a message decoded by miekg/dns into the harness model by re-packing
// every record without compression (no presentation-format questions arise).
func vfFromMiekg(mm *dns.Msg) (*vfkit.Msg, error) {
	out := &vfkit.Msg{ID: mm.Id}
	var bits uint16
	if mm.Response {
		bits |= vfkit.BitQR
	}
	bits |= uint16(mm.Opcode&0xF) << 11
	if mm.Authoritative {
		bits |= vfkit.BitAA
	}
	if mm.Truncated {
		bits |= vfkit.BitTC
	}
	if mm.RecursionDesired {
		bits |= vfkit.BitRD
	}
	if mm.RecursionAvailable {
		bits |= vfkit.BitRA
	}
	if mm.Zero {
		bits |= vfkit.BitZ
	}
	if mm.AuthenticatedData {
		bits |= vfkit.BitAD
	}
	if mm.CheckingDisabled {
		bits |= vfkit.BitCD
	}
	bits |= uint16(mm.Rcode & 0xF) // miekg folds the OPT extended rcode into Rcode; keep the header nibble
	out.Bits = bits
	buf := make([]byte, 70000)
	for _, q := range mm.Question {
		off, err := dns.PackDomainName(q.Name, buf, 0, nil, false)
		if err != nil {
			return nil, fmt.Errorf("miekg question name: %w", err)
		}
		n, err := vfkit.NameFromWire(buf[:off])
		if err != nil {
			return nil, err
		}
		out.Q = append(out.Q, vfkit.Question{Name: n, Type: q.Qtype, Class: q.Qclass})
	}
	conv := func(rrs []dns.RR) ([]vfkit.RR, error) {
		var o []vfkit.RR
		for _, rr := range rrs {
			off, err := dns.PackRR(rr, buf, 0, nil, false)
			if err != nil {
				return nil, fmt.Errorf("miekg repack: %w", err)
			}
			r, err := vfkit.DecodeOneRR(buf[:off])
			if err != nil {
				return nil, fmt.Errorf("miekg repack decode: %w", err)
			}
			o = append(o, r)
		}
		return o, nil
	}
	var err error
	if out.An, err = conv(mm.Answer); err != nil {
		return nil, err
	}
	if out.Ns, err = conv(mm.Ns); err != nil {
		return nil, err
	}
	if out.Ar, err = conv(mm.Extra); err != nil {
		return nil, err
	}
	return out, nil
}

func vfMiekgDecode(w []byte) (*vfkit.Msg, error) {
	var mm dns.Msg
	if err := mm.Unpack(w); err != nil {
		return nil, err
	}
	return vfFromMiekg(&mm)
}

// vfXnetDecode decodes with golang.org/x/net/dns/dnsmessage and rebuilds the model from the
// parser's own view (names from Name.Data, bodies re-packed without compression).
func vfXnetDecode(w []byte) (*vfkit.Msg, error) {
	var p dnsmessage.Parser
	h, err := p.Start(w)
	if err != nil {
		return nil, err
	}
	out := &vfkit.Msg{ID: h.ID}
	var bits uint16
	if h.Response {
		bits |= vfkit.BitQR
	}
	bits |= uint16(h.OpCode&0xF) << 11
	if h.Authoritative {
		bits |= vfkit.BitAA
	}
	if h.Truncated {
		bits |= vfkit.BitTC
	}
	if h.RecursionDesired {
		bits |= vfkit.BitRD
	}
	if h.RecursionAvailable {
		bits |= vfkit.BitRA
	}
	if h.AuthenticData {
		bits |= vfkit.BitAD
	}
	if h.CheckingDisabled {
		bits |= vfkit.BitCD
	}
	bits |= uint16(h.RCode) & 0xF
	out.Bits = bits
	name := func(n dnsmessage.Name) (vfkit.Name, error) {
		// presentation form without escaping: labels separated by '.', ends with '.'
		s := n.Data[:n.Length]
		var o vfkit.Name
		if len(s) == 1 && s[0] == '.' {
			return nil, nil
		}
		start := 0
		for i := 0; i < len(s); i++ {
			if s[i] == '.' {
				if i == start {
					return nil, fmt.Errorf("xnet: empty label in %q", s)
				}
				o = append(o, append([]byte(nil), s[start:i]...))
				start = i + 1
			}
		}
		if start != len(s) {
			return nil, fmt.Errorf("xnet: name without trailing dot %q", s)
		}
		return o, nil
	}
	qs, err := p.AllQuestions()
	if err != nil {
		return nil, err
	}
	for _, q := range qs {
		n, err := name(q.Name)
		if err != nil {
			return nil, err
		}
		out.Q = append(out.Q, vfkit.Question{Name: n, Type: uint16(q.Type), Class: uint16(q.Class)})
	}
	conv := func(rs []dnsmessage.Resource) ([]vfkit.RR, error) {
		var o []vfkit.RR
		for _, r := range rs {
			owner, err := name(r.Header.Name)
			if err != nil {
				return nil, err
			}
			rr := vfkit.RR{Owner: owner, Type: uint16(r.Header.Type), Class: uint16(r.Header.Class), TTL: r.Header.TTL}
			nm := func(n dnsmessage.Name) vfkit.RDPart {
				v, e := name(n)
				if e != nil {
					err = e
				}
				return vfkit.RDPart{IsName: true, Name: v}
			}
			switch b := r.Body.(type) {
			case *dnsmessage.AResource:
				rr.RData = []vfkit.RDPart{{Raw: b.A[:]}}
			case *dnsmessage.AAAAResource:
				rr.RData = []vfkit.RDPart{{Raw: b.AAAA[:]}}
			case *dnsmessage.NSResource:
				rr.RData = []vfkit.RDPart{nm(b.NS)}
			case *dnsmessage.CNAMEResource:
				rr.RData = []vfkit.RDPart{nm(b.CNAME)}
			case *dnsmessage.PTRResource:
				rr.RData = []vfkit.RDPart{nm(b.PTR)}
			case *dnsmessage.MXResource:
				rr.RData = []vfkit.RDPart{{Raw: []byte{byte(b.Pref >> 8), byte(b.Pref)}}, nm(b.MX)}
			case *dnsmessage.SOAResource:
				tail := make([]byte, 20)
				for i, v := range []uint32{b.Serial, b.Refresh, b.Retry, b.Expire, b.MinTTL} {
					tail[4*i], tail[4*i+1], tail[4*i+2], tail[4*i+3] = byte(v>>24), byte(v>>16), byte(v>>8), byte(v)
				}
				rr.RData = []vfkit.RDPart{nm(b.NS), nm(b.MBox), {Raw: tail}}
			case *dnsmessage.SRVResource:
				rr.RData = []vfkit.RDPart{{Raw: []byte{byte(b.Priority >> 8), byte(b.Priority), byte(b.Weight >> 8), byte(b.Weight), byte(b.Port >> 8), byte(b.Port)}}, nm(b.Target)}
			case *dnsmessage.UnknownResource:
				rr.RData = []vfkit.RDPart{{Raw: b.Data}}
			default:
				return nil, fmt.Errorf("xnet: body %T not convertible", r.Body)
			}
			if err != nil {
				return nil, err
			}
			o = append(o, rr)
		}
		return o, nil
	}
	an, err := p.AllAnswers()
	if err != nil {
		return nil, err
	}
	if out.An, err = conv(an); err != nil {
		return nil, err
	}
	ns, err := p.AllAuthorities()
	if err != nil {
		return nil, err
	}
	if out.Ns, err = conv(ns); err != nil {
		return nil, err
	}
	ar, err := p.AllAdditionals()
	if err != nil {
		return nil, err
	}
	if out.Ar, err = conv(ar); err != nil {
		return nil, err
	}
	return out, nil
}

// vfXnetSafe: x/net keeps names in an unescaped dotted form, so labels containing '.'
// cannot be represented; TXT and OPT bodies are parsed into structures we do not convert.
func vfXnetSafe(m *vfkit.Msg) bool {
	okName := func(n vfkit.Name) bool {
		for _, l := range n {
			for _, c := range l {
				if c == '.' {
					return false
				}
			}
		}
		return true
	}
	for _, q := range m.Q {
		if !okName(q.Name) {
			return false
		}
	}
	for _, s := range m.Sections() {
		for _, r := range s {
			if !okName(r.Owner) || r.Type == 16 || r.Type == 41 {
				return false
			}
			for _, p := range r.RData {
				if p.IsName && !okName(p.Name) {
					return false
				}
			}
		}
	}
	return true
}
