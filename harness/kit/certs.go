package vfkit

import (
	"crypto/ecdsa"
	"crypto/elliptic"
	"crypto/rand"
	"crypto/tls"
	"crypto/x509"
	"crypto/x509/pkix"
	"encoding/pem"
	"math/big"
	"net"
	"time"
)

// CA is a throw-away certificate authority of the harness.
type CA struct {
	Cert    *x509.Certificate
	Key     *ecdsa.PrivateKey
	CertPEM []byte
}

var serial int64 = 1000

func NewCA(name string) *CA {
	key, _ := ecdsa.GenerateKey(elliptic.P256(), rand.Reader)
	serial++
	tpl := &x509.Certificate{SerialNumber: big.NewInt(serial), Subject: pkix.Name{CommonName: name},
		NotBefore: time.Now().Add(-time.Hour), NotAfter: time.Now().Add(24 * time.Hour),
		IsCA: true, BasicConstraintsValid: true, KeyUsage: x509.KeyUsageCertSign | x509.KeyUsageDigitalSignature}
	der, err := x509.CreateCertificate(rand.Reader, tpl, tpl, &key.PublicKey, key)
	if err != nil {
		panic(err)
	}
	cert, _ := x509.ParseCertificate(der)
	return &CA{Cert: cert, Key: key, CertPEM: pem.EncodeToMemory(&pem.Block{Type: "CERTIFICATE", Bytes: der})}
}

type LeafOpts struct {
	DNSNames   []string
	IPs        []string
	NotBefore  time.Time
	NotAfter   time.Time
	Client     bool
	SelfSigned bool
}

type Leaf struct {
	TLS     tls.Certificate
	CertPEM []byte
	KeyPEM  []byte
}

// Issue creates a leaf certificate signed by ca (or self-signed).
func (ca *CA) Issue(o LeafOpts) *Leaf {
	key, _ := ecdsa.GenerateKey(elliptic.P256(), rand.Reader)
	serial++
	nb, na := o.NotBefore, o.NotAfter
	if nb.IsZero() {
		nb = time.Now().Add(-time.Hour)
	}
	if na.IsZero() {
		na = time.Now().Add(12 * time.Hour)
	}
	tpl := &x509.Certificate{SerialNumber: big.NewInt(serial), Subject: pkix.Name{CommonName: "vf-leaf"},
		NotBefore: nb, NotAfter: na, DNSNames: o.DNSNames, KeyUsage: x509.KeyUsageDigitalSignature,
		ExtKeyUsage: []x509.ExtKeyUsage{x509.ExtKeyUsageServerAuth, x509.ExtKeyUsageClientAuth}}
	for _, ip := range o.IPs {
		tpl.IPAddresses = append(tpl.IPAddresses, net.ParseIP(ip))
	}
	parent, signer := ca.Cert, ca.Key
	if o.SelfSigned {
		parent, signer = tpl, key
	}
	der, err := x509.CreateCertificate(rand.Reader, tpl, parent, &key.PublicKey, signer)
	if err != nil {
		panic(err)
	}
	kb, _ := x509.MarshalECPrivateKey(key)
	l := &Leaf{CertPEM: pem.EncodeToMemory(&pem.Block{Type: "CERTIFICATE", Bytes: der}), KeyPEM: pem.EncodeToMemory(&pem.Block{Type: "EC PRIVATE KEY", Bytes: kb})}
	l.TLS, err = tls.X509KeyPair(l.CertPEM, l.KeyPEM)
	if err != nil {
		panic(err)
	}
	return l
}

func (ca *CA) Pool() *x509.CertPool {
	p := x509.NewCertPool()
	p.AddCert(ca.Cert)
	return p
}

func ServerTLS(l *Leaf) *tls.Config {
	return &tls.Config{Certificates: []tls.Certificate{l.TLS}}
}
