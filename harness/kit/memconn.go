package vfkit

import (
	"errors"
	"io"
	"net"
	"os"
	"sync"
	"time"
)

// MemConn is the client end of an in-memory connection whose server side is driven step by step by
// the harness: the harness sees every Write the code under test makes, decides exactly when bytes
// become readable, and can wait until the reader is blocked again (quiescence).
//
// Datagram mode: every Deliver is one datagram (one Read returns at most one, truncating like UDP).
// Stream mode: delivered bytes are concatenated.
type MemConn struct {
	Datagram bool
	ID       int

	mu   sync.Mutex
	cond *sync.Cond

	// inbound (server -> client)
	stream   []byte
	dgrams   [][]byte
	srvClose bool  // server closed: EOF after buffered data
	srvErr   error // server reset: error immediately

	// outbound (client -> server)
	writes      [][]byte
	writeErr    error
	clientClose bool
	holdWrites  bool // a Write records its octets at once but returns only when the hold is lifted

	readDeadline  time.Time
	writeDeadline time.Time
	blockedReads  int
	reads         int // completed Read calls
	timer         *time.Timer
}

func NewMemConn(datagram bool, id int) *MemConn {
	c := &MemConn{Datagram: datagram, ID: id}
	c.cond = sync.NewCond(&c.mu)
	return c
}

type memAddr struct{ s string }

func (a memAddr) Network() string { return "mem" }
func (a memAddr) String() string  { return a.s }

func (c *MemConn) LocalAddr() net.Addr  { return memAddr{"client"} }
func (c *MemConn) RemoteAddr() net.Addr { return memAddr{"server"} }

func (c *MemConn) hasDataLocked() bool {
	if c.Datagram {
		return len(c.dgrams) > 0
	}
	return len(c.stream) > 0
}

func (c *MemConn) Read(p []byte) (int, error) {
	c.mu.Lock()
	defer c.mu.Unlock()
	for {
		if c.clientClose {
			return 0, net.ErrClosed
		}
		if c.srvErr != nil {
			return 0, c.srvErr
		}
		if c.hasDataLocked() {
			c.reads++
			if c.Datagram {
				d := c.dgrams[0]
				c.dgrams = c.dgrams[1:]
				n := copy(p, d)
				c.cond.Broadcast()
				return n, nil
			}
			n := copy(p, c.stream)
			c.stream = c.stream[n:]
			c.cond.Broadcast()
			return n, nil
		}
		if c.srvClose {
			return 0, io.EOF
		}
		if !c.readDeadline.IsZero() && !time.Now().Before(c.readDeadline) {
			return 0, os.ErrDeadlineExceeded
		}
		c.blockedReads++
		c.cond.Broadcast()
		c.cond.Wait()
		c.blockedReads--
	}
}

func (c *MemConn) Write(p []byte) (int, error) {
	c.mu.Lock()
	defer c.mu.Unlock()
	if c.clientClose {
		return 0, net.ErrClosed
	}
	if c.writeErr != nil {
		return 0, c.writeErr
	}
	if c.srvErr != nil {
		return 0, c.srvErr
	}
	if c.srvClose {
		return 0, errors.New("write: broken pipe")
	}
	c.writes = append(c.writes, append([]byte(nil), p...))
	c.cond.Broadcast()
	for c.holdWrites && !c.clientClose {
		c.cond.Wait()
	}
	return len(p), nil
}

// HoldWrites makes later Writes of the client block after their octets were recorded (the harness sees the query, the
// writer does not come back yet) until the hold is lifted: what the writer finds when it returns is up to the harness.
func (c *MemConn) HoldWrites(on bool) {
	c.mu.Lock()
	c.holdWrites = on
	c.cond.Broadcast()
	c.mu.Unlock()
}

func (c *MemConn) Close() error {
	c.mu.Lock()
	defer c.mu.Unlock()
	if c.clientClose {
		return net.ErrClosed
	}
	c.clientClose = true
	c.cond.Broadcast()
	return nil
}

func (c *MemConn) armTimerLocked() {
	if c.timer != nil {
		c.timer.Stop()
		c.timer = nil
	}
	if c.readDeadline.IsZero() {
		return
	}
	d := time.Until(c.readDeadline)
	if d < 0 {
		d = 0
	}
	c.timer = time.AfterFunc(d, func() {
		c.mu.Lock()
		c.cond.Broadcast()
		c.mu.Unlock()
	})
}

func (c *MemConn) SetDeadline(t time.Time) error {
	c.mu.Lock()
	defer c.mu.Unlock()
	if c.clientClose {
		return net.ErrClosed
	}
	c.readDeadline, c.writeDeadline = t, t
	c.armTimerLocked()
	c.cond.Broadcast()
	return nil
}

func (c *MemConn) SetReadDeadline(t time.Time) error {
	c.mu.Lock()
	defer c.mu.Unlock()
	if c.clientClose {
		return net.ErrClosed
	}
	c.readDeadline = t
	c.armTimerLocked()
	c.cond.Broadcast()
	return nil
}

func (c *MemConn) SetWriteDeadline(t time.Time) error {
	c.mu.Lock()
	defer c.mu.Unlock()
	if c.clientClose {
		return net.ErrClosed
	}
	c.writeDeadline = t
	return nil
}

// ---- server side (harness) ----

// Deliver makes b readable by the client.
func (c *MemConn) Deliver(b []byte) {
	c.mu.Lock()
	if c.Datagram {
		c.dgrams = append(c.dgrams, append([]byte(nil), b...))
	} else {
		c.stream = append(c.stream, b...)
	}
	c.cond.Broadcast()
	c.mu.Unlock()
}

// ServerClose ends the inbound direction (FIN) or resets the connection (err != nil).
func (c *MemConn) ServerClose(err error) {
	c.mu.Lock()
	if err != nil {
		c.srvErr = err
	} else {
		c.srvClose = true
	}
	c.cond.Broadcast()
	c.mu.Unlock()
}

// FailWrites makes later client writes fail.
func (c *MemConn) FailWrites(err error) {
	c.mu.Lock()
	c.writeErr = err
	c.mu.Unlock()
}

// Writes returns the writes made so far (stable prefix semantics: only grows).
func (c *MemConn) Writes() [][]byte {
	c.mu.Lock()
	defer c.mu.Unlock()
	return append([][]byte(nil), c.writes...)
}

// WritesSince returns the writes with index >= n.
func (c *MemConn) WritesSince(n int) [][]byte {
	c.mu.Lock()
	defer c.mu.Unlock()
	if n >= len(c.writes) {
		return nil
	}
	return append([][]byte(nil), c.writes[n:]...)
}

func (c *MemConn) NumWrites() int {
	c.mu.Lock()
	defer c.mu.Unlock()
	return len(c.writes)
}

func (c *MemConn) ClientClosed() bool {
	c.mu.Lock()
	defer c.mu.Unlock()
	return c.clientClose
}

func (c *MemConn) ServerClosed() bool {
	c.mu.Lock()
	defer c.mu.Unlock()
	return c.srvClose || c.srvErr != nil
}

// Drained reports whether everything delivered has been read by the client, or nobody will read it.
func (c *MemConn) Drained() bool {
	c.mu.Lock()
	defer c.mu.Unlock()
	return c.clientClose || !c.hasDataLocked()
}

// WaitQuiet waits until all delivered data has been consumed and the reader is blocked in Read again
// (or the connection is closed by the client). It returns false on timeout.
func (c *MemConn) WaitQuiet(timeout time.Duration) bool {
	deadline := time.Now().Add(timeout)
	c.mu.Lock()
	defer c.mu.Unlock()
	for {
		if c.clientClose || (!c.hasDataLocked() && (c.blockedReads > 0 || c.srvClose || c.srvErr != nil)) {
			return true
		}
		if time.Now().After(deadline) {
			return false
		}
		// cond has no timed wait: poll with a short unlock
		c.mu.Unlock()
		time.Sleep(50 * time.Microsecond)
		c.mu.Lock()
	}
}

// WaitWrites waits until at least n writes were made. It returns false on timeout.
func (c *MemConn) WaitWrites(n int, timeout time.Duration) bool {
	deadline := time.Now().Add(timeout)
	for {
		if c.NumWrites() >= n {
			return true
		}
		if time.Now().After(deadline) {
			return false
		}
		time.Sleep(50 * time.Microsecond)
	}
}
