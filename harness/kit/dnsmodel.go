package vfkit

import (
	"bytes"
	"encoding/binary"
	"errors"
	"fmt"
	"strings"
)

// ---------------------------------------------------------------------------------------
// Model

// Name is a list of labels (no root label). nil / empty is the root.
type Name [][]byte

// Wire returns the uncompressed wire form including the terminating zero octet.
func (n Name) Wire() []byte {
	b := make([]byte, 0, 64)
	for _, l := range n {
		b = append(b, byte(len(l)))
		b = append(b, l...)
	}
	return append(b, 0)
}

// WireNoRoot is the wire form without the terminating zero (what the repository keeps in memory).
func (n Name) WireNoRoot() []byte {
	w := n.Wire()
	return w[:len(w)-1]
}

func (n Name) Lower() Name {
	o := make(Name, len(n))
	for i, l := range n {
		o[i] = asciiOnlyLowerCopy(l)
	}
	return o
}

// asciiOnlyLowerCopy lowers A-Z only (bytes.ToLower rewrites invalid UTF-8 and must not be used).
func asciiOnlyLowerCopy(l []byte) []byte {
	c := make([]byte, len(l))
	for i, b := range l {
		if 'A' <= b && b <= 'Z' {
			b += 'a' - 'A'
		}
		c[i] = b
	}
	return c
}

func (n Name) Equal(o Name) bool {
	if len(n) != len(o) {
		return false
	}
	for i := range n {
		if !bytes.Equal(n[i], o[i]) {
			return false
		}
	}
	return true
}

func (n Name) EqualFold(o Name) bool { return n.Lower().Equal(o.Lower()) }

// String is a debugging form (\xHH escapes), not the DNS presentation format.
func (n Name) String() string {
	if len(n) == 0 {
		return "."
	}
	var sb strings.Builder
	for i, l := range n {
		if i > 0 {
			sb.WriteByte('.')
		}
		for _, c := range l {
			if c > 0x20 && c < 0x7f && c != '.' && c != '\\' {
				sb.WriteByte(c)
			} else {
				fmt.Fprintf(&sb, "\\x%02x", c)
			}
		}
	}
	return sb.String()
}

func (n Name) WireLen() int {
	l := 1
	for _, lab := range n {
		l += 1 + len(lab)
	}
	return l
}

// NameFromWire parses an uncompressed name (with or without terminating zero).
func NameFromWire(b []byte) (Name, error) {
	var n Name
	for off := 0; off < len(b); {
		l := int(b[off])
		if l == 0 {
			if off != len(b)-1 {
				return nil, errors.New("data after root label")
			}
			break
		}
		if l > 63 || off+1+l > len(b) {
			return nil, errors.New("bad label")
		}
		n = append(n, append([]byte(nil), b[off+1:off+1+l]...))
		off += 1 + l
	}
	return n, nil
}

// RDPart is a piece of RDATA: opaque octets or a domain name.
type RDPart struct {
	IsName bool
	Raw    []byte
	Name   Name
}

type RR struct {
	Owner Name
	Type  uint16
	Class uint16
	TTL   uint32
	RData []RDPart
}

// RDataWire is the canonical (uncompressed) RDATA.
func (r *RR) RDataWire() []byte {
	var b []byte
	for _, p := range r.RData {
		if p.IsName {
			b = append(b, p.Name.Wire()...)
		} else {
			b = append(b, p.Raw...)
		}
	}
	return b
}

// Canon is the canonical uncompressed wire form of the record.
func (r *RR) Canon() []byte {
	b := r.Owner.Wire()
	b = binary.BigEndian.AppendUint16(b, r.Type)
	b = binary.BigEndian.AppendUint16(b, r.Class)
	b = binary.BigEndian.AppendUint32(b, r.TTL)
	rd := r.RDataWire()
	b = binary.BigEndian.AppendUint16(b, uint16(len(rd)))
	return append(b, rd...)
}

func (r *RR) String() string {
	return fmt.Sprintf("{%s type=%d class=%d ttl=%d rdata=%x}", r.Owner, r.Type, r.Class, r.TTL, r.RDataWire())
}

type Question struct {
	Name  Name
	Type  uint16
	Class uint16
}

func (q *Question) String() string {
	return fmt.Sprintf("{%s type=%d class=%d}", q.Name, q.Type, q.Class)
}

const (
	BitQR = 1 << 15
	BitAA = 1 << 10
	BitTC = 1 << 9
	BitRD = 1 << 8
	BitRA = 1 << 7
	BitZ  = 1 << 6
	BitAD = 1 << 5
	BitCD = 1 << 4
)

type Msg struct {
	ID   uint16
	Bits uint16 // QR opcode(4) AA TC RD RA Z AD CD rcode(4)
	Q    []Question
	An   []RR
	Ns   []RR
	Ar   []RR
}

func (m *Msg) Opcode() int { return int(m.Bits>>11) & 0xF }
func (m *Msg) Rcode() int  { return int(m.Bits & 0xF) }
func (m *Msg) Has(bit uint16) bool {
	return m.Bits&bit != 0
}

func (m *Msg) Sections() [3][]RR { return [3][]RR{m.An, m.Ns, m.Ar} }

// Len is the uncompressed length.
func (m *Msg) Len() int {
	l := 12
	for _, q := range m.Q {
		l += q.Name.WireLen() + 4
	}
	for _, s := range m.Sections() {
		for i := range s {
			l += len(s[i].Canon())
		}
	}
	return l
}

func (m *Msg) String() string {
	var sb strings.Builder
	fmt.Fprintf(&sb, "id=%d bits=%04x q=%v", m.ID, m.Bits, m.Q)
	for i, s := range m.Sections() {
		fmt.Fprintf(&sb, " %s=[", [3]string{"an", "ns", "ar"}[i])
		for j := range s {
			sb.WriteString(s[j].String())
		}
		sb.WriteString("]")
	}
	return sb.String()
}

// Opt returns the first OPT record of the additional section, if any.
func (m *Msg) Opt() *RR {
	for i := range m.Ar {
		if m.Ar[i].Type == 41 {
			return &m.Ar[i]
		}
	}
	return nil
}

// ---------------------------------------------------------------------------------------
// RDATA layouts of the types the proxy interprets (names may be compressed on input).

type partKind struct {
	name bool
	n    int // octets for raw parts; <0 = rest
}

func rdLayout(typ uint16) []partKind {
	switch typ {
	case 1:
		return []partKind{{false, 4}}
	case 28:
		return []partKind{{false, 16}}
	case 2, 5, 12:
		return []partKind{{true, 0}}
	case 15:
		return []partKind{{false, 2}, {true, 0}}
	case 6:
		return []partKind{{true, 0}, {true, 0}, {false, 20}}
	case 33:
		return []partKind{{false, 6}, {true, 0}}
	}
	return nil // opaque
}

// ---------------------------------------------------------------------------------------
// Encoder

type EncOpts struct {
	// Compress decides, for every opportunity to emit a pointer, whether to do so.
	// nil means never.
	Compress func() bool
	// MaxPtrDepth bounds the pointer chain length a decoder has to follow (0 = 10).
	MaxPtrDepth int
	// HeaderCounts overrides the section counts when not nil (lying counts).
	HeaderCounts *[4]uint16
}

type tableEntry struct {
	off   int
	depth int
}

type encoder struct {
	b     []byte
	table map[string]tableEntry
	opts  EncOpts
	Ptrs  int
}

func (e *encoder) name(n Name, compressible bool) {
	maxDepth := e.opts.MaxPtrDepth
	if maxDepth == 0 {
		maxDepth = 10
	}
	type pending struct {
		key string
		off int
	}
	var pend []pending
	depth := 0
	done := false
	for i := range n {
		key := string(Name(n[i:]).Wire())
		if ent, ok := e.table[key]; ok && compressible && e.opts.Compress != nil &&
			ent.off < 0x4000 && ent.depth+1 <= maxDepth && e.opts.Compress() {
			e.b = append(e.b, 0xC0|byte(ent.off>>8), byte(ent.off))
			e.Ptrs++
			depth = ent.depth + 1
			done = true
			break
		}
		pend = append(pend, pending{key, len(e.b)})
		e.b = append(e.b, byte(len(n[i])))
		e.b = append(e.b, n[i]...)
	}
	if !done {
		e.b = append(e.b, 0)
	}
	for _, p := range pend {
		if _, ok := e.table[p.key]; !ok && p.off < 0x4000 {
			e.table[p.key] = tableEntry{p.off, depth}
		}
	}
}

func (e *encoder) rr(r *RR) {
	e.name(r.Owner, true)
	e.b = binary.BigEndian.AppendUint16(e.b, r.Type)
	e.b = binary.BigEndian.AppendUint16(e.b, r.Class)
	e.b = binary.BigEndian.AppendUint32(e.b, r.TTL)
	lenOff := len(e.b)
	e.b = append(e.b, 0, 0)
	known := rdLayout(r.Type) != nil
	for _, p := range r.RData {
		if p.IsName {
			e.name(p.Name, known)
		} else {
			e.b = append(e.b, p.Raw...)
		}
	}
	binary.BigEndian.PutUint16(e.b[lenOff:], uint16(len(e.b)-lenOff-2))
}

// Encode produces wire data for m. It returns the data and the number of pointers emitted.
func Encode(m *Msg, opts EncOpts) ([]byte, int) {
	e := &encoder{table: map[string]tableEntry{}, opts: opts}
	e.b = make([]byte, 12, 512)
	binary.BigEndian.PutUint16(e.b[0:], m.ID)
	binary.BigEndian.PutUint16(e.b[2:], m.Bits)
	counts := [4]uint16{uint16(len(m.Q)), uint16(len(m.An)), uint16(len(m.Ns)), uint16(len(m.Ar))}
	if opts.HeaderCounts != nil {
		counts = *opts.HeaderCounts
	}
	for i, c := range counts {
		binary.BigEndian.PutUint16(e.b[4+2*i:], c)
	}
	for i := range m.Q {
		e.name(m.Q[i].Name, true)
		e.b = binary.BigEndian.AppendUint16(e.b, m.Q[i].Type)
		e.b = binary.BigEndian.AppendUint16(e.b, m.Q[i].Class)
	}
	for _, s := range m.Sections() {
		for i := range s {
			e.rr(&s[i])
		}
	}
	return e.b, e.Ptrs
}

// ---------------------------------------------------------------------------------------
// Tolerant decoder

type Pointer struct {
	At     int
	Target int
}

type Decoded struct {
	Msg
	Counts   [4]int // what the header claims
	Present  [4]int // what could actually be parsed
	Trailing int    // bytes after the last parsed record (when all claimed records were parsed)
	Err      error  // first parse error (nil when every claimed record was parsed)
	Pointers []Pointer
	// RROffsets[s][i] is the offset at which record i of section s (0=an) starts.
	RROffsets [3][]int
	// RDLenOffsets lists the offsets of the RDLENGTH fields of all parsed records; NameOffsets the
	// offsets at which owner/question names start.
	RDLenOffsets []int
	NameOffsets  []int
}

// Clean reports whether the data is exactly a well-formed message.
func (d *Decoded) Clean() bool {
	return d.Err == nil && d.Trailing == 0 && d.Counts == d.Present
}

var (
	errShort    = errors.New("short data")
	errPtrLoop  = errors.New("too many pointers")
	errLabel    = errors.New("reserved label type")
	errNameLong = errors.New("name too long")
)

// decodeName reads a possibly compressed name at off. It returns the offset after the name
// in the record stream. Pointers encountered directly in the stream are reported.
func decodeName(b []byte, off int, ptrs *[]Pointer) (Name, int, error) {
	var n Name
	next := -1
	hops := 0
	total := 1
	for {
		if off >= len(b) {
			return nil, 0, errShort
		}
		c := int(b[off])
		switch c & 0xC0 {
		case 0x00:
			if c == 0 {
				if next < 0 {
					next = off + 1
				}
				return n, next, nil
			}
			if off+1+c > len(b) {
				return nil, 0, errShort
			}
			total += 1 + c
			if total > 255 {
				return nil, 0, errNameLong
			}
			n = append(n, append([]byte(nil), b[off+1:off+1+c]...))
			off += 1 + c
		case 0xC0:
			if off+1 >= len(b) {
				return nil, 0, errShort
			}
			target := (c&0x3F)<<8 | int(b[off+1])
			if next < 0 {
				next = off + 2
			}
			if ptrs != nil {
				*ptrs = append(*ptrs, Pointer{At: off, Target: target})
			}
			hops++
			if hops > 127 {
				return nil, 0, errPtrLoop
			}
			off = target
		default:
			return nil, 0, errLabel
		}
	}
}

func decodeRR(b []byte, off int, ptrs *[]Pointer) (RR, int, error) {
	r, end, _, err := decodeRR2(b, off, ptrs)
	return r, end, err
}

func decodeRR2(b []byte, off int, ptrs *[]Pointer) (RR, int, int, error) {
	r, end, rdl, err := decodeRR3(b, off, ptrs)
	return r, end, rdl, err
}

func decodeRR3(b []byte, off int, ptrs *[]Pointer) (r RR, _ int, rdlenOff int, err error) {
	r.Owner, off, err = decodeName(b, off, ptrs)
	if err != nil {
		return r, 0, 0, err
	}
	if off+10 > len(b) {
		return r, 0, 0, errShort
	}
	rdlenOff = off + 8
	rr, end, err := decodeRRBody(b, off, r, ptrs)
	return rr, end, rdlenOff, err
}

func decodeRRBody(b []byte, off int, r RR, ptrs *[]Pointer) (RR, int, error) {
	var err error
	r.Type = binary.BigEndian.Uint16(b[off:])
	r.Class = binary.BigEndian.Uint16(b[off+2:])
	r.TTL = binary.BigEndian.Uint32(b[off+4:])
	rdlen := int(binary.BigEndian.Uint16(b[off+8:]))
	off += 10
	if off+rdlen > len(b) {
		return r, 0, errShort
	}
	end := off + rdlen
	layout := rdLayout(r.Type)
	if layout == nil {
		r.RData = []RDPart{{Raw: append([]byte(nil), b[off:end]...)}}
		return r, end, nil
	}
	for _, p := range layout {
		if p.name {
			var n Name
			// The name may point anywhere in the message but its in-stream part must end within RDATA.
			n, off, err = decodeName(b, off, ptrs)
			if err != nil {
				return r, 0, err
			}
			if off > end {
				return r, 0, errors.New("name exceeds rdata")
			}
			r.RData = append(r.RData, RDPart{IsName: true, Name: n})
		} else {
			if off+p.n > end {
				return r, 0, errors.New("rdata too short")
			}
			r.RData = append(r.RData, RDPart{Raw: append([]byte(nil), b[off:off+p.n]...)})
			off += p.n
		}
	}
	if off != end {
		return r, 0, errors.New("rdata length mismatch")
	}
	return r, end, nil
}

// Decode parses as much of b as possible.
func Decode(b []byte) *Decoded {
	d := &Decoded{}
	if len(b) < 12 {
		d.Err = errShort
		return d
	}
	d.ID = binary.BigEndian.Uint16(b[0:])
	d.Bits = binary.BigEndian.Uint16(b[2:])
	for i := 0; i < 4; i++ {
		d.Counts[i] = int(binary.BigEndian.Uint16(b[4+2*i:]))
	}
	off := 12
	for i := 0; i < d.Counts[0]; i++ {
		n, o, err := decodeName(b, off, &d.Pointers)
		if err != nil {
			d.Err = fmt.Errorf("question %d: %w", i, err)
			return d
		}
		d.NameOffsets = append(d.NameOffsets, off)
		if o+4 > len(b) {
			d.Err = fmt.Errorf("question %d: %w", i, errShort)
			return d
		}
		d.Q = append(d.Q, Question{Name: n, Type: binary.BigEndian.Uint16(b[o:]), Class: binary.BigEndian.Uint16(b[o+2:])})
		off = o + 4
		d.Present[0]++
	}
	secs := [3]*[]RR{&d.An, &d.Ns, &d.Ar}
	for s := 0; s < 3; s++ {
		for i := 0; i < d.Counts[s+1]; i++ {
			r, o, rdl, err := decodeRR2(b, off, &d.Pointers)
			if err != nil {
				d.Err = fmt.Errorf("section %d record %d at %d: %w", s, i, off, err)
				return d
			}
			d.RROffsets[s] = append(d.RROffsets[s], off)
			d.NameOffsets = append(d.NameOffsets, off)
			d.RDLenOffsets = append(d.RDLenOffsets, rdl)
			*secs[s] = append(*secs[s], r)
			off = o
			d.Present[s+1]++
		}
	}
	d.Trailing = len(b) - off
	return d
}

// DecodeOneRR parses a single uncompressed record (as produced by other libraries).
func DecodeOneRR(b []byte) (RR, error) {
	r, off, err := decodeRR(b, 0, nil)
	if err != nil {
		return r, err
	}
	if off != len(b) {
		return r, errors.New("trailing data after record")
	}
	return r, nil
}

// ---------------------------------------------------------------------------------------
// Comparison

// HeaderMask is the set of header bits the proxy's codec represents (everything but Z).
const HeaderMask = uint16(0xFFFF &^ BitZ)

// DiffRRs compares two record lists octet-exactly and in order.
func DiffRRs(sec string, a, b []RR) string {
	if len(a) != len(b) {
		return fmt.Sprintf("%s: %d records vs %d", sec, len(a), len(b))
	}
	for i := range a {
		if !bytes.Equal(a[i].Canon(), b[i].Canon()) {
			return fmt.Sprintf("%s[%d]: %s vs %s", sec, i, a[i].String(), b[i].String())
		}
	}
	return ""
}

func DiffQuestions(a, b []Question) string {
	if len(a) != len(b) {
		return fmt.Sprintf("questions: %d vs %d", len(a), len(b))
	}
	for i := range a {
		if !a[i].Name.Equal(b[i].Name) || a[i].Type != b[i].Type || a[i].Class != b[i].Class {
			return fmt.Sprintf("question[%d]: %s vs %s", i, a[i].String(), b[i].String())
		}
	}
	return ""
}

// Diff compares two messages (header bits under mask). Empty string = equal.
func Diff(a, b *Msg, mask uint16) string {
	if a.ID != b.ID {
		return fmt.Sprintf("id %d vs %d", a.ID, b.ID)
	}
	if a.Bits&mask != b.Bits&mask {
		return fmt.Sprintf("header bits %04x vs %04x (mask %04x)", a.Bits, b.Bits, mask)
	}
	if d := DiffQuestions(a.Q, b.Q); d != "" {
		return d
	}
	as, bs := a.Sections(), b.Sections()
	for i, n := range []string{"answers", "authorities", "additionals"} {
		if d := DiffRRs(n, as[i], bs[i]); d != "" {
			return d
		}
	}
	return ""
}

// CloneRRs deep-copies records.
func CloneRRs(rs []RR) []RR {
	out := make([]RR, len(rs))
	for i, r := range rs {
		c, err := DecodeOneRR(r.Canon())
		if err != nil {
			panic("vfkit: clone of model record failed: " + err.Error())
		}
		out[i] = c
	}
	return out
}
