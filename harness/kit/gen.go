package vfkit

import (
	"bytes"
	"encoding/binary"

	"pgregory.net/rapid"
)

// ---------------------------------------------------------------------------------------
// Labels and names

var ldhWords = []string{"com", "example", "www", "a", "b", "net", "org", "mail", "ns1", "x-1", "0", "google", "abc", "de"}

// adversarialOctets are octets the code treats specially somewhere (escaping, file syntax, padding).
var adversarialOctets = []byte{0x00, 0x01, 0x1f, ' ', '.', '\\', ':', '#', '"', '*', '_', 0x7f, 0x80, 0xc0, 0xff, '3', 'A', 'Z'}

// GenLabel draws one label of 1..63 arbitrary octets, biased to the interesting classes.
func GenLabel(t *rapid.T) []byte {
	switch rapid.IntRange(0, 11).Draw(t, "labelKind") {
	case 0, 1, 2, 3:
		return []byte(rapid.SampledFrom(ldhWords).Draw(t, "word"))
	case 4: // upper/mixed case variant of a word
		w := []byte(rapid.SampledFrom(ldhWords).Draw(t, "word"))
		mask := rapid.Uint32().Draw(t, "caseMask")
		for i := range w {
			if mask&(1<<uint(i%32)) != 0 && 'a' <= w[i] && w[i] <= 'z' {
				w[i] -= 'a' - 'A'
			}
		}
		return w
	case 5: // word with adversarial octet(s)
		w := []byte(rapid.SampledFrom(ldhWords).Draw(t, "word"))
		n := rapid.IntRange(1, 2).Draw(t, "nAdv")
		for i := 0; i < n; i++ {
			pos := rapid.IntRange(0, len(w)).Draw(t, "advPos")
			o := rapid.SampledFrom(adversarialOctets).Draw(t, "advOctet")
			w = append(w[:pos], append([]byte{o}, w[pos:]...)...)
		}
		return w
	case 6: // trailing NULs (zero padded map keys)
		w := []byte(rapid.SampledFrom(ldhWords).Draw(t, "word"))
		for i := rapid.IntRange(1, 2).Draw(t, "nNul"); i > 0; i-- {
			w = append(w, 0)
		}
		return w
	case 7: // content that looks like a length-prefixed tail: "abc\x03com"
		a := []byte(rapid.SampledFrom(ldhWords).Draw(t, "word"))
		b := []byte(rapid.SampledFrom(ldhWords).Draw(t, "word2"))
		w := append(append(a, byte(len(b))), b...)
		return w
	case 8: // boundary lengths
		l := rapid.SampledFrom([]int{23, 24, 25, 62, 63}).Draw(t, "boundaryLen")
		c := rapid.SampledFrom([]byte{'a', 'b', 'Z', 0, 0xff}).Draw(t, "fill")
		w := bytes.Repeat([]byte{c}, l)
		w[0] = 'k'
		return w
	case 9: // digits (bare decimal escapes look like this)
		return []byte(rapid.SampledFrom([]string{"1", "01", "001", "255", "a1", "a001"}).Draw(t, "digits"))
	default: // arbitrary octets
		return rapid.SliceOfN(rapid.Byte(), 1, 20).Draw(t, "rawLabel")
	}
}

// LabelPool is a small per-case pool so that suffixes repeat.
type LabelPool [][]byte

func GenLabelPool(t *rapid.T, n int) LabelPool {
	p := make(LabelPool, 0, n)
	for i := 0; i < n; i++ {
		p = append(p, GenLabel(t))
	}
	return p
}

func truncateName(n Name) Name {
	for n.WireLen() > 255 {
		n = n[1:]
	}
	return n
}

// GenNameFrom draws a name of 0..maxLabels labels out of the pool.
func GenNameFrom(t *rapid.T, p LabelPool, maxLabels int) Name {
	k := rapid.IntRange(0, maxLabels).Draw(t, "nLabels")
	n := make(Name, 0, k)
	for i := 0; i < k; i++ {
		n = append(n, p[rapid.IntRange(0, len(p)-1).Draw(t, "labelIdx")])
	}
	return truncateName(n)
}

// NameSet is a per-case family of related names (parents, children, siblings).
type NameSet []Name

func GenNameSet(t *rapid.T, p LabelPool, n int) NameSet {
	s := NameSet{GenNameFrom(t, p, 3)}
	for len(s) < n {
		base := s[rapid.IntRange(0, len(s)-1).Draw(t, "baseIdx")]
		switch rapid.IntRange(0, 6).Draw(t, "derive") {
		case 0, 1: // child
			c := append(Name{p[rapid.IntRange(0, len(p)-1).Draw(t, "l")]}, base...)
			s = append(s, truncateName(c))
		case 2: // parent
			if len(base) > 0 {
				s = append(s, base[1:])
			} else {
				s = append(s, GenNameFrom(t, p, 3))
			}
		case 3: // sibling
			if len(base) > 0 {
				c := append(Name{p[rapid.IntRange(0, len(p)-1).Draw(t, "l")]}, base[1:]...)
				s = append(s, c)
			} else {
				s = append(s, GenNameFrom(t, p, 2))
			}
		case 4: // maximal-length name
			var c Name
			for c.WireLen() < 250 {
				l := p[rapid.IntRange(0, len(p)-1).Draw(t, "l")]
				if c.WireLen()+1+len(l) > 255 {
					rest := 255 - c.WireLen() - 1
					if rest < 1 {
						break
					}
					l = bytes.Repeat([]byte{'m'}, rest)
				}
				c = append(c, l)
			}
			s = append(s, c)
		case 5: // two labels merged into one (label boundary confusion)
			if len(base) >= 2 && len(base[0])+1+len(base[1]) <= 63 {
				merged := append(append(append([]byte{}, base[0]...), byte(len(base[1]))), base[1]...)
				s = append(s, append(Name{merged}, base[2:]...))
			} else {
				s = append(s, GenNameFrom(t, p, 4))
			}
		default:
			s = append(s, GenNameFrom(t, p, 5))
		}
	}
	for i := range s {
		s[i] = truncateName(s[i])
	}
	return s
}

func (s NameSet) Pick(t *rapid.T) Name { return s[rapid.IntRange(0, len(s)-1).Draw(t, "nameIdx")] }

// ---------------------------------------------------------------------------------------
// Records

var (
	ttlSpecials   = []uint32{0, 1, 2, 29, 30, 31, 300, 3600, 1<<31 - 1, 1 << 31, 1<<32 - 1}
	knownTypes    = []uint16{1, 28, 2, 5, 12, 15, 6, 33}
	opaqueTypes   = []uint16{16, 65280, 65281, 65534, 32769, 4000} // TXT + private use / unassigned
	classSpecials = []uint16{1, 1, 1, 1, 3, 4, 255, 254, 0, 65535}
)

func GenTTL(t *rapid.T) uint32 {
	if rapid.Bool().Draw(t, "ttlSpecial") {
		return rapid.SampledFrom(ttlSpecials).Draw(t, "ttl")
	}
	return rapid.Uint32().Draw(t, "ttl")
}

func GenClass(t *rapid.T) uint16 {
	if rapid.IntRange(0, 9).Draw(t, "classKind") < 8 {
		return rapid.SampledFrom(classSpecials).Draw(t, "class")
	}
	return rapid.Uint16().Draw(t, "class")
}

func rawN(t *rapid.T, n int, label string) []byte {
	return rapid.SliceOfN(rapid.Byte(), n, n).Draw(t, label)
}

// GenTXTRData draws valid character-strings.
func GenTXTRData(t *rapid.T) []byte {
	var b []byte
	for i := rapid.IntRange(1, 3).Draw(t, "nStrings"); i > 0; i-- {
		s := rapid.SliceOfN(rapid.Byte(), 0, 40).Draw(t, "txt")
		b = append(b, byte(len(s)))
		b = append(b, s...)
	}
	return b
}

// GenRDataFor draws RDATA for a given type.
func GenRDataFor(t *rapid.T, typ uint16, names NameSet) []RDPart {
	switch typ {
	case 1:
		return []RDPart{{Raw: rawN(t, 4, "a")}}
	case 28:
		return []RDPart{{Raw: rawN(t, 16, "aaaa")}}
	case 2, 5, 12:
		return []RDPart{{IsName: true, Name: names.Pick(t)}}
	case 15:
		return []RDPart{{Raw: rawN(t, 2, "pref")}, {IsName: true, Name: names.Pick(t)}}
	case 6:
		return []RDPart{{IsName: true, Name: names.Pick(t)}, {IsName: true, Name: names.Pick(t)}, {Raw: rawN(t, 20, "soa")}}
	case 33:
		return []RDPart{{Raw: rawN(t, 6, "srv")}, {IsName: true, Name: names.Pick(t)}}
	case 16:
		return []RDPart{{Raw: GenTXTRData(t)}}
	default:
		if rapid.IntRange(0, 3).Draw(t, "emptyRdata") == 0 {
			return []RDPart{{Raw: []byte{}}}
		}
		return []RDPart{{Raw: rapid.SliceOfN(rapid.Byte(), 1, 64).Draw(t, "opaque")}}
	}
}

// GenRR draws a non-OPT record.
func GenRR(t *rapid.T, names NameSet) RR {
	var typ uint16
	if rapid.IntRange(0, 3).Draw(t, "opaqueType") == 0 {
		typ = rapid.SampledFrom(opaqueTypes).Draw(t, "type")
	} else {
		typ = rapid.SampledFrom(knownTypes).Draw(t, "type")
	}
	return RR{Owner: names.Pick(t), Type: typ, Class: GenClass(t), TTL: GenTTL(t), RData: GenRDataFor(t, typ, names)}
}

// EDNS option builders.
func EDNSOption(code uint16, data []byte) []byte {
	b := binary.BigEndian.AppendUint16(nil, code)
	b = binary.BigEndian.AppendUint16(b, uint16(len(data)))
	return append(b, data...)
}

// GenOptions draws a list of EDNS options (cookie, ECS, padding, NSID, unknown codes).
func GenOptions(t *rapid.T, max int) []byte {
	var b []byte
	for i := rapid.IntRange(0, max).Draw(t, "nOptions"); i > 0; i-- {
		switch rapid.IntRange(0, 4).Draw(t, "optKind") {
		case 0:
			b = append(b, EDNSOption(10, rawN(t, 8, "cookie"))...)
		case 1: // ECS
			fam := rapid.SampledFrom([]uint16{1, 2}).Draw(t, "ecsFamily")
			var plen, alen int
			if fam == 1 {
				plen = rapid.IntRange(0, 32).Draw(t, "ecsPrefix")
			} else {
				plen = rapid.IntRange(0, 128).Draw(t, "ecsPrefix")
			}
			alen = (plen + 7) / 8
			d := binary.BigEndian.AppendUint16(nil, fam)
			d = append(d, byte(plen), byte(rapid.IntRange(0, plen).Draw(t, "ecsScope")))
			d = append(d, rawN(t, alen, "ecsAddr")...)
			b = append(b, EDNSOption(8, d)...)
		case 2:
			b = append(b, EDNSOption(12, make([]byte, rapid.IntRange(0, 24).Draw(t, "padLen")))...)
		case 3:
			b = append(b, EDNSOption(3, rapid.SliceOfN(rapid.Byte(), 0, 12).Draw(t, "nsid"))...)
		default:
			b = append(b, EDNSOption(rapid.Uint16Range(65001, 65534).Draw(t, "optCode"), rapid.SliceOfN(rapid.Byte(), 0, 16).Draw(t, "optData"))...)
		}
	}
	return b
}

// GenOPT draws an OPT pseudo record.
func GenOPT(t *rapid.T, maxOptions int) RR {
	size := rapid.SampledFrom([]uint16{0, 300, 512, 513, 1200, 1232, 4096, 65535}).Draw(t, "udpSize")
	var ttl uint32
	if rapid.Bool().Draw(t, "optFlags") {
		ttl = rapid.SampledFrom([]uint32{0x8000, 0x01000000, 0x00010000, 0xffffffff}).Draw(t, "optTTL")
	}
	return RR{Owner: nil, Type: 41, Class: size, TTL: ttl, RData: []RDPart{{Raw: GenOptions(t, maxOptions)}}}
}

// ---------------------------------------------------------------------------------------
// Messages

type MsgCfg struct {
	MaxQuestions int
	MaxRRs       int // per section
	OPT          bool
	PoolSize     int
	NameSetSize  int
}

func GenHeaderBits(t *rapid.T) uint16 {
	if rapid.IntRange(0, 3).Draw(t, "plainHdr") == 0 {
		return rapid.SampledFrom([]uint16{0x0100, 0x8180, 0x8183, 0x0000, 0x8580}).Draw(t, "bits")
	}
	return rapid.Uint16().Draw(t, "bits")
}

// GenMsg draws an arbitrary well-formed message.
func GenMsg(t *rapid.T, cfg MsgCfg) *Msg {
	if cfg.PoolSize == 0 {
		cfg.PoolSize = 5
	}
	if cfg.NameSetSize == 0 {
		cfg.NameSetSize = 5
	}
	pool := GenLabelPool(t, cfg.PoolSize)
	names := GenNameSet(t, pool, cfg.NameSetSize)
	m := &Msg{ID: rapid.Uint16().Draw(t, "id"), Bits: GenHeaderBits(t)}
	for i := rapid.IntRange(0, cfg.MaxQuestions).Draw(t, "nQ"); i > 0; i-- {
		m.Q = append(m.Q, Question{Name: names.Pick(t), Type: rapid.SampledFrom([]uint16{1, 28, 15, 255, 16, 65280, 6}).Draw(t, "qtype"), Class: GenClass(t)})
	}
	secs := [3]*[]RR{&m.An, &m.Ns, &m.Ar}
	for s := 0; s < 3; s++ {
		for i := rapid.IntRange(0, cfg.MaxRRs).Draw(t, "nRR"); i > 0; i-- {
			*secs[s] = append(*secs[s], GenRR(t, names))
		}
	}
	if cfg.OPT && rapid.Bool().Draw(t, "hasOPT") {
		pos := rapid.IntRange(0, len(m.Ar)).Draw(t, "optPos")
		opt := GenOPT(t, 3)
		m.Ar = append(m.Ar[:pos], append([]RR{opt}, m.Ar[pos:]...)...)
	}
	return m
}

// GenCompressTape returns a Compress decision function driven by a drawn tape.
func GenCompressTape(t *rapid.T) func() bool {
	switch rapid.IntRange(0, 3).Draw(t, "compressMode") {
	case 0:
		return nil
	case 1:
		return func() bool { return true }
	default:
		tape := rapid.SliceOfN(rapid.Byte(), 1, 16).Draw(t, "tape")
		i := 0
		return func() bool {
			bit := tape[(i/8)%len(tape)]>>(uint(i)%8)&1 == 1
			i++
			return bit
		}
	}
}
