package vfkit

import (
	"bytes"
	"encoding/binary"

	"pgregory.net/rapid"
)

// HostileConstants are hand-written inputs aimed at the decoder's special cases. They double as
// the seed corpus of the native fuzz targets.
func HostileConstants() [][]byte {
	hdr := func(q, an, ns, ar uint16) []byte {
		b := make([]byte, 12)
		b[2] = 0x01
		binary.BigEndian.PutUint16(b[4:], q)
		binary.BigEndian.PutUint16(b[6:], an)
		binary.BigEndian.PutUint16(b[8:], ns)
		binary.BigEndian.PutUint16(b[10:], ar)
		return b
	}
	cat := func(parts ...[]byte) []byte { return bytes.Join(parts, nil) }
	qtail := []byte{0, 1, 0, 1}
	var out [][]byte
	out = append(out,
		nil,
		[]byte{0},
		make([]byte, 11),
		hdr(0, 0, 0, 0),
		hdr(0xFFFF, 0xFFFF, 0xFFFF, 0xFFFF),
		hdr(1, 0, 0, 0),
		cat(hdr(1, 0, 0, 0), []byte{0xC0, 0x0C}, qtail),                                                                                                                                // pointer to self
		cat(hdr(1, 0, 0, 0), []byte{0xC0, 0x0E, 0xC0, 0x0C}, qtail),                                                                                                                    // two-cycle
		cat([]byte{0xC0, 0x00, 0x01, 0x00, 0, 1, 0, 0, 0, 0, 0, 0}, []byte{0xC0, 0x00}, qtail),                                                                                         // question name -> the ID, which is a pointer to itself
		cat([]byte{0x12, 0x34, 0x01, 0x00, 0, 1, 0, 0, 0, 0, 0xC0, 0x0A}, []byte{0xC0, 0x0A}, qtail),                                                                                   // question name -> ARCOUNT, a self pointer
		cat([]byte{0xC0, 0x02, 0xC0, 0x00, 0, 1, 0, 0, 0, 0, 0, 0}, []byte{0xC0, 0x00}, qtail),                                                                                         // two-cycle inside the header
		cat(hdr(1, 1, 0, 0), []byte{1, 'a', 0}, qtail, []byte{0xC0, 0x0C, 0, 16, 0, 1, 0, 0, 0, 9, 0, 3, 2, 0xC0, 0x1D}, []byte{0xC0, 0x1D, 0, 1, 0, 1, 0, 0, 0, 9, 0, 4, 1, 2, 3, 4}), // a later owner -> a self pointer inside TXT rdata
		cat(hdr(1, 0, 0, 0), []byte{0xC0, 0xFF}, qtail),                                                                                                                                // pointer past the end
		cat(hdr(1, 0, 0, 0), []byte{0xC0, 0x12}, qtail, []byte{1, 'a', 0}),                                                                                                             // forward pointer
		cat(hdr(1, 0, 0, 0), []byte{0x40, 'a', 0}, qtail),                                                                                                                              // reserved 0x40
		cat(hdr(1, 0, 0, 0), []byte{0x80, 'a', 0}, qtail),                                                                                                                              // reserved 0x80
		cat(hdr(1, 0, 0, 0), []byte{63}, bytes.Repeat([]byte{'a'}, 10)),                                                                                                                // label longer than data
		cat(hdr(1, 0, 0, 0), []byte{1, 'a'}),                                                                                                                                           // no terminator
		cat(hdr(0, 1, 0, 0), []byte{0, 0, 1, 0, 1, 0, 0, 0, 0, 0xFF, 0xFF}),                                                                                                            // rdlength lies
		cat(hdr(0, 1, 0, 0), []byte{0, 0, 1, 0, 1, 0, 0, 0, 0, 0, 3, 1, 2, 3}),                                                                                                         // A with 3 octets
		cat(hdr(0, 1, 0, 0), []byte{0, 0, 2, 0, 1, 0, 0, 0, 0, 0, 1, 0, 0}),                                                                                                            // NS rdlength 1 + trailing
		cat(hdr(0, 1, 0, 0), []byte{0, 0, 6, 0, 1, 0, 0, 0, 0, 0, 2, 0, 0}),                                                                                                            // SOA too short
	)
	// pointer chains of 9..12 hops ending in a real name
	for hops := 9; hops <= 12; hops++ {
		b := hdr(1, 0, 0, 0)
		// question name = pointer to chain start placed after the question
		chainStart := 12 + 2 + 4
		b = append(b, 0xC0, byte(chainStart))
		b = append(b, qtail...)
		for i := 0; i < hops-1; i++ {
			next := chainStart + 2*(i+1)
			b = append(b, 0xC0, byte(next))
		}
		b = append(b, 1, 'a', 0)
		out = append(out, b)
	}
	// a name of more than 255 octets assembled through pointers: 5 blocks of 63-octet labels
	{
		b := hdr(1, 0, 0, 0)
		b = append(b, 0xC0, 18)
		b = append(b, qtail...)
		// at 18: label(63) + pointer to 18 (loop that grows the name) -> must stop by length or hop limit
		b = append(b, 63)
		b = append(b, bytes.Repeat([]byte{'x'}, 63)...)
		b = append(b, 0xC0, 18)
		out = append(out, b)
	}
	// exactly 255 / 256 octets of name
	for _, total := range []int{254, 255, 256} {
		b := hdr(1, 0, 0, 0)
		left := total - 1
		for left > 0 {
			l := 63
			if left-1 < l {
				l = left - 1
			}
			if l <= 0 {
				break
			}
			b = append(b, byte(l))
			b = append(b, bytes.Repeat([]byte{'y'}, l)...)
			left -= l + 1
		}
		b = append(b, 0)
		b = append(b, qtail...)
		out = append(out, b)
	}
	return out
}

// GenHostile draws a hostile byte string and a class label.
func GenHostile(t *rapid.T) ([]byte, string) {
	kind := rapid.IntRange(0, 16).Draw(t, "hostileKind")
	if kind == 16 {
		// a well-formed query (RDLENGTH right) whose OPT carries an option list that lies: an option header that
		// declares more octets than follow, half an option header, a known option code (ECS, cookie, padding, keepalive)
		// with too short a body
		code := rapid.SampledFrom([]uint16{8, 8, 8, 10, 11, 12, 3, 65001}).Draw(t, "optionCode")
		declared := rapid.SampledFrom([]uint16{1, 2, 3, 4, 5, 8, 11, 255, 0xFFFF}).Draw(t, "declaredLength")
		present := rapid.SliceOfN(rapid.Byte(), 0, 6).Draw(t, "presentOctets")
		rd := []byte{byte(code >> 8), byte(code), byte(declared >> 8), byte(declared)}
		rd = append(rd, present...)
		switch rapid.IntRange(0, 3).Draw(t, "listShape") {
		case 1: // a proper option in front
			rd = append([]byte{0, 10, 0, 8, 1, 2, 3, 4, 5, 6, 7, 8}, rd...)
		case 2: // only part of an option header
			rd = rd[:rapid.IntRange(1, 3).Draw(t, "headerOctets")]
		}
		m := &Msg{ID: rapid.Uint16().Draw(t, "id"), Bits: BitRD, Q: []Question{{Name: Name{[]byte("optlie"), []byte("test")}, Type: 1, Class: 1}},
			Ar: []RR{{Type: 41, Class: 1232, RData: []RDPart{{Raw: rd}}}}}
		w, _ := Encode(m, EncOpts{})
		return w, "opt-option-lie"
	}
	if kind == 15 {
		// not hostile by its form: a well-formed query whose name is as long as a name can be and consists of octets
		// that are awkward to print (every path that renders or logs the name sees its longest text form)
		oc := rapid.SampledFrom([]byte{0xFF, 0x00, '.', '\\', 0x7F, ' ', 'z'}).Draw(t, "octet")
		var name Name
		for left := rapid.IntRange(180, 254).Draw(t, "nameOctets"); left > 1; {
			l := left - 1
			if l > 63 {
				l = 63
			}
			if !rapid.Bool().Draw(t, "maxLabel") {
				l = rapid.IntRange(1, l).Draw(t, "labelLen")
			}
			lb := make([]byte, l)
			for i := range lb {
				lb[i] = oc
				if rapid.IntRange(0, 15).Draw(t, "other") == 0 {
					lb[i] = rapid.Byte().Draw(t, "v")
				}
			}
			name = append(name, lb)
			left -= l + 1
		}
		m := &Msg{ID: rapid.Uint16().Draw(t, "id"), Bits: BitRD, Q: []Question{{Name: name, Type: 1, Class: 1}}}
		w, _ := Encode(m, EncOpts{})
		return w, "valid-extreme-name"
	}
	if kind == 0 {
		return rapid.SliceOfN(rapid.Byte(), 0, 600).Draw(t, "random"), "random"
	}
	if kind == 1 {
		c := HostileConstants()
		return append([]byte(nil), c[rapid.IntRange(0, len(c)-1).Draw(t, "constIdx")]...), "constant"
	}
	m := GenMsg(t, MsgCfg{MaxQuestions: 2, MaxRRs: 3, OPT: true, PoolSize: 3, NameSetSize: 3})
	w, _ := Encode(m, EncOpts{Compress: GenCompressTape(t)})
	d := Decode(w)
	pickOff := func(offs []int, label string) int {
		if len(offs) == 0 {
			return rapid.IntRange(0, len(w)-1).Draw(t, label)
		}
		return offs[rapid.IntRange(0, len(offs)-1).Draw(t, label)]
	}
	switch kind {
	case 2:
		return w, "valid"
	case 3: // truncate anywhere
		return w[:rapid.IntRange(0, len(w)).Draw(t, "cut")], "truncated"
	case 4: // count lies
		i := rapid.IntRange(0, 3).Draw(t, "countIdx")
		v := rapid.SampledFrom([]uint16{0, 1, 2, 255, 0xFFFF}).Draw(t, "countVal")
		binary.BigEndian.PutUint16(w[4+2*i:], v)
		return w, "count-lie"
	case 5: // rdlength lies
		if len(d.RDLenOffsets) == 0 {
			return w, "valid"
		}
		o := pickOff(d.RDLenOffsets, "rdlenOff")
		cur := binary.BigEndian.Uint16(w[o:])
		v := rapid.SampledFrom([]uint16{0, cur + 1, cur - 1, 0xFFFF, cur + 2}).Draw(t, "rdlen")
		binary.BigEndian.PutUint16(w[o:], v)
		return w, "rdlength-lie"
	case 6: // label length / prefix games at a name start
		o := pickOff(d.NameOffsets, "nameOff")
		if o < len(w) {
			w[o] = rapid.SampledFrom([]byte{0x40, 0x80, 0xC0, 0xFF, 64, 63, 0}).Draw(t, "lenOctet")
		}
		return w, "label-lie"
	case 7: // overwrite a name with a pointer to a drawn target (self, forward, past the end, into rdata)
		o := pickOff(d.NameOffsets, "nameOff")
		if o+1 < len(w) {
			tgt := rapid.SampledFrom([]int{o, o + 2, len(w), len(w) - 1, 0, 12, 0x3FFF}).Draw(t, "ptrTarget")
			w[o] = 0xC0 | byte(tgt>>8)&0x3F
			w[o+1] = byte(tgt)
		}
		return w, "pointer-game"
	case 8: // pointer chain appended after the message, first name redirected into it
		hops := rapid.IntRange(1, 14).Draw(t, "hops")
		start := len(w)
		if start+2*hops+3 >= 0x4000 || len(d.NameOffsets) == 0 {
			return w, "valid"
		}
		for i := 0; i < hops-1; i++ {
			next := start + 2*(i+1)
			w = append(w, 0xC0|byte(next>>8), byte(next))
		}
		if rapid.Bool().Draw(t, "loop") {
			w = append(w, 0xC0|byte(start>>8), byte(start))
		} else {
			w = append(w, 1, 'z', 0)
		}
		o := d.NameOffsets[0]
		// the question name must be at least 2 octets long in the stream for an in-place pointer;
		// otherwise the result is simply another malformed message, which is fine here.
		if o+1 < start {
			w[o] = 0xC0 | byte(start>>8)
			w[o+1] = byte(start)
		}
		return w, "pointer-chain"
	case 9: // flip random bytes
		n := rapid.IntRange(1, 4).Draw(t, "nFlips")
		for i := 0; i < n; i++ {
			w[rapid.IntRange(0, len(w)-1).Draw(t, "flipAt")] ^= byte(rapid.IntRange(1, 255).Draw(t, "flipMask"))
		}
		return w, "bitflip"
	case 10: // trailing garbage
		return append(w, rapid.SliceOfN(rapid.Byte(), 1, 40).Draw(t, "garbage")...), "trailing-garbage"
	case 11: // splice two messages
		m2 := GenMsg(t, MsgCfg{MaxQuestions: 1, MaxRRs: 2, PoolSize: 2, NameSetSize: 2})
		w2, _ := Encode(m2, EncOpts{})
		cut := rapid.IntRange(0, len(w)).Draw(t, "spliceAt")
		return append(w[:cut:cut], w2[rapid.IntRange(0, len(w2)).Draw(t, "spliceFrom"):]...), "splice"
	case 12: // growing name loop: label + pointer back to the label
		o := pickOff(d.NameOffsets, "nameOff")
		l := rapid.SampledFrom([]int{1, 30, 63}).Draw(t, "loopLabel")
		start := len(w)
		if start >= 0x3F00 {
			return w, "valid"
		}
		w = append(w, byte(l))
		w = append(w, bytes.Repeat([]byte{'q'}, l)...)
		w = append(w, 0xC0|byte(start>>8), byte(start))
		if o+1 < start {
			w[o] = 0xC0 | byte(start>>8)
			w[o+1] = byte(start)
		}
		return w, "name-growth-loop"
	case 14: // a pointer cycle that lies BEFORE the name that leads into it: in the header, or in earlier opaque octets
		o := pickOff(d.NameOffsets, "nameOff")
		if o+1 >= len(w) || o < 2 {
			return w, "valid"
		}
		p1 := rapid.SampledFrom([]int{0, 2, 4, 6, 8, 10, 12, o - 2, o / 2}).Draw(t, "cycleAt")
		if p1 > o-2 {
			p1 = o - 2
		}
		p1 &^= 0 // any alignment
		if rapid.Bool().Draw(t, "twoCycle") && o >= 4 {
			p2 := rapid.IntRange(0, o-2).Draw(t, "cycleAt2")
			if p2 == p1 || p2 == p1+1 || p2+1 == p1 {
				p2 = p1 // degenerate: self pointer
			}
			w[p1], w[p1+1] = 0xC0|byte(p2>>8), byte(p2)
			w[p2], w[p2+1] = 0xC0|byte(p1>>8), byte(p1)
		} else {
			w[p1], w[p1+1] = 0xC0|byte(p1>>8), byte(p1)
		}
		w[o], w[o+1] = 0xC0|byte(p1>>8), byte(p1)
		return w, "pointer-cycle-behind"
	default: // zero out a region
		a := rapid.IntRange(0, len(w)-1).Draw(t, "zeroFrom")
		b := rapid.IntRange(a, len(w)).Draw(t, "zeroTo")
		for i := a; i < b; i++ {
			w[i] = 0
		}
		return w, "zeroed"
	}
}
