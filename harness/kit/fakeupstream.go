package vfkit

import (
	"context"
	"crypto/tls"
	"encoding/base64"
	"encoding/binary"
	"fmt"
	"io"
	"net"
	"net/http"
	"reflect"
	"sync"
	"sync/atomic"
	"time"
	"unsafe"

	"github.com/quic-go/quic-go"
	"github.com/quic-go/quic-go/http3"
)

// UpQuery is one query as a fake upstream saw it.
type UpQuery struct {
	Up        *FakeUpstream
	Transport string // udp, tcp, tls, doh, h3, doq
	ConnID    int64
	Seq       int64 // arrival order at this upstream
	Raw       []byte
	Msg       *Decoded
	At        time.Time
	RepliedAt time.Time // set when the reply (if any) was written
	mu        sync.Mutex
}

func (q *UpQuery) setReplied() {
	q.mu.Lock()
	q.RepliedAt = time.Now()
	q.mu.Unlock()
}

func (q *UpQuery) Replied() time.Time {
	q.mu.Lock()
	defer q.mu.Unlock()
	return q.RepliedAt
}

// UpAction is what the fake upstream does with a query.
type UpAction struct {
	Reply       []byte // nil = stay silent
	Delay       time.Duration
	Gate        <-chan struct{} // when not nil, the reply is held until the channel is closed (or 8 s pass)
	Extra       [][]byte        // further messages written after Reply (duplicates, garbage)
	CloseBefore bool            // close the connection instead of replying
	CloseAfter  bool
	Reset       bool   // with CloseBefore/CloseAfter on plain TCP: close with SO_LINGER 0 (RST)
	RawStream   []byte // stream transports: write these octets verbatim instead of a framed Reply
	HTTPStatus  int    // DoH: status to send (0 = 200)
	HTTPHeaders map[string]string // DoH: response header fields set (over the defaults) before the body is written - a Content-Length that lies, another Content-Type, ...
	HTTPStall   bool   // DoH: send the headers (full Content-Length) and half of the body, then stall until the client gives up
}

type Handler func(q *UpQuery) UpAction

// FakeUpstream is a scripted DNS server.
type FakeUpstream struct {
	Kind    string // udp (udp+tcp on one port), tcp, tcp+pipeline, tls, tls+pipeline, https, h3, quic
	Tag     string
	IP      string
	Port    int
	TLS     *tls.Config  // server side
	handler atomic.Value // Handler

	mu          sync.Mutex
	queries     []*UpQuery
	badHTTP     []string
	seq         atomic.Int64
	connSeq     atomic.Int64
	conns       atomic.Int64 // accepted stream connections
	closers     []io.Closer
	closed      atomic.Bool
	inflight    atomic.Int64
	maxInflight atomic.Int64

	open        atomic.Int64 // stream / QUIC connections currently open (as far as the server can tell)
	AcceptDelay atomic.Int64 // nanoseconds to wait before serving an accepted stream connection (delayed handshake)
	// DoQ: connections accepted so far keep running, but new streams on them are reset (RESET_STREAM / STOP_SENDING);
	// connections accepted later are served normally. Set by ResetStreamsOnLiveConns.
	resetStreamsUpTo atomic.Int64
	streamResets     atomic.Int64
	StopReading      atomic.Bool // stream kinds: while set, no further frame is read from any connection (the peer's writes back up)
	liveMu           sync.Mutex
	live             map[int64]io.Closer // open accepted connections by id
	liveTCP          map[int64]*net.TCPConn
}

// OpenConns is the number of accepted connections the peer has not closed yet.
func (u *FakeUpstream) OpenConns() int64 { return u.open.Load() }

func (u *FakeUpstream) trackConn(id int64, c io.Closer, raw net.Conn) {
	u.liveMu.Lock()
	if u.live == nil {
		u.live = map[int64]io.Closer{}
		u.liveTCP = map[int64]*net.TCPConn{}
	}
	u.live[id] = c
	if t, ok := raw.(*net.TCPConn); ok {
		u.liveTCP[id] = t
	}
	u.liveMu.Unlock()
	u.open.Add(1)
}

func (u *FakeUpstream) untrackConn(id int64) {
	u.liveMu.Lock()
	_, ok := u.live[id]
	delete(u.live, id)
	delete(u.liveTCP, id)
	u.liveMu.Unlock()
	if ok {
		u.open.Add(-1)
	}
}

// KillConns closes every open accepted connection (reset = SO_LINGER 0 where possible). It returns how many.
func (u *FakeUpstream) KillConns(reset bool) int {
	u.liveMu.Lock()
	cs := make([]io.Closer, 0, len(u.live))
	for id, c := range u.live {
		if reset {
			if t := u.liveTCP[id]; t != nil {
				t.SetLinger(0)
			}
		}
		cs = append(cs, c)
	}
	u.liveMu.Unlock()
	for _, c := range cs {
		c.Close()
	}
	return len(cs)
}

// ResetStreamsOnLiveConns makes every DoQ connection accepted so far refuse new streams (it returns how many streams have
// been refused up to now).
func (u *FakeUpstream) ResetStreamsOnLiveConns() { u.resetStreamsUpTo.Store(u.connSeq.Load()) }
func (u *FakeUpstream) StreamResets() int64      { return u.streamResets.Load() }

// LastConnID returns the ID of the newest connection accepted so far (UpQuery.ConnID of its queries).
func (u *FakeUpstream) LastConnID() int64 { return u.connSeq.Load() }

type quicCloser struct{ c quic.Connection }

func (q quicCloser) Close() error { return q.c.CloseWithError(0, "killed by the harness") }

func (u *FakeUpstream) SetHandler(h Handler) { u.handler.Store(h) }

func (u *FakeUpstream) Queries() []*UpQuery {
	u.mu.Lock()
	defer u.mu.Unlock()
	return append([]*UpQuery(nil), u.queries...)
}

// BadHTTP returns the complete HTTP requests whose dns parameter could not be decoded.
func (u *FakeUpstream) BadHTTP() []string {
	u.mu.Lock()
	defer u.mu.Unlock()
	return append([]string(nil), u.badHTTP...)
}

func (u *FakeUpstream) NumQueries() int {
	u.mu.Lock()
	defer u.mu.Unlock()
	return len(u.queries)
}

func (u *FakeUpstream) MaxInflight() int64 { return u.maxInflight.Load() }
func (u *FakeUpstream) Conns() int64       { return u.conns.Load() }

// Addr is the upstream address for the proxy configuration.
func (u *FakeUpstream) Addr() string {
	hp := net.JoinHostPort(u.IP, fmt.Sprint(u.Port))
	switch u.Kind {
	case "udp":
		return "udp://" + hp
	case "https":
		return "https://" + hp + "/dns-query"
	case "h3":
		return "h3://" + hp + "/dns-query"
	default:
		return u.Kind + "://" + hp
	}
}

func (u *FakeUpstream) Close() {
	if u.closed.Swap(true) {
		return
	}
	u.mu.Lock()
	cs := u.closers
	u.mu.Unlock()
	for _, c := range cs {
		c.Close()
	}
}

func (u *FakeUpstream) record(transport string, conn int64, raw []byte) *UpQuery {
	q := &UpQuery{Up: u, Transport: transport, ConnID: conn, Raw: append([]byte(nil), raw...), At: time.Now(), Seq: u.seq.Add(1)}
	q.Msg = Decode(q.Raw)
	u.mu.Lock()
	u.queries = append(u.queries, q)
	u.mu.Unlock()
	return q
}

func (u *FakeUpstream) act(q *UpQuery) UpAction {
	h, _ := u.handler.Load().(Handler)
	if h == nil {
		return UpAction{}
	}
	n := u.inflight.Add(1)
	for {
		m := u.maxInflight.Load()
		if n <= m || u.maxInflight.CompareAndSwap(m, n) {
			break
		}
	}
	a := h(q)
	if a.Gate != nil {
		select {
		case <-a.Gate:
		case <-time.After(8 * time.Second):
		}
	}
	if a.Delay > 0 {
		time.Sleep(a.Delay)
	}
	u.inflight.Add(-1)
	return a
}

func Frame(b []byte) []byte {
	return append(binary.BigEndian.AppendUint16(nil, uint16(len(b))), b...)
}

// UpOpts are optional server-side limits of a fake upstream.
type UpOpts struct {
	QUICMaxStreams int64 // concurrent bidirectional streams a quic / h3 server grants (0 = 100000)
}

// StartUpstream starts a fake upstream of the given kind on ip (port 0 = any).
func StartUpstream(kind, tag, ip string, port int, tlsCfg *tls.Config, h Handler) (*FakeUpstream, error) {
	return StartUpstreamWith(kind, tag, ip, port, tlsCfg, h, UpOpts{})
}

func StartUpstreamWith(kind, tag, ip string, port int, tlsCfg *tls.Config, h Handler, opts UpOpts) (*FakeUpstream, error) {
	if opts.QUICMaxStreams == 0 {
		opts.QUICMaxStreams = 100000
	}
	u := &FakeUpstream{Kind: kind, Tag: tag, IP: ip, TLS: tlsCfg}
	if h != nil {
		u.SetHandler(h)
	}
	addClose := func(c io.Closer) {
		u.mu.Lock()
		u.closers = append(u.closers, c)
		u.mu.Unlock()
	}
	switch kind {
	case "udp", "tcp", "tcp+pipeline", "tls", "tls+pipeline":
		var l net.Listener
		var pc *net.UDPConn
		for try := 0; ; try++ {
			var err error
			l, err = net.Listen("tcp", net.JoinHostPort(ip, fmt.Sprint(port)))
			if err != nil {
				return nil, err
			}
			p := l.Addr().(*net.TCPAddr).Port
			if kind == "udp" {
				pc, err = net.ListenUDP("udp", &net.UDPAddr{IP: net.ParseIP(ip), Port: p})
				if err != nil {
					l.Close()
					if try < 50 && port == 0 {
						continue
					}
					return nil, err
				}
				pc.SetReadBuffer(4 << 20)
				pc.SetWriteBuffer(4 << 20)
			}
			u.Port = p
			break
		}
		if kind == "tls" || kind == "tls+pipeline" {
			l = tls.NewListener(l, tlsCfg)
		}
		addClose(l)
		go u.serveStream(l, map[string]string{"udp": "tcp", "tcp": "tcp", "tcp+pipeline": "tcp", "tls": "tls", "tls+pipeline": "tls"}[kind])
		if pc != nil {
			addClose(pc)
			go u.serveUDP(pc)
		}
	case "https":
		l, err := net.Listen("tcp", net.JoinHostPort(ip, fmt.Sprint(port)))
		if err != nil {
			return nil, err
		}
		u.Port = l.Addr().(*net.TCPAddr).Port
		cfg := tlsCfg.Clone()
		cfg.NextProtos = []string{"h2", "http/1.1"}
		srv := &http.Server{Handler: http.HandlerFunc(func(w http.ResponseWriter, r *http.Request) { u.serveHTTP(w, r, "doh") }), TLSConfig: cfg,
			ConnState: func(c net.Conn, s http.ConnState) {
				id := int64(uintptr(unsafe.Pointer(reflect.ValueOf(c).Pointer())))
				switch s {
				case http.StateNew:
					u.conns.Add(1)
					var raw net.Conn = c
					if tc, ok := c.(*tls.Conn); ok {
						raw = tc.NetConn()
					}
					if dc, ok := raw.(*delayConn); ok {
						raw = dc.Conn
					}
					u.trackConn(id, c, raw)
				case http.StateClosed, http.StateHijacked:
					u.untrackConn(id)
				}
			}}
		addClose(srv)
		go srv.ServeTLS(&delayListener{Listener: l, u: u}, "", "")
	case "h3":
		pc, err := net.ListenUDP("udp", &net.UDPAddr{IP: net.ParseIP(ip), Port: port})
		if err != nil {
			return nil, err
		}
		u.Port = pc.LocalAddr().(*net.UDPAddr).Port
		srv := &http3.Server{Handler: http.HandlerFunc(func(w http.ResponseWriter, r *http.Request) { u.serveHTTP(w, r, "h3") }), TLSConfig: http3.ConfigureTLSConfig(tlsCfg.Clone()), QuicConfig: &quic.Config{MaxIncomingStreams: opts.QUICMaxStreams}}
		// the QUIC connections are accepted here (not inside http3.Server.Serve) so that the harness knows them: it
		// counts them and can kill them like the connections of every other kind
		ql, err := quic.ListenEarly(pc, http3.ConfigureTLSConfig(tlsCfg.Clone()), &quic.Config{MaxIdleTimeout: 30 * time.Second, MaxIncomingStreams: opts.QUICMaxStreams})
		if err != nil {
			pc.Close()
			return nil, err
		}
		addClose(pc)
		addClose(ql)
		addClose(srv)
		go func() {
			for {
				c, err := ql.Accept(context.Background())
				if err != nil {
					return
				}
				u.conns.Add(1)
				id := u.connSeq.Add(1)
				u.trackConn(id, quicCloser{c}, nil)
				go func() {
					srv.ServeQUICConn(c)
					u.untrackConn(id)
				}()
			}
		}()
	case "quic":
		pc, err := net.ListenUDP("udp", &net.UDPAddr{IP: net.ParseIP(ip), Port: port})
		if err != nil {
			return nil, err
		}
		u.Port = pc.LocalAddr().(*net.UDPAddr).Port
		cfg := tlsCfg.Clone()
		cfg.NextProtos = []string{"doq"}
		ql, err := quic.Listen(pc, cfg, &quic.Config{MaxIdleTimeout: 30 * time.Second, MaxIncomingStreams: opts.QUICMaxStreams})
		if err != nil {
			pc.Close()
			return nil, err
		}
		addClose(pc)
		addClose(ql)
		go u.serveQUIC(ql)
	default:
		return nil, fmt.Errorf("unknown upstream kind %q", kind)
	}
	return u, nil
}

func (u *FakeUpstream) serveUDP(pc *net.UDPConn) {
	buf := make([]byte, 65535)
	for {
		n, from, err := pc.ReadFromUDP(buf)
		if err != nil {
			return
		}
		q := u.record("udp", 0, buf[:n])
		go func() {
			a := u.act(q)
			if a.CloseBefore {
				return
			}
			if a.Reply != nil {
				pc.WriteToUDP(a.Reply, from)
				q.setReplied()
			}
			for _, e := range a.Extra {
				pc.WriteToUDP(e, from)
			}
		}()
	}
}

func (u *FakeUpstream) serveStream(l net.Listener, transport string) {
	for {
		c, err := l.Accept()
		if err != nil {
			return
		}
		u.conns.Add(1)
		id := u.connSeq.Add(1)
		var raw net.Conn = c
		if tc, ok := c.(*tls.Conn); ok {
			raw = tc.NetConn()
		}
		u.trackConn(id, c, raw)
		go func() {
			var wmu sync.Mutex
			var wg sync.WaitGroup
			defer wg.Wait() // runs last: held handlers must not delay the bookkeeping below
			defer u.untrackConn(id)
			defer c.Close()
			if d := u.AcceptDelay.Load(); d > 0 {
				time.Sleep(time.Duration(d))
			}
			closeConn := func(reset bool) {
				if reset {
					if t, ok := raw.(*net.TCPConn); ok {
						t.SetLinger(0)
					}
				}
				c.Close()
			}
			for {
				for u.StopReading.Load() {
					time.Sleep(2 * time.Millisecond)
					if u.closed.Load() {
						return
					}
				}
				var lb [2]byte
				if _, err := io.ReadFull(c, lb[:]); err != nil {
					return
				}
				body := make([]byte, binary.BigEndian.Uint16(lb[:]))
				if _, err := io.ReadFull(c, body); err != nil {
					return
				}
				q := u.record(transport, id, body)
				wg.Add(1)
				go func() {
					defer wg.Done()
					a := u.act(q)
					if a.CloseBefore {
						closeConn(a.Reset)
						return
					}
					wmu.Lock()
					if a.RawStream != nil {
						c.Write(a.RawStream)
						q.setReplied()
					} else if a.Reply != nil {
						c.Write(Frame(a.Reply))
						q.setReplied()
					}
					for _, e := range a.Extra {
						c.Write(Frame(e))
					}
					wmu.Unlock()
					if a.CloseAfter {
						closeConn(a.Reset)
					}
				}()
			}
		}()
	}
}

func (u *FakeUpstream) serveHTTP(w http.ResponseWriter, r *http.Request, transport string) {
	var raw []byte
	var err error
	if r.Method == http.MethodGet {
		raw, err = base64.RawURLEncoding.DecodeString(r.URL.Query().Get("dns"))
		if err != nil {
			// a complete request whose dns parameter is not base64url: the client wrote something it never meant to
			u.mu.Lock()
			u.badHTTP = append(u.badHTTP, fmt.Sprintf("GET %q", r.URL.RawQuery))
			u.mu.Unlock()
		}
	} else {
		raw, err = io.ReadAll(io.LimitReader(r.Body, 70000))
	}
	if err != nil {
		w.WriteHeader(400)
		return
	}
	q := u.record(transport, 0, raw)
	a := u.act(q)
	if a.CloseBefore {
		if hj, ok := w.(http.Hijacker); ok {
			if c, _, err := hj.Hijack(); err == nil {
				c.Close()
				return
			}
		}
		panic(http.ErrAbortHandler)
	}
	if a.HTTPStatus != 0 && a.HTTPStatus != 200 {
		w.WriteHeader(a.HTTPStatus)
		w.Write([]byte("scripted failure"))
		return
	}
	if a.Reply == nil && a.RawStream == nil {
		// silence: hold the request until the client gives up
		select {
		case <-r.Context().Done():
		case <-time.After(8 * time.Second):
		}
		return
	}
	w.Header().Set("Content-Type", "application/dns-message")
	for k, v := range a.HTTPHeaders {
		w.Header().Set(k, v)
	}
	if a.HTTPStall {
		w.Header().Set("Content-Length", fmt.Sprint(len(a.Reply)))
		w.WriteHeader(200)
		w.Write(a.Reply[:len(a.Reply)/2])
		if f, ok := w.(http.Flusher); ok {
			f.Flush()
		}
		select {
		case <-r.Context().Done():
		case <-time.After(8 * time.Second):
		}
		return
	}
	if a.RawStream != nil {
		w.Write(a.RawStream)
	} else {
		w.Write(a.Reply)
	}
	q.setReplied()
}

func (u *FakeUpstream) serveQUIC(l *quic.Listener) {
	for {
		c, err := l.Accept(context.Background())
		if err != nil {
			return
		}
		u.conns.Add(1)
		id := u.connSeq.Add(1)
		u.trackConn(id, quicCloser{c}, nil)
		go func() {
			<-c.Context().Done()
			u.untrackConn(id)
		}()
		go func() {
			for {
				s, err := c.AcceptStream(context.Background())
				if err != nil {
					return
				}
				go func() {
					defer s.Close()
					if id <= u.resetStreamsUpTo.Load() {
						// a connection the server is draining: it stays open, but every new stream on it is refused
						s.CancelRead(1)
						s.CancelWrite(1)
						u.streamResets.Add(1)
						return
					}
					var lb [2]byte
					if _, err := io.ReadFull(s, lb[:]); err != nil {
						return
					}
					body := make([]byte, binary.BigEndian.Uint16(lb[:]))
					if _, err := io.ReadFull(s, body); err != nil {
						return
					}
					q := u.record("doq", id, body)
					a := u.act(q)
					if a.CloseBefore {
						c.CloseWithError(1, "scripted close")
						return
					}
					if a.RawStream != nil {
						s.Write(a.RawStream)
						q.setReplied()
					} else if a.Reply != nil {
						s.Write(Frame(a.Reply))
						q.setReplied()
					}
					if a.CloseAfter {
						c.CloseWithError(0, "")
					}
				}()
			}
		}()
	}
}

// delayListener makes the first read of every accepted connection wait for the upstream's AcceptDelay: the TLS
// handshake of an HTTP client then stalls for that long (the stream kinds do the same in serveStream).
type delayListener struct {
	net.Listener
	u *FakeUpstream
}

func (l *delayListener) Accept() (net.Conn, error) {
	c, err := l.Listener.Accept()
	if err != nil {
		return nil, err
	}
	return &delayConn{Conn: c, u: l.u}, nil
}

type delayConn struct {
	net.Conn
	u    *FakeUpstream
	once sync.Once
}

func (c *delayConn) Read(p []byte) (int, error) {
	c.once.Do(func() {
		if d := c.u.AcceptDelay.Load(); d > 0 {
			time.Sleep(time.Duration(d))
		}
	})
	return c.Conn.Read(p)
}
