// Package vfkit holds the parts of the verification harness that are independent of
// the code under test: the evidence collector, a DNS message model with its own wire
// encoder/decoder, rapid generators and an in-memory connection with a harness-owned
// schedule. Nothing in here imports the repository.
package vfkit

import (
	"crypto/sha256"
	"encoding/binary"
	"encoding/json"
	"fmt"
	"os"
	"path/filepath"
	"sort"
	"strings"
	"sync"
)

// Collector gathers what one harness test actually explored.
type Collector struct {
	mu          sync.Mutex
	name        string
	rule        string
	evaluations int
	nontrivial  map[uint64]struct{}
	classes     map[string]int
	samples     []any
	maxSamples  int
	excluded    map[string]int
	notes       []string
}

var (
	collectorsMu sync.Mutex
	collectors   = map[string]*Collector{}
)

// Stats returns the collector of the named test (created on first use).
func Stats(name, rule string) *Collector {
	collectorsMu.Lock()
	defer collectorsMu.Unlock()
	c := collectors[name]
	if c == nil {
		c = &Collector{name: name, rule: rule, nontrivial: map[uint64]struct{}{}, classes: map[string]int{}, maxSamples: 8, excluded: map[string]int{}}
		collectors[name] = c
	}
	return c
}

// Fingerprint hashes the parts of a generated case.
func Fingerprint(parts ...any) uint64 {
	h := sha256.New()
	for _, p := range parts {
		switch v := p.(type) {
		case []byte:
			h.Write(v)
		case string:
			h.Write([]byte(v))
		default:
			fmt.Fprintf(h, "%v", v)
		}
		h.Write([]byte{0xff, 0x00})
	}
	return binary.BigEndian.Uint64(h.Sum(nil))
}

// Case records one executed case. sample is only evaluated when a sample slot is free.
func (c *Collector) Case(fp uint64, nontrivial bool, classes []string, sample func() any) {
	c.mu.Lock()
	defer c.mu.Unlock()
	c.evaluations++
	for _, cl := range classes {
		c.classes[cl]++
	}
	if nontrivial {
		_, seen := c.nontrivial[fp]
		if !seen {
			if len(c.nontrivial) < 4_000_000 {
				c.nontrivial[fp] = struct{}{}
			}
			// Sample preferably non-trivial cases, spread over the run.
			if sample != nil && len(c.samples) < c.maxSamples && (len(c.nontrivial)&(len(c.nontrivial)-1)) == 0 {
				c.samples = append(c.samples, sample())
			}
		}
	}
}

// Exclude counts a case (or a part of one) that was left out by construction.
func (c *Collector) Exclude(reason string) {
	c.mu.Lock()
	c.excluded[reason]++
	c.mu.Unlock()
}

// Class bumps a class counter outside Case (per step / per event counters).
func (c *Collector) Class(cl string, n int) {
	c.mu.Lock()
	c.classes[cl] += n
	c.mu.Unlock()
}

func (c *Collector) Note(s string) {
	c.mu.Lock()
	if len(c.notes) < 20 {
		c.notes = append(c.notes, s)
	}
	c.mu.Unlock()
}

type flushed struct {
	Test        string         `json:"test"`
	Rule        string         `json:"rule"`
	Evaluations int            `json:"evaluations"`
	Nontrivial  []uint64       `json:"nontrivial_fps"`
	NontrivialN int            `json:"nontrivial_n"`
	Classes     map[string]int `json:"classes"`
	Samples     []any          `json:"samples"`
	Excluded    map[string]int `json:"excluded"`
	Notes       []string       `json:"notes"`
}

// Flush writes every collector to $VERIF_STATS_OUT/<test>-<pid>.json (no-op when unset).
func Flush() {
	dir := os.Getenv("VERIF_STATS_OUT")
	if dir == "" {
		return
	}
	collectorsMu.Lock()
	defer collectorsMu.Unlock()
	for name, c := range collectors {
		c.mu.Lock()
		f := flushed{Test: name, Rule: c.rule, Evaluations: c.evaluations, Classes: c.classes,
			Samples: c.samples, Excluded: c.excluded, Notes: c.notes, NontrivialN: len(c.nontrivial)}
		// Fingerprints are exported (bounded) so that the driver can count distinct cases across shards.
		fps := make([]uint64, 0, len(c.nontrivial))
		for fp := range c.nontrivial {
			fps = append(fps, fp)
			if len(fps) >= 300_000 {
				break
			}
		}
		sort.Slice(fps, func(i, j int) bool { return fps[i] < fps[j] })
		f.Nontrivial = fps
		c.mu.Unlock()
		b, err := json.Marshal(f)
		if err != nil {
			// A sample that cannot be marshalled must not lose the counts.
			f.Samples = []any{fmt.Sprintf("unmarshallable samples: %v", err)}
			b, _ = json.Marshal(f)
		}
		fn := filepath.Join(dir, fmt.Sprintf("%s-%d.json", strings.ReplaceAll(name, "/", "_"), os.Getpid()))
		_ = os.WriteFile(fn, b, 0o644)
	}
}

// Inconclusive aborts the test binary with the marker the driver maps to exit status 2.
// It is used for harness self-check failures, which must never be reported as violations.
func Inconclusive(format string, args ...any) {
	fmt.Fprintf(os.Stdout, "VERIF-INCONCLUSIVE: "+format+"\n", args...)
	Flush()
	os.Exit(3)
}

// Hex is a short printable form for samples.
func Hex(b []byte) string {
	const max = 300
	if len(b) > max {
		return fmt.Sprintf("%x...(%d bytes)", b[:max], len(b))
	}
	return fmt.Sprintf("%x", b)
}
