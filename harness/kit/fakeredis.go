package vfkit

// A small in-memory server speaking enough RESP3 for the proxy's second-level cache client (rueidis):
// HELLO 3, CLIENT *, CLUSTER * (refused, so the client falls back to a single connection), PING, GET and
// SET [NX] PX. No redis server exists in the sandbox; this one is written from the protocol description
// (https://redis.io/docs/reference/protocol-spec) and keeps a log of every command for the oracles.

import (
	"bufio"
	"bytes"
	"fmt"
	"io"
	"net"
	"strconv"
	"strings"
	"sync"
	"sync/atomic"
	"time"
)

type RedisOp struct {
	At     time.Time
	Cmd    string // GET / SET
	Key    []byte
	Value  []byte // value written (SET) or returned (GET hit)
	NX     bool
	PX     time.Duration
	Hit    bool // GET: a live value was returned; SET: the value was stored
	Expire time.Time
	// GET: the reply was not written before this instant (arrival + the latency in force; replies leave in command order,
	// so it may have been later)
	ReplyNotBefore time.Time
	// SET: the live value the key held when the command arrived (nil if none) and its expiry
	Prev       []byte
	PrevExpire time.Time
}

type redisEntry struct {
	v      []byte
	expire time.Time
}

type FakeRedis struct {
	ln    net.Listener
	mu    sync.Mutex
	data  map[string]redisEntry
	log   []RedisOp
	conns map[net.Conn]struct{}
	// Down makes the server hang up on every command (and refuse new connections' commands) while set.
	Down atomic.Bool
	// Delay is slept before every GET / SET reply.
	Delay  atomic.Int64
	closed atomic.Bool
	// GetDelay, when set, gives the latency of the n-th GET (n = 0, 1, ...) of a key since SetGetDelay was called;
	// the larger of it and Delay applies.
	getDelay atomic.Pointer[func(key []byte, n int) time.Duration]
	getCount map[string]int
	Hits   atomic.Int64
	Pings  atomic.Int64
	Sets   atomic.Int64
}

func StartFakeRedis(ip string) (*FakeRedis, error) {
	ln, err := net.Listen("tcp", net.JoinHostPort(ip, "0"))
	if err != nil {
		return nil, err
	}
	r := &FakeRedis{ln: ln, data: map[string]redisEntry{}, conns: map[net.Conn]struct{}{}}
	go r.accept()
	return r, nil
}

func (r *FakeRedis) Addr() string { return r.ln.Addr().String() }
func (r *FakeRedis) URL() string  { return "redis://" + r.Addr() }

func (r *FakeRedis) Close() {
	if r.closed.Swap(true) {
		return
	}
	r.ln.Close()
	r.mu.Lock()
	for c := range r.conns {
		c.Close()
	}
	r.mu.Unlock()
}

// KillConns closes every open client connection (the listener stays).
func (r *FakeRedis) KillConns() {
	r.mu.Lock()
	for c := range r.conns {
		c.Close()
	}
	r.mu.Unlock()
}

// SetGetDelay installs (or, with nil, removes) a per-key latency schedule for GET commands and resets the per-key counters.
func (r *FakeRedis) SetGetDelay(fn func(key []byte, n int) time.Duration) {
	r.mu.Lock()
	r.getCount = map[string]int{}
	r.mu.Unlock()
	if fn == nil {
		r.getDelay.Store(nil)
		return
	}
	r.getDelay.Store(&fn)
}

// OpenConns returns the number of client connections that are open right now.
func (r *FakeRedis) OpenConns() int {
	r.mu.Lock()
	defer r.mu.Unlock()
	return len(r.conns)
}

// Log returns a copy of the GET / SET log.
func (r *FakeRedis) Log() []RedisOp {
	r.mu.Lock()
	defer r.mu.Unlock()
	return append([]RedisOp(nil), r.log...)
}

// Len returns the number of live keys.
func (r *FakeRedis) Len() int {
	r.mu.Lock()
	defer r.mu.Unlock()
	n := 0
	now := time.Now()
	for _, e := range r.data {
		if e.expire.After(now) {
			n++
		}
	}
	return n
}

// Put stores a value directly (used to plant foreign or corrupt values).
func (r *FakeRedis) Put(k, v []byte, ttl time.Duration) {
	r.mu.Lock()
	r.data[string(k)] = redisEntry{append([]byte(nil), v...), time.Now().Add(ttl)}
	r.mu.Unlock()
}

func (r *FakeRedis) accept() {
	for {
		c, err := r.ln.Accept()
		if err != nil {
			return
		}
		r.mu.Lock()
		r.conns[c] = struct{}{}
		r.mu.Unlock()
		go r.serve(c)
	}
}

func readRespCommand(br *bufio.Reader) ([][]byte, error) {
	line, err := br.ReadString('\n')
	if err != nil {
		return nil, err
	}
	line = strings.TrimRight(line, "\r\n")
	if len(line) == 0 || line[0] != '*' {
		return nil, fmt.Errorf("unexpected RESP line %q", line)
	}
	n, err := strconv.Atoi(line[1:])
	if err != nil || n < 0 || n > 64 {
		return nil, fmt.Errorf("bad array length %q", line)
	}
	args := make([][]byte, 0, n)
	for i := 0; i < n; i++ {
		l, err := br.ReadString('\n')
		if err != nil {
			return nil, err
		}
		l = strings.TrimRight(l, "\r\n")
		if len(l) == 0 || l[0] != '$' {
			return nil, fmt.Errorf("unexpected RESP bulk header %q", l)
		}
		sz, err := strconv.Atoi(l[1:])
		if err != nil || sz < 0 || sz > 64<<20 {
			return nil, fmt.Errorf("bad bulk length %q", l)
		}
		b := make([]byte, sz+2)
		if _, err := io.ReadFull(br, b); err != nil {
			return nil, err
		}
		args = append(args, b[:sz])
	}
	return args, nil
}

func (r *FakeRedis) serve(c net.Conn) {
	defer func() {
		c.Close()
		r.mu.Lock()
		delete(r.conns, c)
		r.mu.Unlock()
	}()
	br := bufio.NewReaderSize(c, 64<<10)
	// Replies leave in the order of the commands (the protocol pipelines), each not before its own time: Delay is latency,
	// not service time - commands that arrive together are answered together, Delay later.
	type pending struct {
		at time.Time
		b  []byte
	}
	outq := make(chan pending, 8192)
	defer close(outq)
	go func() {
		for p := range outq {
			if d := time.Until(p.at); d > 0 {
				time.Sleep(d)
			}
			if _, err := c.Write(p.b); err != nil {
				c.Close()
				for range outq {
				}
				return
			}
		}
	}()
	for {
		args, err := readRespCommand(br)
		if err != nil || len(args) == 0 {
			return
		}
		if r.Down.Load() {
			return
		}
		var bw bytes.Buffer
		var delay time.Duration
		cmd := strings.ToUpper(string(args[0]))
		switch cmd {
		case "HELLO":
			bw.WriteString("%3\r\n$6\r\nserver\r\n$5\r\nredis\r\n$7\r\nversion\r\n$5\r\n6.2.0\r\n$5\r\nproto\r\n:3\r\n")
		case "CLIENT", "SELECT", "READONLY":
			bw.WriteString("+OK\r\n")
		case "CLUSTER":
			bw.WriteString("-ERR This instance has cluster support disabled\r\n")
		case "PING":
			r.Pings.Add(1)
			bw.WriteString("+PONG\r\n")
		case "GET":
			if len(args) != 2 {
				bw.WriteString("-ERR wrong number of arguments for 'get' command\r\n")
				break
			}
			delay = time.Duration(r.Delay.Load())
			now := time.Now()
			r.mu.Lock()
			if fn := r.getDelay.Load(); fn != nil {
				n := r.getCount[string(args[1])]
				r.getCount[string(args[1])] = n + 1
				if d := (*fn)(args[1], n); d > delay {
					delay = d
				}
			}
			e, ok := r.data[string(args[1])]
			if ok && !e.expire.After(now) {
				delete(r.data, string(args[1]))
				ok = false
			}
			op := RedisOp{At: now, Cmd: "GET", Key: append([]byte(nil), args[1]...), Hit: ok, ReplyNotBefore: now.Add(delay)}
			if ok {
				op.Value = e.v
				op.Expire = e.expire
			}
			r.log = append(r.log, op)
			r.mu.Unlock()
			if ok {
				r.Hits.Add(1)
				fmt.Fprintf(&bw, "$%d\r\n", len(e.v))
				bw.Write(e.v)
				bw.WriteString("\r\n")
			} else {
				bw.WriteString("_\r\n")
			}
		case "SET":
			if len(args) < 3 {
				bw.WriteString("-ERR wrong number of arguments for 'set' command\r\n")
				break
			}
			op := RedisOp{Cmd: "SET", Key: append([]byte(nil), args[1]...), Value: append([]byte(nil), args[2]...)}
			bad := false
			for i := 3; i < len(args); i++ {
				switch strings.ToUpper(string(args[i])) {
				case "NX":
					op.NX = true
				case "PX", "EX":
					if i+1 >= len(args) {
						bad = true
						break
					}
					n, err := strconv.ParseInt(string(args[i+1]), 10, 64)
					if err != nil || n <= 0 {
						bad = true
						break
					}
					if strings.ToUpper(string(args[i])) == "PX" {
						op.PX = time.Duration(n) * time.Millisecond
					} else {
						op.PX = time.Duration(n) * time.Second
					}
					i++
				default:
					bad = true
				}
			}
			if bad {
				bw.WriteString("-ERR syntax error\r\n")
				break
			}
			delay = time.Duration(r.Delay.Load())
			now := time.Now()
			op.At = now
			r.mu.Lock()
			cur, live := r.data[string(op.Key)]
			live = live && cur.expire.After(now)
			if live {
				op.Prev, op.PrevExpire = cur.v, cur.expire
			}
			if op.NX && live {
				op.Hit = false
			} else {
				op.Hit = true
				exp := now.Add(100 * 365 * 24 * time.Hour)
				if op.PX > 0 {
					exp = now.Add(op.PX)
				}
				op.Expire = exp
				r.data[string(op.Key)] = redisEntry{op.Value, exp}
			}
			r.log = append(r.log, op)
			r.mu.Unlock()
			if op.Hit {
				r.Sets.Add(1)
				bw.WriteString("+OK\r\n")
			} else {
				bw.WriteString("_\r\n")
			}
		default:
			fmt.Fprintf(&bw, "-ERR unknown command '%s'\r\n", cmd)
		}
		select {
		case outq <- pending{time.Now().Add(delay), append([]byte(nil), bw.Bytes()...)}:
		default:
			return // a client that pipelines 8192 commands without reading: hang up
		}
	}
}
